    fn simplify<const M: usize>(
        &self,
        choices: &[Choice],
        workspace: &mut VmWorkspace<M>,
        mut tape: VmData<M>,
    ) -> Result<VmData<M>, BadChoiceSlice> {
        if choices.len() != self.choice_count() {
            return Err(BadChoiceSlice {
                actual: choices.len(),
                expected: self.choice_count(),
            });
        }
        tape.ssa.reset();

        workspace.reset(self.ssa.tape.len(), tape.asm);

        let mut choice_count = 0;
        let mut output_count = 0;

        let mut choice_k_: usize = choices.len();   // R-revnext: choices.iter().rev()

        let mut ops_out = tape.ssa.tape;

        let mut k_: usize = 0;
        while k_ < self.ssa.tape.len() {   // R-iter
            let mut op = self.ssa.tape[k_];
            k_ += 1;
            let index = match &mut op {
                SsaOp::Output(reg, _i) => {
                    *reg = workspace.get_or_insert_active(*reg);
                    workspace.alloc.op(op);
                    ops_out.push(op);
                    output_count += 1;
                    continue;
                }
                _ => op.output().unwrap(),
            };

            if workspace.active(index).is_none() {
                if op.has_choice() {
                    { assert!(choice_k_ > 0); choice_k_ -= 1; }   // R-revnext: .next().unwrap()
                }
                continue;
            }

            let new_index = workspace.active(index).unwrap();

            match &mut op {
                SsaOp::Output(..) => panic!(),
                SsaOp::Input(index, ..) => {
                    *index = new_index;
                }
                SsaOp::CopyImm(index, ..) => {
                    *index = new_index;
                }
                SsaOp::NegReg(index, arg) => {
                    *index = new_index;
                    *arg = workspace.get_or_insert_active(*arg);
                }
                SsaOp::AbsReg(index, arg) => {
                    *index = new_index;
                    *arg = workspace.get_or_insert_active(*arg);
                }
                SsaOp::RecipReg(index, arg) => {
                    *index = new_index;
                    *arg = workspace.get_or_insert_active(*arg);
                }
                SsaOp::SqrtReg(index, arg) => {
                    *index = new_index;
                    *arg = workspace.get_or_insert_active(*arg);
                }
                SsaOp::SquareReg(index, arg) => {
                    *index = new_index;
                    *arg = workspace.get_or_insert_active(*arg);
                }
                SsaOp::FloorReg(index, arg) => {
                    *index = new_index;
                    *arg = workspace.get_or_insert_active(*arg);
                }
                SsaOp::CeilReg(index, arg) => {
                    *index = new_index;
                    *arg = workspace.get_or_insert_active(*arg);
                }
                SsaOp::RoundReg(index, arg) => {
                    *index = new_index;
                    *arg = workspace.get_or_insert_active(*arg);
                }
                SsaOp::SinReg(index, arg) => {
                    *index = new_index;
                    *arg = workspace.get_or_insert_active(*arg);
                }
                SsaOp::CosReg(index, arg) => {
                    *index = new_index;
                    *arg = workspace.get_or_insert_active(*arg);
                }
                SsaOp::TanReg(index, arg) => {
                    *index = new_index;
                    *arg = workspace.get_or_insert_active(*arg);
                }
                SsaOp::AsinReg(index, arg) => {
                    *index = new_index;
                    *arg = workspace.get_or_insert_active(*arg);
                }
                SsaOp::AcosReg(index, arg) => {
                    *index = new_index;
                    *arg = workspace.get_or_insert_active(*arg);
                }
                SsaOp::AtanReg(index, arg) => {
                    *index = new_index;
                    *arg = workspace.get_or_insert_active(*arg);
                }
                SsaOp::ExpReg(index, arg) => {
                    *index = new_index;
                    *arg = workspace.get_or_insert_active(*arg);
                }
                SsaOp::LnReg(index, arg) => {
                    *index = new_index;
                    *arg = workspace.get_or_insert_active(*arg);
                }
                SsaOp::NotReg(index, arg) => {
                    *index = new_index;
                    *arg = workspace.get_or_insert_active(*arg);
                }
                SsaOp::RandReg(index, arg) => {
                    *index = new_index;
                    *arg = workspace.get_or_insert_active(*arg);
                }
                SsaOp::CopyReg(index, src) => {
                    match workspace.active(*src) {
                        Some(new_src) => {
                            *index = new_index;
                            *src = new_src;
                        }
                        None => {
                            workspace.set_active(*src, new_index);
                            continue;
                        }
                    }
                }
                SsaOp::MinRegImm(index, arg, imm) => {
                    match { assert!(choice_k_ > 0); choice_k_ -= 1; choices[choice_k_] } {   // R-revnext
                        Choice::Left => match workspace.active(*arg) {
                            Some(new_arg) => {
                                op = SsaOp::CopyReg(new_index, new_arg);
                            }
                            None => {
                                workspace.set_active(*arg, new_index);
                                continue;
                            }
                        },
                        Choice::Right => {
                            op = SsaOp::CopyImm(new_index, *imm);
                        }
                        Choice::Both => {
                            choice_count += 1;
                            *index = new_index;
                            *arg = workspace.get_or_insert_active(*arg);
                        }
                        Choice::Unknown => panic!(),
                    }
                }
                SsaOp::MaxRegImm(index, arg, imm) => {
                    match { assert!(choice_k_ > 0); choice_k_ -= 1; choices[choice_k_] } {   // R-revnext
                        Choice::Left => match workspace.active(*arg) {
                            Some(new_arg) => {
                                op = SsaOp::CopyReg(new_index, new_arg);
                            }
                            None => {
                                workspace.set_active(*arg, new_index);
                                continue;
                            }
                        },
                        Choice::Right => {
                            op = SsaOp::CopyImm(new_index, *imm);
                        }
                        Choice::Both => {
                            choice_count += 1;
                            *index = new_index;
                            *arg = workspace.get_or_insert_active(*arg);
                        }
                        Choice::Unknown => panic!(),
                    }
                }
                SsaOp::AndRegImm(index, arg, imm) => {
                    match { assert!(choice_k_ > 0); choice_k_ -= 1; choices[choice_k_] } {   // R-revnext
                        Choice::Left => match workspace.active(*arg) {
                            Some(new_arg) => {
                                op = SsaOp::CopyReg(new_index, new_arg);
                            }
                            None => {
                                workspace.set_active(*arg, new_index);
                                continue;
                            }
                        },
                        Choice::Right => {
                            op = SsaOp::CopyImm(new_index, *imm);
                        }
                        Choice::Both => {
                            choice_count += 1;
                            *index = new_index;
                            *arg = workspace.get_or_insert_active(*arg);
                        }
                        Choice::Unknown => panic!(),
                    }
                }
                SsaOp::OrRegImm(index, arg, imm) => {
                    match { assert!(choice_k_ > 0); choice_k_ -= 1; choices[choice_k_] } {   // R-revnext
                        Choice::Left => match workspace.active(*arg) {
                            Some(new_arg) => {
                                op = SsaOp::CopyReg(new_index, new_arg);
                            }
                            None => {
                                workspace.set_active(*arg, new_index);
                                continue;
                            }
                        },
                        Choice::Right => {
                            op = SsaOp::CopyImm(new_index, *imm);
                        }
                        Choice::Both => {
                            choice_count += 1;
                            *index = new_index;
                            *arg = workspace.get_or_insert_active(*arg);
                        }
                        Choice::Unknown => panic!(),
                    }
                }
                SsaOp::MinRegReg(index, lhs, rhs) => {
                    match { assert!(choice_k_ > 0); choice_k_ -= 1; choices[choice_k_] } {   // R-revnext
                        Choice::Left => match workspace.active(*lhs) {
                            Some(new_lhs) => {
                                op = SsaOp::CopyReg(new_index, new_lhs);
                            }
                            None => {
                                workspace.set_active(*lhs, new_index);
                                continue;
                            }
                        },
                        Choice::Right => match workspace.active(*rhs) {
                            Some(new_rhs) => {
                                op = SsaOp::CopyReg(new_index, new_rhs);
                            }
                            None => {
                                workspace.set_active(*rhs, new_index);
                                continue;
                            }
                        },
                        Choice::Both => {
                            choice_count += 1;
                            *index = new_index;
                            *lhs = workspace.get_or_insert_active(*lhs);
                            *rhs = workspace.get_or_insert_active(*rhs);
                        }
                        Choice::Unknown => panic!(),
                    }
                }
                SsaOp::MaxRegReg(index, lhs, rhs) => {
                    match { assert!(choice_k_ > 0); choice_k_ -= 1; choices[choice_k_] } {   // R-revnext
                        Choice::Left => match workspace.active(*lhs) {
                            Some(new_lhs) => {
                                op = SsaOp::CopyReg(new_index, new_lhs);
                            }
                            None => {
                                workspace.set_active(*lhs, new_index);
                                continue;
                            }
                        },
                        Choice::Right => match workspace.active(*rhs) {
                            Some(new_rhs) => {
                                op = SsaOp::CopyReg(new_index, new_rhs);
                            }
                            None => {
                                workspace.set_active(*rhs, new_index);
                                continue;
                            }
                        },
                        Choice::Both => {
                            choice_count += 1;
                            *index = new_index;
                            *lhs = workspace.get_or_insert_active(*lhs);
                            *rhs = workspace.get_or_insert_active(*rhs);
                        }
                        Choice::Unknown => panic!(),
                    }
                }
                SsaOp::AndRegReg(index, lhs, rhs) => {
                    match { assert!(choice_k_ > 0); choice_k_ -= 1; choices[choice_k_] } {   // R-revnext
                        Choice::Left => match workspace.active(*lhs) {
                            Some(new_lhs) => {
                                op = SsaOp::CopyReg(new_index, new_lhs);
                            }
                            None => {
                                workspace.set_active(*lhs, new_index);
                                continue;
                            }
                        },
                        Choice::Right => match workspace.active(*rhs) {
                            Some(new_rhs) => {
                                op = SsaOp::CopyReg(new_index, new_rhs);
                            }
                            None => {
                                workspace.set_active(*rhs, new_index);
                                continue;
                            }
                        },
                        Choice::Both => {
                            choice_count += 1;
                            *index = new_index;
                            *lhs = workspace.get_or_insert_active(*lhs);
                            *rhs = workspace.get_or_insert_active(*rhs);
                        }
                        Choice::Unknown => panic!(),
                    }
                }
                SsaOp::OrRegReg(index, lhs, rhs) => {
                    match { assert!(choice_k_ > 0); choice_k_ -= 1; choices[choice_k_] } {   // R-revnext
                        Choice::Left => match workspace.active(*lhs) {
                            Some(new_lhs) => {
                                op = SsaOp::CopyReg(new_index, new_lhs);
                            }
                            None => {
                                workspace.set_active(*lhs, new_index);
                                continue;
                            }
                        },
                        Choice::Right => match workspace.active(*rhs) {
                            Some(new_rhs) => {
                                op = SsaOp::CopyReg(new_index, new_rhs);
                            }
                            None => {
                                workspace.set_active(*rhs, new_index);
                                continue;
                            }
                        },
                        Choice::Both => {
                            choice_count += 1;
                            *index = new_index;
                            *lhs = workspace.get_or_insert_active(*lhs);
                            *rhs = workspace.get_or_insert_active(*rhs);
                        }
                        Choice::Unknown => panic!(),
                    }
                }
                SsaOp::AddRegReg(index, lhs, rhs) => {
                    *index = new_index;
                    *lhs = workspace.get_or_insert_active(*lhs);
                    *rhs = workspace.get_or_insert_active(*rhs);
                }
                SsaOp::MulRegReg(index, lhs, rhs) => {
                    *index = new_index;
                    *lhs = workspace.get_or_insert_active(*lhs);
                    *rhs = workspace.get_or_insert_active(*rhs);
                }
                SsaOp::SubRegReg(index, lhs, rhs) => {
                    *index = new_index;
                    *lhs = workspace.get_or_insert_active(*lhs);
                    *rhs = workspace.get_or_insert_active(*rhs);
                }
                SsaOp::DivRegReg(index, lhs, rhs) => {
                    *index = new_index;
                    *lhs = workspace.get_or_insert_active(*lhs);
                    *rhs = workspace.get_or_insert_active(*rhs);
                }
                SsaOp::AtanRegReg(index, lhs, rhs) => {
                    *index = new_index;
                    *lhs = workspace.get_or_insert_active(*lhs);
                    *rhs = workspace.get_or_insert_active(*rhs);
                }
                SsaOp::CompareRegReg(index, lhs, rhs) => {
                    *index = new_index;
                    *lhs = workspace.get_or_insert_active(*lhs);
                    *rhs = workspace.get_or_insert_active(*rhs);
                }
                SsaOp::MixRegReg(index, lhs, rhs) => {
                    *index = new_index;
                    *lhs = workspace.get_or_insert_active(*lhs);
                    *rhs = workspace.get_or_insert_active(*rhs);
                }
                SsaOp::ModRegReg(index, lhs, rhs) => {
                    *index = new_index;
                    *lhs = workspace.get_or_insert_active(*lhs);
                    *rhs = workspace.get_or_insert_active(*rhs);
                }
                SsaOp::AddRegImm(index, arg, _imm) => {
                    *index = new_index;
                    *arg = workspace.get_or_insert_active(*arg);
                }
                SsaOp::MulRegImm(index, arg, _imm) => {
                    *index = new_index;
                    *arg = workspace.get_or_insert_active(*arg);
                }
                SsaOp::SubRegImm(index, arg, _imm) => {
                    *index = new_index;
                    *arg = workspace.get_or_insert_active(*arg);
                }
                SsaOp::SubImmReg(index, arg, _imm) => {
                    *index = new_index;
                    *arg = workspace.get_or_insert_active(*arg);
                }
                SsaOp::DivRegImm(index, arg, _imm) => {
                    *index = new_index;
                    *arg = workspace.get_or_insert_active(*arg);
                }
                SsaOp::DivImmReg(index, arg, _imm) => {
                    *index = new_index;
                    *arg = workspace.get_or_insert_active(*arg);
                }
                SsaOp::AtanImmReg(index, arg, _imm) => {
                    *index = new_index;
                    *arg = workspace.get_or_insert_active(*arg);
                }
                SsaOp::AtanRegImm(index, arg, _imm) => {
                    *index = new_index;
                    *arg = workspace.get_or_insert_active(*arg);
                }
                SsaOp::CompareRegImm(index, arg, _imm) => {
                    *index = new_index;
                    *arg = workspace.get_or_insert_active(*arg);
                }
                SsaOp::CompareImmReg(index, arg, _imm) => {
                    *index = new_index;
                    *arg = workspace.get_or_insert_active(*arg);
                }
                SsaOp::MixRegImm(index, arg, _imm) => {
                    *index = new_index;
                    *arg = workspace.get_or_insert_active(*arg);
                }
                SsaOp::MixImmReg(index, arg, _imm) => {
                    *index = new_index;
                    *arg = workspace.get_or_insert_active(*arg);
                }
                SsaOp::ModRegImm(index, arg, _imm) => {
                    *index = new_index;
                    *arg = workspace.get_or_insert_active(*arg);
                }
                SsaOp::ModImmReg(index, arg, _imm) => {
                    *index = new_index;
                    *arg = workspace.get_or_insert_active(*arg);
                }
            }
            workspace.alloc.op(op);
            ops_out.push(op);
        }

        assert!(workspace.count as usize + 1 == ops_out.len());
        let asm_tape = workspace.alloc.finalize();

        Ok(VmData {
            ssa: SsaTape {
                tape: ops_out,
                choice_count,
                output_count,
            },
            asm: asm_tape,
            vars: self.vars.clone(),
        })
    }

