#!/bin/bash
# rebuild unit3.rs from unit0.rs + spec.py
python3 - <<'PY'
import re, sys, importlib.util
sp = importlib.util.spec_from_file_location('spec','/verif/design-probes/verus-alloc/spec3.py'); spec=importlib.util.module_from_spec(sp); sp.loader.exec_module(spec)
s=open('/verif/design-probes/verus-alloc/unit0.rs').read()
ALIAS = {'RegTape::new': r'fn new<const N: usize>\(ssa', 'SsaTape::len': r'fn len\(&self\) -> usize'}
def find_fn(s, name):
    pat = ALIAS.get(name, r'fn %s\b' % re.escape(name))
    m = re.search(r'\n(\s*)' + pat, s)
    assert m, name
    i = m.start()+1
    j = s.index('{', m.end())
    return i, j
for a_,b_ in getattr(spec,'REPLACE',[]):
    assert s.count(a_)==1, a_
    s=s.replace(a_,b_)
def fn_span(s, name):
    base = s.index('struct RegisterAllocator')
    pat = ALIAS.get(name, r'fn %s\b' % re.escape(name))
    m = re.search(r'\n(\s*)' + pat, s[base:])
    i = base + m.start()+1
    j = s.index('{', i)
    depth=0; k=j
    while True:
        if s[k]=='{': depth+=1
        elif s[k]=='}':
            depth-=1
            if depth==0: break
        k+=1
    return i,k+1
for key, proof in getattr(spec,'PROOFS',{}).items():
    if '|' in key:
        fn, anchor = key.split('|',1)
        occ = 0
        if '#' in anchor and anchor.rsplit('#',1)[1].isdigit():
            anchor, occ = anchor.rsplit('#',1); occ=int(occ)
        i,k = fn_span(s, fn)
        seg = s[i:k]
        if anchor == '$START':
            j0 = seg.index('{')
            seg = seg[:j0+1] + '\n' + proof + seg[j0+1:]
            s = s[:i]+seg+s[k:]
            continue
        if anchor == '$TAILCALL':
            # R-tail for a tail call: `alloc.finalize()` -> `proof{..} alloc.finalize()`
            m2 = re.search(r'\n        ([a-z_\.]+\(\))\n    \}$', seg)
            assert m2, seg[-80:]
            seg = seg[:m2.start()] + '\n' + proof + '\n        ' + m2.group(1) + '\n    }'
            s = s[:i]+seg+s[k:]
            continue
        if anchor == '$END':
            seg = seg[:-1] + proof + '\n    }'
            s = s[:i]+seg+s[k:]
            continue
        if anchor == '$TAILMATCH':
            # R-tail: `match e {..}` in tail position -> `let ret_ = match e {..}; proof; ret_`
            m = re.search(r'\n        match ', seg)
            assert m and seg.count('\n        match ')==1
            seg = seg[:m.start()] + '\n        let ret_ = match ' + seg[m.end():]
            assert seg.endswith('\n        }\n    }')
            seg = seg[:-len('\n        }\n    }')] + '\n        };\n' + proof + '\n        ret_\n    }'
            s = s[:i]+seg+s[k:]
            continue
        pos=-1
        for _ in range(occ+1):
            pos = seg.index(anchor, pos+1)
        pos += len(anchor)
        seg = seg[:pos] + '\n' + proof + seg[pos:]
        s = s[:i]+seg+s[k:]
    else:
        anchor = key
        assert s.count(anchor)==1, (anchor, s.count(anchor))
        s = s.replace(anchor, anchor + '\n' + proof)
for anchor, proof in getattr(spec,'PROOFS_BEFORE',{}).items():
    assert s.count(anchor)==1, (anchor, s.count(anchor))
    s = s.replace(anchor, proof.strip() + '\n                ' + anchor)
for key, inv in getattr(spec,'LOOPS',{}).items():
    fn, anchor = key.split('|',1)
    i,k = fn_span(s, fn)
    seg = s[i:k]
    pos = seg.index(anchor) + len(anchor)
    seg = seg[:pos] + inv + '        ' + seg[pos:]
    s = s[:i]+seg+s[k:]
for name,(ret,text) in spec.SPECS.items():
    base = s.index('struct RegisterAllocator')
    i,j = find_fn(s[base:], name); i+=base; j+=base
    sig = s[i:j]
    if ret:
        sig = re.sub(r'->\s*([^{]+?)\s*$', lambda m: '-> (%s)' % ret, sig.rstrip())
    s = s[:i] + sig + text + '    ' + s[j:]
s = s.replace('\n} // verus!', spec.PRELUDE + '\n} // verus!')
open('/verif/design-probes/verus-alloc/unit3.rs','w').write(s)
PY
