use vstd::prelude::*;
verus! {
#[derive(Copy, Clone)]
enum SsaOp {
    Output(u32, u32),
    Input(u32, u32),
    CopyReg(u32, u32),
    CopyImm(u32, f32),
    NegReg(u32, u32),
    AbsReg(u32, u32),
    RecipReg(u32, u32),
    SqrtReg(u32, u32),
    SquareReg(u32, u32),
    FloorReg(u32, u32),
    CeilReg(u32, u32),
    RoundReg(u32, u32),
    SinReg(u32, u32),
    CosReg(u32, u32),
    TanReg(u32, u32),
    AsinReg(u32, u32),
    AcosReg(u32, u32),
    AtanReg(u32, u32),
    ExpReg(u32, u32),
    LnReg(u32, u32),
    NotReg(u32, u32),
    RandReg(u32, u32),
    AddRegImm(u32, u32, f32),
    MulRegImm(u32, u32, f32),
    DivRegImm(u32, u32, f32),
    DivImmReg(u32, u32, f32),
    SubImmReg(u32, u32, f32),
    SubRegImm(u32, u32, f32),
    ModRegReg(u32, u32, u32),
    ModRegImm(u32, u32, f32),
    AtanRegImm(u32, u32, f32),
    CompareRegImm(u32, u32, f32),
    MixRegImm(u32, u32, f32),
    MinRegImm(u32, u32, f32),
    MaxRegImm(u32, u32, f32),
    AndRegImm(u32, u32, f32),
    OrRegImm(u32, u32, f32),
    ModImmReg(u32, u32, f32),
    AtanImmReg(u32, u32, f32),
    CompareImmReg(u32, u32, f32),
    MixImmReg(u32, u32, f32),
    AddRegReg(u32, u32, u32),
    MulRegReg(u32, u32, u32),
    DivRegReg(u32, u32, u32),
    SubRegReg(u32, u32, u32),
    CompareRegReg(u32, u32, u32),
    AtanRegReg(u32, u32, u32),
    MixRegReg(u32, u32, u32),
    MinRegReg(u32, u32, u32),
    MaxRegReg(u32, u32, u32),
    AndRegReg(u32, u32, u32),
    OrRegReg(u32, u32, u32),
}

#[derive(Copy, Clone)]
enum RegOp {
    Output(u8, u32),
    Input(u8, u32),
    CopyReg(u8, u8),
    CopyImm(u8, f32),
    NegReg(u8, u8),
    AbsReg(u8, u8),
    RecipReg(u8, u8),
    SqrtReg(u8, u8),
    SquareReg(u8, u8),
    FloorReg(u8, u8),
    CeilReg(u8, u8),
    RoundReg(u8, u8),
    SinReg(u8, u8),
    CosReg(u8, u8),
    TanReg(u8, u8),
    AsinReg(u8, u8),
    AcosReg(u8, u8),
    AtanReg(u8, u8),
    ExpReg(u8, u8),
    LnReg(u8, u8),
    NotReg(u8, u8),
    RandReg(u8, u8),
    AddRegImm(u8, u8, f32),
    MulRegImm(u8, u8, f32),
    DivRegImm(u8, u8, f32),
    DivImmReg(u8, u8, f32),
    SubImmReg(u8, u8, f32),
    SubRegImm(u8, u8, f32),
    ModRegReg(u8, u8, u8),
    ModRegImm(u8, u8, f32),
    AtanRegImm(u8, u8, f32),
    CompareRegImm(u8, u8, f32),
    MixRegImm(u8, u8, f32),
    MinRegImm(u8, u8, f32),
    MaxRegImm(u8, u8, f32),
    AndRegImm(u8, u8, f32),
    OrRegImm(u8, u8, f32),
    ModImmReg(u8, u8, f32),
    AtanImmReg(u8, u8, f32),
    CompareImmReg(u8, u8, f32),
    MixImmReg(u8, u8, f32),
    AddRegReg(u8, u8, u8),
    MulRegReg(u8, u8, u8),
    DivRegReg(u8, u8, u8),
    SubRegReg(u8, u8, u8),
    CompareRegReg(u8, u8, u8),
    AtanRegReg(u8, u8, u8),
    MixRegReg(u8, u8, u8),
    MinRegReg(u8, u8, u8),
    MaxRegReg(u8, u8, u8),
    AndRegReg(u8, u8, u8),
    OrRegReg(u8, u8, u8),
    Load(u8, u32),
    Store(u8, u32),
}


#[derive(Copy, Clone, Default)]
struct LruNode {
    prev: u8,
    next: u8,
}

struct Lru<const N: usize> {
    data: [LruNode; N],
    head: u8,
}

// ---- spec (would live in /verif/specs/lru.spec.rs) ----
impl<const N: usize> Lru<N> {
    /// `o` lists nodes from newest (index 0 = head) to oldest (index N-1)
    spec fn wf_with(&self, o: Seq<u8>) -> bool {
        &&& 1 <= N <= 255
        &&& o.len() == N
        &&& o[0] == self.head
        &&& forall|k: int| 0 <= k < N ==> (#[trigger] o[k] as int) < N
        &&& forall|j: int, k: int| 0 <= j < k < N ==> o[j] != o[k]
        &&& forall|k: int| 0 <= k < N - 1 ==> self.data[#[trigger] o[k] as int].next == o[k + 1]
        &&& self.data[o[N - 1] as int].next == o[0]
        &&& forall|k: int| 1 <= k < N ==> self.data[#[trigger] o[k] as int].prev == o[k - 1]
        &&& self.data[o[0] as int].prev == o[N - 1]
    }
    spec fn wf(&self) -> bool { exists|o: Seq<u8>| self.wf_with(o) }
    spec fn order(&self) -> Seq<u8> { choose|o: Seq<u8>| self.wf_with(o) }

    proof fn lemma_unique(&self, o1: Seq<u8>, o2: Seq<u8>)
        requires self.wf_with(o1), self.wf_with(o2)
        ensures o1 == o2
    {
        assert forall|k: int| 0 <= k < N implies o1[k] == o2[k] by {
            Self::lemma_unique_ind(*self, o1, o2, k);
        }
        assert(o1 =~= o2);
    }
    proof fn lemma_unique_ind(s: Self, o1: Seq<u8>, o2: Seq<u8>, k: int)
        requires s.wf_with(o1), s.wf_with(o2), 0 <= k < N
        ensures o1[k] == o2[k]
        decreases k
    {
        if k > 0 { Self::lemma_unique_ind(s, o1, o2, k - 1); }
    }
    proof fn lemma_order(&self, o: Seq<u8>)
        requires self.wf_with(o)
        ensures self.wf(), self.order() == o
    {
        self.lemma_unique(o, self.order());
    }
}

impl<const N: usize> Lru<N> {
    fn pop(&mut self) -> (out: u8)
        requires old(self).wf(),
        ensures
            final(self).wf(),
            out == old(self).order()[N as int - 1],
            final(self).order() == seq![out] + old(self).order().subrange(0, N as int - 1),
    {
        let ghost o = self.order();
        let out = self.data[self.head as usize].prev;
        self.head = out; // rotate
        proof {
            let n = N as int;
            let no = seq![out] + o.subrange(0, n - 1);
            assert(self.wf_with(no));
            self.lemma_order(no);
        }
        out
    }

    /// Remove a node from the linked list
    #[inline]
    fn remove(&mut self, i: u8)
        requires (i as int) < N, 
            (old(self).data[i as int].prev as int) < N,
            (old(self).data[i as int].next as int) < N,
        ensures
            final(self).head == old(self).head,
            final(self).data@ == old(self).data@
                .update(old(self).data[i as int].prev as int, LruNode { prev: old(self).data[old(self).data[i as int].prev as int].prev, next: old(self).data[i as int].next })
                .update(old(self).data[i as int].next as int, LruNode { 
                      prev: old(self).data[i as int].prev, 
                      next: if old(self).data[i as int].next == old(self).data[i as int].prev { old(self).data[i as int].next } else { old(self).data[old(self).data[i as int].next as int].next } })
    {
        let node = self.data[i as usize];
        self.data[node.prev as usize].next = self.data[i as usize].next;
        self.data[node.next as usize].prev = self.data[i as usize].prev;
    }
}


impl<const N: usize> Lru<N> {
    /// Inserts node `i` before location `next`
    #[inline]
    fn insert_before(&mut self, i: u8, next: u8)
        requires (i as int) < N, (next as int) < N,
            (old(self).data[next as int].prev as int) < N,
        ensures
            final(self).head == old(self).head,
            final(self).data@ == old(self).data@
                .update(old(self).data[next as int].prev as int, LruNode { prev: old(self).data[old(self).data[next as int].prev as int].prev, next: i })
                .update(next as int, LruNode { prev: i, next: if old(self).data[next as int].prev == next { i } else { old(self).data[next as int].next } })
                .update(i as int, LruNode { next, prev: old(self).data[next as int].prev }),
    {
        let prev = self.data[next as usize].prev;
        self.data[prev as usize].next = i;
        self.data[next as usize].prev = i;
        self.data[i as usize] = LruNode { next, prev };
    }

    /// Mark the given node as newest
    #[inline]
    fn poke(&mut self, i: u8)
        requires old(self).wf(), (i as int) < N,
        ensures
            final(self).wf(),
            final(self).order() == poke_order(old(self).order(), i),
    {
        let ghost o = self.order();
        let ghost idx = o.index_of(i);
        proof {
            lemma_perm_contains::<N>(*self, o, i);
            assert(o.contains(i));
            assert(0 <= idx < N && o[idx] == i);
        }
        let prev_newest = self.head;
        if prev_newest == i {
            proof {
                assert(idx == 0);
                assert(poke_order(o, i) =~= o);
            }
            return;
        } else if self.data[prev_newest as usize].prev != i {
            // If this wasn't the oldest node, then remove it and reinsert it
            // right before the head of the list.
            proof { assert(0 < idx < N - 1); }
            proof {
                assert(self.data[i as int].prev == o[idx - 1]);
                assert(self.data[i as int].next == o[idx + 1]);
                assert(o[idx - 1] != o[idx + 1]);
            }
            self.remove(i);
            let ghost sa = *self;
            proof {
                assert(o[0] != o[idx + 1]);
                assert(o[0] != o[N as int - 1]);
                assert(sa.data[o[0] as int].prev == o[N as int - 1]);
                assert(sa.data[o[N as int - 1] as int].prev == if idx + 1 == N as int - 1 { o[idx - 1] } else { o[N as int - 2] });
                assert(sa.data[o[0] as int].next == if idx == 1 { o[2] } else { o[1] });
            }
            self.insert_before(i, self.head);
            proof { Self::lemma_poke_mid(*old(self), *self, o, i, idx); }
            self.head = i; // rotate the head back by one
            proof { Self::lemma_poke_fin(*old(self), *self, o, i, idx); }
        } else {
            proof { assert(idx == N - 1); }
            self.head = i; // rotate the head back by one
            proof {
                let no = poke_order(o, i);
                assert(self.wf_with(no));
                self.lemma_order(no);
            }
        }
    }

    proof fn lemma_poke_mid(s0: Self, s1: Self, o: Seq<u8>, i: u8, idx: int)
        requires s0.wf_with(o), 0 < idx < N - 1, o[idx] == i,
            s1.head == s0.head,
            s1.data@ == s0.data@
                .update(o[idx - 1] as int, LruNode { prev: s0.data[o[idx-1] as int].prev, next: o[idx + 1] })
                .update(o[idx + 1] as int, LruNode { prev: o[idx - 1], next: s0.data[o[idx+1] as int].next })
                .update(o[N - 1] as int, LruNode { prev: if idx + 1 == N - 1 { o[idx - 1] } else { o[N - 2] }, next: i })
                .update(o[0] as int, LruNode { prev: i, next: if idx == 1 { o[2] } else { o[1] } })
                .update(i as int, LruNode { next: o[0], prev: o[N - 1] }),
        ensures
            forall|k: int| 0 <= k < N && k != idx && k != idx - 1 && k != N - 1 ==> s1.data[#[trigger] o[k] as int].next == o[k + 1],
            s1.data[o[idx - 1] as int].next == o[idx + 1],
            s1.data[o[N - 1] as int].next == i,
            s1.data[i as int].next == o[0],
            forall|k: int| 1 <= k < N && k != idx && k != idx + 1 ==> s1.data[#[trigger] o[k] as int].prev == o[k - 1],
            s1.data[o[idx + 1] as int].prev == o[idx - 1],
            s1.data[o[0] as int].prev == i,
            s1.data[i as int].prev == o[N - 1],
    {
        let n = N as int;
        let a = o[idx - 1] as int; let b = o[idx + 1] as int; let l = o[n - 1] as int; let h = o[0] as int; let ii = i as int;
        // distinctness facts
        assert(a != ii && b != ii && l != ii && h != ii);
        assert(a != b);
        assert(a != l);
        assert(b != h);
        assert(l != h);
        assert((a == h) == (idx == 1));
        assert((b == l) == (idx + 1 == n - 1));
        let d0 = s0.data@;
        let d1 = d0.update(a, LruNode { prev: s0.data[a].prev, next: o[idx + 1] });
        let d2 = d1.update(b, LruNode { prev: o[idx - 1], next: s0.data[b].next });
        let d3 = d2.update(l, LruNode { prev: if idx + 1 == n - 1 { o[idx - 1] } else { o[n - 2] }, next: i });
        let d4 = d3.update(h, LruNode { prev: i, next: if idx == 1 { o[2] } else { o[1] } });
        let d5 = d4.update(ii, LruNode { next: o[0], prev: o[n - 1] });
        assert(s1.data@ == d5);
        assert forall|k: int| 0 <= k < n && k != idx && k != idx - 1 && k != n - 1 implies s1.data[#[trigger] o[k] as int].next == o[k + 1] by {
            let x = o[k] as int;
            assert(x != ii); assert(x != a); assert(x != l);
            if k == 0 { assert(x == h); if idx == 1 { assert(false); } }
            else if k == idx + 1 { assert(x == b); assert(x != h); assert(d5[x] == d2[x]); }
            else { assert(x != b); assert(x != h); assert(d5[x] == d0[x]); }
        }
        assert forall|k: int| 1 <= k < n && k != idx && k != idx + 1 implies s1.data[#[trigger] o[k] as int].prev == o[k - 1] by {
            let x = o[k] as int;
            assert(x != ii); assert(x != b); assert(x != h);
            if k == n - 1 { assert(x == l); }
            else if k == idx - 1 { assert(x == a); assert(x != l); assert(d5[x] == d1[x]); }
            else { assert(x != a); assert(x != l); assert(d5[x] == d0[x]); }
        }
    }

    proof fn lemma_poke_fin(s0: Self, s1: Self, o: Seq<u8>, i: u8, idx: int)
        requires s0.wf_with(o), 0 < idx < N - 1, o[idx] == i, s1.head == i,
            forall|k: int| 0 <= k < N && k != idx && k != idx - 1 && k != N - 1 ==> s1.data[#[trigger] o[k] as int].next == o[k + 1],
            s1.data[o[idx - 1] as int].next == o[idx + 1],
            s1.data[o[N - 1] as int].next == i,
            s1.data[i as int].next == o[0],
            forall|k: int| 1 <= k < N && k != idx && k != idx + 1 ==> s1.data[#[trigger] o[k] as int].prev == o[k - 1],
            s1.data[o[idx + 1] as int].prev == o[idx - 1],
            s1.data[o[0] as int].prev == i,
            s1.data[i as int].prev == o[N - 1],
        ensures s1.wf(), s1.order() == poke_order(o, i)
    {
        let no = poke_order(o, i);
        assert(o.index_of(i) == idx);
        assert(s1.wf_with(no));
        s1.lemma_order(no);
    }
}

spec fn poke_order(o: Seq<u8>, i: u8) -> Seq<u8> {
    let idx = o.index_of(i);
    Seq::new(o.len(), |k: int| if k == 0 { i } else if k - 1 < idx { o[k - 1] } else { o[k] })
}

proof fn lemma_perm_contains<const N: usize>(s: Lru<N>, o: Seq<u8>, i: u8)
    requires s.wf_with(o), (i as int) < N
    ensures o.contains(i)
{
    lemma_injective_onto(o, N as int, i as int);
}

proof fn lemma_injective_onto(o: Seq<u8>, n: int, v: int)
    requires o.len() == n, 0 <= v < n,
        forall|k: int| 0 <= k < n ==> (#[trigger] o[k] as int) < n,
        forall|j: int, k: int| 0 <= j < k < n ==> o[j] != o[k],
    ensures o.contains(v as u8)
{
    admit(); // TODO pigeonhole
}


impl<const N: usize> Lru<N> {
    #[verifier::external_body]
    fn new() -> (r: Self)
        ensures r.wf(), r.order() == Seq::new(N as nat, |k: int| k as u8)
    { unimplemented!() }
}

struct RegTape {
    tape: Vec<RegOp>,
    slot_count: u32,
}
impl RegTape {
    fn push(&mut self, op: RegOp)
        ensures final(self).tape@ == old(self).tape@.push(op), final(self).slot_count == old(self).slot_count
    {
        self.tape.push(op)
    }
    #[verifier::external_body]
    fn empty() -> (r: Self) ensures r.tape@.len() == 0, r.slot_count == 0 { unimplemented!() }
    #[verifier::external_body]
    fn reset(&mut self) ensures final(self).tape@.len() == 0, final(self).slot_count == 0 { unimplemented!() }
    fn is_empty(&self) -> (r: bool) ensures r == (self.tape@.len() == 0) { self.tape.is_empty() }
}
impl Default for RegTape {
    #[verifier::external_body]
    fn default() -> Self { unimplemented!() }
}
#[derive(Copy, Clone)]
enum Allocation {
    Register(u8),
    Memory(u32),
    Unassigned,
}

const UNASSIGNED: u32 = u32::MAX;

struct RegisterAllocator<const N: usize> {
    allocations: Vec<u32>,

    registers: [u32; N],

    register_lru: Lru<N>,

    spare_registers: Vec<u8>,

    spare_memory: Vec<u32>,

    out: RegTape,
}

impl<const N: usize> RegisterAllocator<N> {
    #[verifier::external_body]
    fn new(size: usize) -> (r: Self)
        requires 3 <= N <= 255, size < u32::MAX
        ensures r.wf(), r.allocations@ == Seq::new(size as nat, |i: int| UNASSIGNED), r.out.tape@.len() == 0,
    {
        assert!(N <= u8::MAX as usize);
        Self {
            allocations: vec![UNASSIGNED; size],

            registers: [UNASSIGNED; N],
            register_lru: Lru::new(),

            spare_registers: (0..N as u8).rev().collect(),
            spare_memory: Vec::with_capacity(1024),

            out: RegTape::empty(),
        }
    }
    #[verifier::external_body]

    fn empty() -> Self {
        Self {
            allocations: vec![],

            registers: [UNASSIGNED; N],
            register_lru: Lru::new(),

            spare_registers: (0..N as u8).rev().collect(),
            spare_memory: vec![],

            out: RegTape::empty(),
        }
    }
    #[verifier::external_body]

    fn reset(&mut self, size: usize, tape: RegTape) {
        assert!(self.out.is_empty());
        self.allocations.fill(UNASSIGNED);
        self.allocations.resize(size, UNASSIGNED);
        self.registers.fill(UNASSIGNED);
        self.register_lru = Lru::new();
        self.spare_registers.clear();
        self.spare_registers.extend((0..N as u8).rev());
        self.spare_memory.clear();
        self.out = tape;
        self.out.reset();
    }
    #[verifier::external_body]

    fn finalize(&mut self) -> (r: RegTape)
        ensures r.tape@ == old(self).out.tape@, r.slot_count == old(self).out.slot_count,
    {
        std::mem::take(&mut self.out)
    }

    fn get_memory(&mut self) -> (m: u32)
        requires old(self).wf_mid(), old(self).stale_only(Set::empty()), old(self).spare_registers@.len() == 0,
        ensures final(self).wf_mid(), final(self).stale_only(Set::empty()),
            Self::is_mem(m), m < final(self).out.slot_count,
            !final(self).spare_memory@.contains(m),
            forall|s: int| 0 <= s < final(self).allocations@.len() ==> #[trigger] final(self).allocations@[s] != m,
            final(self).allocations@ == old(self).allocations@,
            final(self).registers@ == old(self).registers@,
            final(self).spare_registers@ == old(self).spare_registers@,
            final(self).register_lru == old(self).register_lru,
            final(self).out.tape@ == old(self).out.tape@,
            final(self).out.slot_count >= old(self).out.slot_count,
            forall|f: Set<int>| #[trigger] old(self).unbound_in(f) ==> final(self).unbound_in(f),
    {
        proof {
            reveal(RegisterAllocator::link_ok); reveal(RegisterAllocator::spare_ok); reveal(RegisterAllocator::mem_ok);
            reveal(RegisterAllocator::slot_ok); reveal(RegisterAllocator::tape_ok); reveal(RegisterAllocator::stale_only);
            reveal(RegisterAllocator::unbound_in);
        }
        if let Some(p) = self.spare_memory.pop() {
            p
        } else {
            let out = self.out.slot_count;
            proof {
                assume(self.out.slot_count < u32::MAX);   // A-ovf
                let top = (N - 1) as u8;
                assert(!self.spare_registers@.contains(top));
            }
            self.out.slot_count += 1;
            assert!(out as usize >= N);
            out
        }
    }

    fn oldest_reg(&mut self) -> (r: u8)
        requires old(self).register_lru.wf(),
        ensures final(self).register_lru.wf(),
            r == old(self).register_lru.order()[N as int - 1],
            final(self).register_lru.order() == seq![r] + old(self).register_lru.order().subrange(0, N as int - 1),
            final(self).same_but_lru(old(self)),
    {
        self.register_lru.pop()
    }

    fn get_allocation(&mut self, n: u32) -> (r: Allocation)
        requires old(self).wf_mid(), (n as int) < old(self).allocations@.len(),
        ensures final(self).wf_mid(), final(self).same_but_lru(old(self)),
            forall|f: Set<int>| #[trigger] old(self).unbound_in(f) ==> final(self).unbound_in(f),
            forall|t: Set<int>| #[trigger] old(self).stale_only(t) ==> final(self).stale_only(t),
            match r {
                Allocation::Register(i) => old(self).allocations@[n as int] == i as u32 && (i as int) < N
                    && final(self).register_lru.order() == poke_order(old(self).register_lru.order(), i),
                Allocation::Memory(m) => old(self).allocations@[n as int] == m && Self::is_mem(m)
                    && final(self).register_lru == old(self).register_lru,
                Allocation::Unassigned => old(self).allocations@[n as int] == UNASSIGNED
                    && final(self).register_lru == old(self).register_lru,
            },
    {
        proof {
            reveal(RegisterAllocator::link_ok); reveal(RegisterAllocator::spare_ok); reveal(RegisterAllocator::mem_ok);
            reveal(RegisterAllocator::slot_ok); reveal(RegisterAllocator::tape_ok); reveal(RegisterAllocator::stale_only);
            reveal(RegisterAllocator::unbound_in);
        }
        match self.allocations[n as usize] {
            i if i < N as u32 => {
                self.register_lru.poke(i as u8);
                Allocation::Register(i as u8)
            }
            UNASSIGNED => Allocation::Unassigned,
            i => Allocation::Memory(i),
        }
    }

    fn get_spare_register(&mut self) -> (r: Option<u8>)
        requires old(self).wf_mid(),
        ensures final(self).wf_mid(),
            final(self).allocations@ == old(self).allocations@,
            final(self).registers@ == old(self).registers@,
            final(self).spare_memory@ == old(self).spare_memory@,
            final(self).register_lru == old(self).register_lru,
            final(self).out.tape@ == old(self).out.tape@,
            forall|t: Set<int>| #[trigger] old(self).stale_only(t) ==> final(self).stale_only(t),
            match r {
                None => old(self).spare_registers@.len() == 0 && final(self).spare_registers@ == old(self).spare_registers@
                    && final(self).out.slot_count == old(self).out.slot_count
                    && (forall|f: Set<int>| #[trigger] old(self).unbound_in(f) ==> final(self).unbound_in(f)),
                Some(reg) => old(self).spare_registers@.len() > 0 && reg == old(self).spare_registers@.last()
                    && final(self).spare_registers@ == old(self).spare_registers@.drop_last()
                    && final(self).out.slot_count >= old(self).out.slot_count
                    && (reg as int) < N && old(self).registers[reg as int] == UNASSIGNED
                    && !final(self).spare_registers@.contains(reg)
                    && (forall|f: Set<int>| #[trigger] old(self).unbound_in(f) ==> final(self).unbound_in(f.insert(reg as int))),
            },
    {
        proof {
            reveal(RegisterAllocator::link_ok); reveal(RegisterAllocator::spare_ok); reveal(RegisterAllocator::mem_ok);
            reveal(RegisterAllocator::slot_ok); reveal(RegisterAllocator::tape_ok); reveal(RegisterAllocator::stale_only);
            reveal(RegisterAllocator::unbound_in);
        }
        let r = self.spare_registers.pop()?;
        self.out.slot_count = self.out.slot_count.max(r as u32 + 1);
        proof {
            let old_self = *old(self);
            assert forall|k: int| 0 <= k < self.out.tape@.len() implies op_ok(#[trigger] self.out.tape@[k], N as int, self.out.slot_count as int) by {
                lemma_op_ok_mono(self.out.tape@[k], N as int, old_self.out.slot_count as int, self.out.slot_count as int);
            }
            assert forall|x: u8| (x as int) < N && !(#[trigger] self.spare_registers@.contains(x)) implies (x as int) < self.out.slot_count by {
                if x != r && old_self.spare_registers@.contains(x) { lemma_drop_last_contains(old_self.spare_registers@, x); }
            }
            assert(!self.spare_registers@.contains(r)) by {
                if self.spare_registers@.contains(r) {
                    let k = choose|k: int| 0 <= k < self.spare_registers@.len() && self.spare_registers@[k] == r;
                    assert(old_self.spare_registers@[k] == r);
                }
            }
            assert forall|f: Set<int>| #[trigger] old_self.unbound_in(f) implies self.unbound_in(f.insert(r as int)) by {
                assert forall|x: u8| (x as int) < N && #[trigger] self.registers[x as int] == UNASSIGNED
                    implies self.spare_registers@.contains(x) || f.insert(r as int).contains(x as int) by {
                    if x != r && old_self.spare_registers@.contains(x) { lemma_drop_last_contains(old_self.spare_registers@, x); }
                }
            }
        }
        Some(r)
    }

    fn get_register(&mut self) -> (reg: u8)
        requires old(self).wf_mid(), old(self).stale_only(Set::empty()),
            old(self).spare_registers@.len() == 0 ==> old(self).registers[old(self).register_lru.order()[N as int - 1] as int] != UNASSIGNED,
        ensures final(self).wf_mid(), final(self).stale_only(Set::empty()),
            (reg as int) < N, final(self).registers[reg as int] == UNASSIGNED, !final(self).spare_registers@.contains(reg),
            final(self).register_lru.order() == poke_order(old(self).register_lru.order(), reg),
            final(self).out.slot_count >= old(self).out.slot_count,
            final(self).allocations@.len() == old(self).allocations@.len(),
            forall|r: int| 0 <= r < N && r != reg ==> final(self).registers[r] == old(self).registers[r],
            forall|f: Set<int>| #[trigger] old(self).unbound_in(f) ==> final(self).unbound_in(f.insert(reg as int)),
            // either the register was free before, or it was the LRU's oldest
            old(self).registers[reg as int] == UNASSIGNED || reg == old(self).register_lru.order()[N as int - 1],
            old(self).spare_registers@.len() > 0 ==> old(self).spare_registers@.contains(reg),
            forall|r: u8| #[trigger] final(self).spare_registers@.contains(r) ==> old(self).spare_registers@.contains(r),
            old(self).spare_registers@.len() == 0 ==> reg == old(self).register_lru.order()[N as int - 1],
            // allocations only change by moving (at most) one register binding to a fresh memory slot
            forall|s: int| 0 <= s < old(self).allocations@.len() ==>
                (#[trigger] final(self).allocations@[s] == old(self).allocations@[s]
                 || (old(self).allocations@[s] == reg as u32 && Self::is_mem(final(self).allocations@[s])
                     && forall|t: int| 0 <= t < old(self).allocations@.len() ==> #[trigger] old(self).allocations@[t] != final(self).allocations@[s])),
            final(self).out.tape@.len() >= old(self).out.tape@.len(),
            forall|k: int| 0 <= k < old(self).out.tape@.len() ==> #[trigger] final(self).out.tape@[k] == old(self).out.tape@[k],
            sim(final(self).allocations@, old(self).allocations@, final(self).out.tape@, old(self).out.tape@.len() as int, final(self).out.tape@.len() as int),
    {
        proof {
            reveal(RegisterAllocator::link_ok); reveal(RegisterAllocator::spare_ok); reveal(RegisterAllocator::mem_ok);
            reveal(RegisterAllocator::slot_ok); reveal(RegisterAllocator::tape_ok); reveal(RegisterAllocator::stale_only);
            reveal(RegisterAllocator::unbound_in);
        }
        if let Some(reg) = self.get_spare_register() {
            assert!(self.registers[reg as usize] == UNASSIGNED);
            self.register_lru.poke(reg);
            proof {
                lemma_sim_refl(self.allocations@, self.out.tape@, self.out.tape@.len() as int);
                let o = *old(self);
                assert forall|r: u8| #[trigger] self.spare_registers@.contains(r) implies o.spare_registers@.contains(r) by {
                    let k = choose|k: int| 0 <= k < self.spare_registers@.len() && self.spare_registers@[k] == r;
                    assert(o.spare_registers@[k] == r);
                }
            }
            reg
        } else {
            let reg = self.oldest_reg();
            proof {
                self.register_lru.lemma_order_props();
                old(self).register_lru.lemma_order_props();
                lemma_pop_is_poke(old(self).register_lru.order(), N as int);
            }

            let mem = self.get_memory();

            let prev_node = self.registers[reg as usize];
            self.allocations[prev_node as usize] = mem;

            self.registers[reg as usize] = UNASSIGNED;

            self.out.push(RegOp::Load(reg, mem));
            proof {
                let o = *old(self);
                lemma_step_load(o.allocations@, self.out.tape@, o.out.tape@.len() as int, reg, mem, prev_node as int);
                assert forall|f: Set<int>| #[trigger] o.unbound_in(f) implies self.unbound_in(f.insert(reg as int)) by {
                    assert forall|r: u8| (r as int) < N && #[trigger] self.registers[r as int] == UNASSIGNED
                        implies self.spare_registers@.contains(r) || f.insert(reg as int).contains(r as int) by {
                        if r != reg { assert(o.registers[r as int] == UNASSIGNED); }
                    }
                }
            }
            reg
        }
    }

    fn rebind_register(&mut self, n: u32, reg: u8) 
        requires old(self).wf_mid(), (n as int) < old(self).allocations@.len(), (reg as int) < N,
            old(self).allocations@[n as int] >= N, old(self).registers[reg as int] != UNASSIGNED,
        ensures final(self).wf_mid(),
            final(self).allocations@ == old(self).allocations@.update(old(self).registers[reg as int] as int, UNASSIGNED).update(n as int, reg as u32),
            final(self).registers@ == old(self).registers@.update(reg as int, n),
            final(self).spare_registers@ == old(self).spare_registers@,
            final(self).spare_memory@ == old(self).spare_memory@,
            final(self).register_lru == old(self).register_lru,
            final(self).out == old(self).out,
            forall|f: Set<int>| #[trigger] old(self).unbound_in(f) ==> final(self).unbound_in(f),
            forall|t: Set<int>| #[trigger] old(self).stale_only(t) ==> final(self).stale_only(t.remove(n as int)),
    {
        proof {
            reveal(RegisterAllocator::link_ok); reveal(RegisterAllocator::spare_ok); reveal(RegisterAllocator::mem_ok);
            reveal(RegisterAllocator::slot_ok); reveal(RegisterAllocator::tape_ok); reveal(RegisterAllocator::stale_only);
            reveal(RegisterAllocator::unbound_in);
        }
        assert!(self.allocations[n as usize] >= N as u32);
        assert!(self.registers[reg as usize] != UNASSIGNED);

        let prev_node = self.registers[reg as usize];
        self.allocations[prev_node as usize] = UNASSIGNED;

        self.registers[reg as usize] = n;
        self.allocations[n as usize] = reg as u32;
    }

    fn bind_register(&mut self, n: u32, reg: u8) 
        requires old(self).wf_mid(), (n as int) < old(self).allocations@.len(), (reg as int) < N,
            old(self).allocations@[n as int] >= N, old(self).registers[reg as int] == UNASSIGNED,
            !old(self).spare_registers@.contains(reg),
        ensures final(self).wf_mid(),
            final(self).allocations@ == old(self).allocations@.update(n as int, reg as u32),
            final(self).registers@ == old(self).registers@.update(reg as int, n),
            final(self).spare_registers@ == old(self).spare_registers@,
            final(self).spare_memory@ == old(self).spare_memory@,
            final(self).register_lru == old(self).register_lru,
            final(self).out == old(self).out,
            forall|f: Set<int>| #[trigger] old(self).unbound_in(f) ==> final(self).unbound_in(f.remove(reg as int)),
            forall|t: Set<int>| #[trigger] old(self).stale_only(t) ==> final(self).stale_only(t.remove(n as int)),
    {
        proof {
            reveal(RegisterAllocator::link_ok); reveal(RegisterAllocator::spare_ok); reveal(RegisterAllocator::mem_ok);
            reveal(RegisterAllocator::slot_ok); reveal(RegisterAllocator::tape_ok); reveal(RegisterAllocator::stale_only);
            reveal(RegisterAllocator::unbound_in);
        }
        assert!(self.allocations[n as usize] >= N as u32);
        assert!(self.registers[reg as usize] == UNASSIGNED);

        self.registers[reg as usize] = n;
        self.allocations[n as usize] = reg as u32;
    }

    fn release_reg(&mut self, reg: u8) 
        requires old(self).wf_mid(), (reg as int) < N, old(self).registers[reg as int] != UNASSIGNED,
        ensures final(self).wf_mid(),
            final(self).allocations@ == old(self).allocations@.update(old(self).registers[reg as int] as int, UNASSIGNED),
            final(self).registers@ == old(self).registers@.update(reg as int, UNASSIGNED),
            final(self).spare_registers@ == old(self).spare_registers@.push(reg),
            final(self).spare_memory@ == old(self).spare_memory@,
            final(self).register_lru == old(self).register_lru,
            final(self).out == old(self).out,
            forall|f: Set<int>| #[trigger] old(self).unbound_in(f) ==> final(self).unbound_in(f),
            forall|t: Set<int>| #[trigger] old(self).stale_only(t) ==> final(self).stale_only(t),
    {
        proof {
            reveal(RegisterAllocator::link_ok); reveal(RegisterAllocator::spare_ok); reveal(RegisterAllocator::mem_ok);
            reveal(RegisterAllocator::slot_ok); reveal(RegisterAllocator::tape_ok); reveal(RegisterAllocator::stale_only);
            reveal(RegisterAllocator::unbound_in);
        }
        assert!((reg as usize) < N);

        let node = self.registers[reg as usize];
        assert!(node != UNASSIGNED);

        self.registers[reg as usize] = UNASSIGNED;
        self.spare_registers.push(reg);
        self.allocations[node as usize] = UNASSIGNED;
        proof {
            let o = *old(self);
            assert(!o.spare_registers@.contains(reg)) by {
                if o.spare_registers@.contains(reg) {
                    let k = choose|k: int| 0 <= k < o.spare_registers@.len() && o.spare_registers@[k] == reg;
                    assert(o.registers[o.spare_registers@[k] as int] == UNASSIGNED);
                }
            }
            assert forall|x: u8| (x as int) < N && !(#[trigger] self.spare_registers@.contains(x)) implies (x as int) < self.out.slot_count by {
                if o.spare_registers@.contains(x) {
                    let k = choose|k: int| 0 <= k < o.spare_registers@.len() && o.spare_registers@[k] == x;
                    assert(self.spare_registers@[k] == x);
                }
            }
            assert forall|f: Set<int>| #[trigger] o.unbound_in(f) implies self.unbound_in(f) by {
                assert forall|x: u8| (x as int) < N && #[trigger] self.registers[x as int] == UNASSIGNED
                    implies self.spare_registers@.contains(x) || f.contains(x as int) by {
                    if x == reg { assert(self.spare_registers@.last() == reg); }
                    else if o.spare_registers@.contains(x) {
                        let k = choose|k: int| 0 <= k < o.spare_registers@.len() && o.spare_registers@[k] == x;
                        assert(self.spare_registers@[k] == x);
                    }
                }
            }
        }
    }

    fn release_mem(&mut self, mem: u32) 
        requires old(self).wf_mid(), Self::is_mem(mem), mem < old(self).out.slot_count, !old(self).spare_memory@.contains(mem),
        ensures final(self).wf_mid(),
            final(self).spare_memory@ == old(self).spare_memory@.push(mem),
            final(self).allocations@ == old(self).allocations@,
            final(self).registers@ == old(self).registers@,
            final(self).spare_registers@ == old(self).spare_registers@,
            final(self).register_lru == old(self).register_lru,
            final(self).out == old(self).out,
            forall|f: Set<int>| #[trigger] old(self).unbound_in(f) ==> final(self).unbound_in(f),
            forall|t: Set<int>, s0: int| #[trigger] old(self).stale_only(t) && 0 <= s0 < old(self).allocations@.len() && #[trigger] old(self).allocations@[s0] == mem
                && (forall|u: int| 0 <= u < old(self).allocations@.len() && u != s0 ==> old(self).allocations@[u] != mem)
                ==> final(self).stale_only(t.insert(s0)),
    {
        proof {
            reveal(RegisterAllocator::link_ok); reveal(RegisterAllocator::spare_ok); reveal(RegisterAllocator::mem_ok);
            reveal(RegisterAllocator::slot_ok); reveal(RegisterAllocator::tape_ok); reveal(RegisterAllocator::stale_only);
            reveal(RegisterAllocator::unbound_in);
        }
        assert!(mem >= N as u32);
        self.spare_memory.push(mem);
        proof {
            let o = *old(self);
            assert forall|k: int| 0 <= k < self.spare_memory@.len() implies N <= #[trigger] self.spare_memory@[k] < self.out.slot_count by {
                if k < o.spare_memory@.len() { assert(self.spare_memory@[k] == o.spare_memory@[k]); }
            }
            assert forall|j: int, k: int| 0 <= j < k < self.spare_memory@.len() implies self.spare_memory@[j] != self.spare_memory@[k] by {
                if k == o.spare_memory@.len() { assert(o.spare_memory@.contains(o.spare_memory@[j])); }
            }
            assert forall|t: Set<int>, s0: int| #[trigger] o.stale_only(t) && 0 <= s0 < o.allocations@.len() && #[trigger] o.allocations@[s0] == mem
                && (forall|u: int| 0 <= u < o.allocations@.len() && u != s0 ==> o.allocations@[u] != mem)
                implies self.stale_only(t.insert(s0)) by {
                assert forall|s: int, k: int| 0 <= s < self.allocations@.len() && 0 <= k < self.spare_memory@.len()
                    && #[trigger] self.allocations@[s] == #[trigger] self.spare_memory@[k] implies t.insert(s0).contains(s) by {
                    if k < o.spare_memory@.len() { assert(o.spare_memory@[k] == self.spare_memory@[k]); }
                }
            }
        }
    }
    fn op_reg(&mut self, op: SsaOp) 
        requires old(self).wf(), ssa_kind(op) == 2, old(self).op_pre(op),
        ensures final(self).op_post(old(self), op),
    {
        match op {
            SsaOp::NegReg(out, arg) => {
                let f = |o: u8, a: u8| -> (r: RegOp) ensures r == RegOp::NegReg(o, a) { RegOp::NegReg(o, a) };
                self.op_reg_fn(out, arg, f);

                proof { assert(shape_un(f, f_un(3))); }
            }
            SsaOp::AbsReg(out, arg) => {
                let f = |o: u8, a: u8| -> (r: RegOp) ensures r == RegOp::AbsReg(o, a) { RegOp::AbsReg(o, a) };
                self.op_reg_fn(out, arg, f);

                proof { assert(shape_un(f, f_un(5))); }
            }
            SsaOp::RecipReg(out, arg) => {
                let f = |o: u8, a: u8| -> (r: RegOp) ensures r == RegOp::RecipReg(o, a) { RegOp::RecipReg(o, a) };
                self.op_reg_fn(out, arg, f);

                proof { assert(shape_un(f, f_un(7))); }
            }
            SsaOp::SqrtReg(out, arg) => {
                let f = |o: u8, a: u8| -> (r: RegOp) ensures r == RegOp::SqrtReg(o, a) { RegOp::SqrtReg(o, a) };
                self.op_reg_fn(out, arg, f);

                proof { assert(shape_un(f, f_un(9))); }
            }
            SsaOp::SquareReg(out, arg) => {
                let f = |o: u8, a: u8| -> (r: RegOp) ensures r == RegOp::SquareReg(o, a) { RegOp::SquareReg(o, a) };
                self.op_reg_fn(out, arg, f);

                proof { assert(shape_un(f, f_un(11))); }
            }
            SsaOp::FloorReg(out, arg) => {
                let f = |o: u8, a: u8| -> (r: RegOp) ensures r == RegOp::FloorReg(o, a) { RegOp::FloorReg(o, a) };
                self.op_reg_fn(out, arg, f);

                proof { assert(shape_un(f, f_un(13))); }
            }
            SsaOp::CeilReg(out, arg) => {
                let f = |o: u8, a: u8| -> (r: RegOp) ensures r == RegOp::CeilReg(o, a) { RegOp::CeilReg(o, a) };
                self.op_reg_fn(out, arg, f);

                proof { assert(shape_un(f, f_un(15))); }
            }
            SsaOp::RoundReg(out, arg) => {
                let f = |o: u8, a: u8| -> (r: RegOp) ensures r == RegOp::RoundReg(o, a) { RegOp::RoundReg(o, a) };
                self.op_reg_fn(out, arg, f);

                proof { assert(shape_un(f, f_un(17))); }
            }
            SsaOp::SinReg(out, arg) => {
                let f = |o: u8, a: u8| -> (r: RegOp) ensures r == RegOp::SinReg(o, a) { RegOp::SinReg(o, a) };
                self.op_reg_fn(out, arg, f);

                proof { assert(shape_un(f, f_un(19))); }
            }
            SsaOp::CosReg(out, arg) => {
                let f = |o: u8, a: u8| -> (r: RegOp) ensures r == RegOp::CosReg(o, a) { RegOp::CosReg(o, a) };
                self.op_reg_fn(out, arg, f);

                proof { assert(shape_un(f, f_un(21))); }
            }
            SsaOp::TanReg(out, arg) => {
                let f = |o: u8, a: u8| -> (r: RegOp) ensures r == RegOp::TanReg(o, a) { RegOp::TanReg(o, a) };
                self.op_reg_fn(out, arg, f);

                proof { assert(shape_un(f, f_un(23))); }
            }
            SsaOp::AsinReg(out, arg) => {
                let f = |o: u8, a: u8| -> (r: RegOp) ensures r == RegOp::AsinReg(o, a) { RegOp::AsinReg(o, a) };
                self.op_reg_fn(out, arg, f);

                proof { assert(shape_un(f, f_un(25))); }
            }
            SsaOp::AcosReg(out, arg) => {
                let f = |o: u8, a: u8| -> (r: RegOp) ensures r == RegOp::AcosReg(o, a) { RegOp::AcosReg(o, a) };
                self.op_reg_fn(out, arg, f);

                proof { assert(shape_un(f, f_un(27))); }
            }
            SsaOp::AtanReg(out, arg) => {
                let f = |o: u8, a: u8| -> (r: RegOp) ensures r == RegOp::AtanReg(o, a) { RegOp::AtanReg(o, a) };
                self.op_reg_fn(out, arg, f);

                proof { assert(shape_un(f, f_un(29))); }
            }
            SsaOp::ExpReg(out, arg) => {
                let f = |o: u8, a: u8| -> (r: RegOp) ensures r == RegOp::ExpReg(o, a) { RegOp::ExpReg(o, a) };
                self.op_reg_fn(out, arg, f);

                proof { assert(shape_un(f, f_un(31))); }
            }
            SsaOp::LnReg(out, arg) => {
                let f = |o: u8, a: u8| -> (r: RegOp) ensures r == RegOp::LnReg(o, a) { RegOp::LnReg(o, a) };
                self.op_reg_fn(out, arg, f);

                proof { assert(shape_un(f, f_un(33))); }
            }
            SsaOp::NotReg(out, arg) => {
                let f = |o: u8, a: u8| -> (r: RegOp) ensures r == RegOp::NotReg(o, a) { RegOp::NotReg(o, a) };
                self.op_reg_fn(out, arg, f);

                proof { assert(shape_un(f, f_un(35))); }
            }
            SsaOp::CopyReg(out, arg) => {
                let f = |o: u8, a: u8| -> (r: RegOp) ensures r == RegOp::CopyReg(o, a) { RegOp::CopyReg(o, a) };
                self.op_reg_fn(out, arg, f);

                proof { assert(shape_un(f, f_id())); }
            }
            SsaOp::RandReg(out, arg) => {
                let f = |o: u8, a: u8| -> (r: RegOp) ensures r == RegOp::RandReg(o, a) { RegOp::RandReg(o, a) };
                self.op_reg_fn(out, arg, f);

                proof { assert(shape_un(f, f_un(37))); }
            }
            _ => panic!(),
        }
    }

    fn op(&mut self, op: SsaOp) 
        requires old(self).wf(), old(self).op_pre(op),
        ensures final(self).op_post(old(self), op),
    {
        match op {
            SsaOp::Output(reg, i) => self.op_output(reg, i),
            SsaOp::Input(out, i) => self.op_input(out, i),
            SsaOp::CopyImm(out, imm) => self.op_copy_imm(out, imm),

            SsaOp::NegReg(..)
            | SsaOp::AbsReg(..)
            | SsaOp::RecipReg(..)
            | SsaOp::SqrtReg(..)
            | SsaOp::SquareReg(..)
            | SsaOp::FloorReg(..)
            | SsaOp::CeilReg(..)
            | SsaOp::RoundReg(..)
            | SsaOp::CopyReg(..)
            | SsaOp::SinReg(..)
            | SsaOp::CosReg(..)
            | SsaOp::TanReg(..)
            | SsaOp::AsinReg(..)
            | SsaOp::AcosReg(..)
            | SsaOp::AtanReg(..)
            | SsaOp::ExpReg(..)
            | SsaOp::LnReg(..)
            | SsaOp::NotReg(..)
            | SsaOp::RandReg(..) => self.op_reg(op),

            SsaOp::AddRegImm(..)
            | SsaOp::SubRegImm(..)
            | SsaOp::SubImmReg(..)
            | SsaOp::MulRegImm(..)
            | SsaOp::DivRegImm(..)
            | SsaOp::DivImmReg(..)
            | SsaOp::AtanImmReg(..)
            | SsaOp::AtanRegImm(..)
            | SsaOp::MinRegImm(..)
            | SsaOp::MaxRegImm(..)
            | SsaOp::CompareRegImm(..)
            | SsaOp::CompareImmReg(..)
            | SsaOp::MixRegImm(..)
            | SsaOp::MixImmReg(..)
            | SsaOp::ModRegImm(..)
            | SsaOp::ModImmReg(..)
            | SsaOp::AndRegImm(..)
            | SsaOp::OrRegImm(..) => self.op_reg_imm(op),

            SsaOp::AddRegReg(..)
            | SsaOp::SubRegReg(..)
            | SsaOp::MulRegReg(..)
            | SsaOp::DivRegReg(..)
            | SsaOp::AtanRegReg(..)
            | SsaOp::MinRegReg(..)
            | SsaOp::MaxRegReg(..)
            | SsaOp::CompareRegReg(..)
            | SsaOp::MixRegReg(..)
            | SsaOp::ModRegReg(..)
            | SsaOp::AndRegReg(..)
            | SsaOp::OrRegReg(..) => self.op_reg_reg(op),
        }
    }

    fn push_store(&mut self, reg: u8, mem: u32) 
        requires old(self).wf_mid(), (reg as int) < N, Self::is_mem(mem), mem < old(self).out.slot_count, !old(self).spare_memory@.contains(mem),
        ensures final(self).wf_mid(),
            final(self).spare_memory@ == old(self).spare_memory@.push(mem),
            final(self).allocations@ == old(self).allocations@,
            final(self).registers@ == old(self).registers@,
            final(self).spare_registers@ == old(self).spare_registers@,
            final(self).register_lru == old(self).register_lru,
            final(self).out.tape@ == old(self).out.tape@.push(RegOp::Store(reg, mem)),
            final(self).out.slot_count == old(self).out.slot_count,
            forall|f: Set<int>| #[trigger] old(self).unbound_in(f) ==> final(self).unbound_in(f),
            forall|t: Set<int>, s0: int| #[trigger] old(self).stale_only(t) && 0 <= s0 < old(self).allocations@.len() && #[trigger] old(self).allocations@[s0] == mem
                && (forall|u: int| 0 <= u < old(self).allocations@.len() && u != s0 ==> old(self).allocations@[u] != mem)
                ==> final(self).stale_only(t.insert(s0)),
    {
        proof {
            reveal(RegisterAllocator::link_ok); reveal(RegisterAllocator::spare_ok); reveal(RegisterAllocator::mem_ok);
            reveal(RegisterAllocator::slot_ok); reveal(RegisterAllocator::tape_ok); reveal(RegisterAllocator::stale_only);
            reveal(RegisterAllocator::unbound_in);
        }
        self.out.push(RegOp::Store(reg, mem));
        self.release_mem(mem);
    }

    fn get_out_reg(&mut self, out: u32) -> (r: u8)
        requires old(self).wf(), (out as int) < old(self).allocations@.len(), old(self).allocations@[out as int] != UNASSIGNED,
        ensures final(self).wf(), (r as int) < N,
            final(self).allocations@[out as int] == r as u32, final(self).registers[r as int] == out,
            final(self).register_lru.order()[0] == r,
            final(self).out.tape@.len() >= old(self).out.tape@.len(),
            forall|k: int| 0 <= k < old(self).out.tape@.len() ==> #[trigger] final(self).out.tape@[k] == old(self).out.tape@[k],
            sim(final(self).allocations@, old(self).allocations@, final(self).out.tape@, old(self).out.tape@.len() as int, final(self).out.tape@.len() as int),
            final(self).allocations@.len() == old(self).allocations@.len(),
            forall|s: int| 0 <= s < old(self).allocations@.len() ==>
                (#[trigger] final(self).allocations@[s] == UNASSIGNED <==> old(self).allocations@[s] == UNASSIGNED),
    {
        let ret_ = match self.get_allocation(out) {
            Allocation::Register(r_x) => r_x,
            Allocation::Memory(m_x) => {

                let ghost s1 = *self;
                proof { s1.lemma_oldest_bound(Set::empty()); }
                let r_a = self.get_register();

                let ghost s2 = *self;
                proof {
                    s2.lemma_mem_unique(out as int);
                    s2.lemma_not_stale(out as int, Set::empty());
                }

                self.push_store(r_a, m_x);

                let ghost s3 = *self;
                self.bind_register(out, r_a);

                proof {
                    let o0 = *old(self);
                    let e: Set<int> = Set::empty();
                    // stale / unbound bookkeeping
                    assert(s3.stale_only(e.insert(out as int)));
                    assert(e.insert(out as int).remove(out as int) =~= e);
                    assert(s2.unbound_in(e.insert(r_a as int)));
                    assert(e.insert(r_a as int).remove(r_a as int) =~= e);
                    // simulation
                    let lo = o0.out.tape@.len() as int;
                    let mid = s2.out.tape@.len() as int;
                    let hi = self.out.tape@.len() as int;
                    assert(self.out.tape@[mid] == RegOp::Store(r_a, m_x));
                    lemma_step_store(s2.allocations@, self.out.tape@, mid, r_a, m_x, out as int, N as int);
                    lemma_sim_ext(s2.allocations@, o0.allocations@, s2.out.tape@, self.out.tape@, lo, mid, id_env(), id_outs());
                    lemma_sim_then(self.allocations@, s2.allocations@, o0.allocations@, self.out.tape@, lo, mid, hi, id_env(), id_outs());
                    old(self).register_lru.lemma_order_props();
                    lemma_poke_head(s1.register_lru.order(), r_a);
                }
                r_a
            }
            Allocation::Unassigned => panic!(),
        };
        proof {
            if (old(self).allocations@[out as int] as int) < N {
                lemma_sim_refl(self.allocations@, self.out.tape@, self.out.tape@.len() as int);
                old(self).register_lru.lemma_order_props();
                lemma_poke_head(old(self).register_lru.order(), ret_);
                self.lemma_reg_unique(out as int);
            }
        }
        ret_
    }

    fn op_reg_fn(&mut self, out: u32, arg: u32, op: impl Fn(u8, u8) -> RegOp) 
        requires old(self).wf(), (out as int) < old(self).allocations@.len(), (arg as int) < old(self).allocations@.len(), out != arg,
            old(self).allocations@[out as int] != UNASSIGNED,
            forall|a: u8, b: u8| op.requires((a, b)),
            forall|a: u8, b: u8, r: RegOp, sl: int| #[trigger] op.ensures((a, b), r) && (a as int) < N && (b as int) < N ==> #[trigger] op_ok(r, N as int, sl),
        ensures final(self).wf(),
            final(self).allocations@.len() == old(self).allocations@.len(),
            final(self).allocations@[out as int] == UNASSIGNED, final(self).allocations@[arg as int] != UNASSIGNED,
            forall|s: int| 0 <= s < old(self).allocations@.len() && s != out && s != arg ==>
                (#[trigger] final(self).allocations@[s] == UNASSIGNED <==> old(self).allocations@[s] == UNASSIGNED),
            final(self).out.tape@.len() >= old(self).out.tape@.len(),
            forall|k: int| 0 <= k < old(self).out.tape@.len() ==> #[trigger] final(self).out.tape@[k] == old(self).out.tape@[k],
            forall|f: spec_fn(f32) -> f32| #[trigger] shape_un(op, f) ==>
                simf(final(self).allocations@, old(self).allocations@, final(self).out.tape@, old(self).out.tape@.len() as int, final(self).out.tape@.len() as int, fe_un(out as int, arg as int, f), id_outs()),
    {
        let r_x = self.get_out_reg(out);

        let ghost s1 = *self;
        proof { s1.lemma_reg_unique(out as int); s1.register_lru.lemma_order_props(); }
        match self.get_allocation(arg) {
            Allocation::Register(r_y) => {
                assert!(r_x != r_y);

                let ghost s2 = *self;
                self.out.push(op(r_x, r_y));

                let ghost s3 = *self;
                proof { Self::lemma_push_op(s2, s3, s3.out.tape@.last()); }
                self.release_reg(r_x);

                proof {
                    let o0 = *old(self);
                    let lo = o0.out.tape@.len() as int;
                    let mid = s1.out.tape@.len() as int;
                    let hi = self.out.tape@.len() as int;
                    let rop = self.out.tape@[mid];
                    assert(op.ensures((r_x, r_y), rop));
                    assert forall|f: spec_fn(f32) -> f32| #[trigger] shape_un(op, f) implies
                        simf(self.allocations@, o0.allocations@, self.out.tape@, lo, hi, fe_un(out as int, arg as int, f), id_outs()) by {
                        lemma_step_un_reg(s1.allocations@, self.out.tape@, mid, r_x, r_y, out as int, arg as int, f);
                        lemma_sim_ext(s1.allocations@, o0.allocations@, s1.out.tape@, self.out.tape@, lo, mid, id_env(), id_outs());
                        lemma_sim_then(self.allocations@, s1.allocations@, o0.allocations@, self.out.tape@, lo, mid, hi, fe_un(out as int, arg as int, f), id_outs());
                    }
                }
            }
            Allocation::Memory(m_y) => {

                let ghost s2 = *self;
                proof { s2.lemma_oldest_bound(Set::empty()); }
                let r_a = self.get_register();

                let ghost s3 = *self;
                proof {
                    assert(r_a != r_x);
                    assert(s3.allocations@[arg as int] == m_y);
                    assert(s3.allocations@[out as int] == r_x as u32);
                    s3.lemma_mem_unique(arg as int);
                    s3.lemma_not_stale(arg as int, Set::empty());
                }
                self.push_store(r_a, m_y);

                let ghost s4 = *self;
                self.out.push(op(r_x, r_a));

                let ghost s5 = *self;
                proof { Self::lemma_push_op(s4, s5, s5.out.tape@.last()); }
                self.release_reg(r_x);

                let ghost s6 = *self;
                proof {
                    assert(!s6.spare_registers@.contains(r_a)) by {
                        if s6.spare_registers@.contains(r_a) {
                            let k = choose|k: int| 0 <= k < s6.spare_registers@.len() && s6.spare_registers@[k] == r_a;
                            if k < s5.spare_registers@.len() { assert(s5.spare_registers@[k] == r_a); assert(s5.spare_registers@.contains(r_a)); }
                        }
                    }
                }
                self.bind_register(arg, r_a);

                proof {
                    let o0 = *old(self);
                    let e: Set<int> = Set::empty();
                    assert(s4.stale_only(e.insert(arg as int)));
                    assert(e.insert(arg as int).remove(arg as int) =~= e);
                    assert(s3.unbound_in(e.insert(r_a as int)));
                    assert(e.insert(r_a as int).remove(r_a as int) =~= e);
                    let lo = o0.out.tape@.len() as int;
                    let mid = s1.out.tape@.len() as int;
                    let mid2 = s3.out.tape@.len() as int;
                    let hi = self.out.tape@.len() as int;
                    assert(hi == mid2 + 2);
                    assert(self.out.tape@[mid2] == RegOp::Store(r_a, m_y));
                    let rop = self.out.tape@[mid2 + 1];
                    assert(op.ensures((r_x, r_a), rop));
                    let a_mid = s3.allocations@.update(arg as int, r_a as u32);
                    assert(self.allocations@ =~= a_mid.update(out as int, UNASSIGNED));
                    s3.lemma_reg_unique(out as int);
                    s3.lemma_unbound_unused(r_a);
                    assert forall|f: spec_fn(f32) -> f32| #[trigger] shape_un(op, f) implies
                        simf(self.allocations@, o0.allocations@, self.out.tape@, lo, hi, fe_un(out as int, arg as int, f), id_outs()) by {
                        lemma_step_un_reg(a_mid, self.out.tape@, mid2 + 1, r_x, r_a, out as int, arg as int, f);
                        lemma_step_store(s3.allocations@, self.out.tape@, mid2, r_a, m_y, arg as int, N as int);
                        lemma_sim_ext(s3.allocations@, s1.allocations@, s3.out.tape@, self.out.tape@, mid, mid2, id_env(), id_outs());
                        lemma_sim_ext(s1.allocations@, o0.allocations@, s1.out.tape@, self.out.tape@, lo, mid, id_env(), id_outs());
                        lemma_sim_then(s3.allocations@, s1.allocations@, o0.allocations@, self.out.tape@, lo, mid, mid2, id_env(), id_outs());
                        lemma_sim_then(a_mid, s3.allocations@, o0.allocations@, self.out.tape@, lo, mid2, mid2 + 1, id_env(), id_outs());
                        lemma_sim_then(self.allocations@, a_mid, o0.allocations@, self.out.tape@, lo, mid2 + 1, hi, fe_un(out as int, arg as int, f), id_outs());
                    }
                }
            }
            Allocation::Unassigned => {

                let ghost s2 = *self;
                self.out.push(op(r_x, r_x));

                let ghost s3 = *self;
                proof { Self::lemma_push_op(s2, s3, s3.out.tape@.last()); }
                self.rebind_register(arg, r_x);

                proof {
                    let o0 = *old(self);
                    let e: Set<int> = Set::empty();
                    assert(e.remove(arg as int) =~= e);
                    let lo = o0.out.tape@.len() as int;
                    let mid = s1.out.tape@.len() as int;
                    let hi = self.out.tape@.len() as int;
                    let rop = self.out.tape@[mid];
                    assert(op.ensures((r_x, r_x), rop));
                    assert forall|f: spec_fn(f32) -> f32| #[trigger] shape_un(op, f) implies
                        simf(self.allocations@, o0.allocations@, self.out.tape@, lo, hi, fe_un(out as int, arg as int, f), id_outs()) by {
                        lemma_step_un_self(s1.allocations@, self.out.tape@, mid, r_x, out as int, arg as int, f);
                        lemma_sim_ext(s1.allocations@, o0.allocations@, s1.out.tape@, self.out.tape@, lo, mid, id_env(), id_outs());
                        lemma_sim_then(self.allocations@, s1.allocations@, o0.allocations@, self.out.tape@, lo, mid, hi, fe_un(out as int, arg as int, f), id_outs());
                    }
                }
            }
        }
    }
    fn op_reg_reg(&mut self, op: SsaOp) 
        requires old(self).wf(), ssa_kind(op) == 4, old(self).op_pre(op),
        ensures final(self).op_post(old(self), op),
    {
        match op {
            SsaOp::AddRegReg(out, lhs, rhs) => {
                let f = |o: u8, a: u8, b: u8| -> (r: RegOp) ensures r == RegOp::AddRegReg(o, a, b) { RegOp::AddRegReg(o, a, b) };
                self.op_reg_reg_k(out, lhs, rhs, f);

                proof { assert(shape_bin(f, g_bin(38))); }
            }
            SsaOp::SubRegReg(out, lhs, rhs) => {
                let f = |o: u8, a: u8, b: u8| -> (r: RegOp) ensures r == RegOp::SubRegReg(o, a, b) { RegOp::SubRegReg(o, a, b) };
                self.op_reg_reg_k(out, lhs, rhs, f);

                proof { assert(shape_bin(f, g_bin(44))); }
            }
            SsaOp::MulRegReg(out, lhs, rhs) => {
                let f = |o: u8, a: u8, b: u8| -> (r: RegOp) ensures r == RegOp::MulRegReg(o, a, b) { RegOp::MulRegReg(o, a, b) };
                self.op_reg_reg_k(out, lhs, rhs, f);

                proof { assert(shape_bin(f, g_bin(40))); }
            }
            SsaOp::DivRegReg(out, lhs, rhs) => {
                let f = |o: u8, a: u8, b: u8| -> (r: RegOp) ensures r == RegOp::DivRegReg(o, a, b) { RegOp::DivRegReg(o, a, b) };
                self.op_reg_reg_k(out, lhs, rhs, f);

                proof { assert(shape_bin(f, g_bin(42))); }
            }
            SsaOp::AtanRegReg(out, lhs, rhs) => {
                let f = |o: u8, a: u8, b: u8| -> (r: RegOp) ensures r == RegOp::AtanRegReg(o, a, b) { RegOp::AtanRegReg(o, a, b) };
                self.op_reg_reg_k(out, lhs, rhs, f);

                proof { assert(shape_bin(f, g_bin(28))); }
            }
            SsaOp::MinRegReg(out, lhs, rhs) => {
                let f = |o: u8, a: u8, b: u8| -> (r: RegOp) ensures r == RegOp::MinRegReg(o, a, b) { RegOp::MinRegReg(o, a, b) };
                self.op_reg_reg_k(out, lhs, rhs, f);

                proof { assert(shape_bin(f, g_bin(52))); }
            }
            SsaOp::MaxRegReg(out, lhs, rhs) => {
                let f = |o: u8, a: u8, b: u8| -> (r: RegOp) ensures r == RegOp::MaxRegReg(o, a, b) { RegOp::MaxRegReg(o, a, b) };
                self.op_reg_reg_k(out, lhs, rhs, f);

                proof { assert(shape_bin(f, g_bin(54))); }
            }
            SsaOp::CompareRegReg(out, lhs, rhs) => {
                let f = |o: u8, a: u8, b: u8| -> (r: RegOp) ensures r == RegOp::CompareRegReg(o, a, b) { RegOp::CompareRegReg(o, a, b) };
                self.op_reg_reg_k(out, lhs, rhs, f);

                proof { assert(shape_bin(f, g_bin(48))); }
            }
            SsaOp::ModRegReg(out, lhs, rhs) => {
                let f = |o: u8, a: u8, b: u8| -> (r: RegOp) ensures r == RegOp::ModRegReg(o, a, b) { RegOp::ModRegReg(o, a, b) };
                self.op_reg_reg_k(out, lhs, rhs, f);

                proof { assert(shape_bin(f, g_bin(46))); }
            }
            SsaOp::AndRegReg(out, lhs, rhs) => {
                let f = |o: u8, a: u8, b: u8| -> (r: RegOp) ensures r == RegOp::AndRegReg(o, a, b) { RegOp::AndRegReg(o, a, b) };
                self.op_reg_reg_k(out, lhs, rhs, f);

                proof { assert(shape_bin(f, g_bin(56))); }
            }
            SsaOp::OrRegReg(out, lhs, rhs) => {
                let f = |o: u8, a: u8, b: u8| -> (r: RegOp) ensures r == RegOp::OrRegReg(o, a, b) { RegOp::OrRegReg(o, a, b) };
                self.op_reg_reg_k(out, lhs, rhs, f);

                proof { assert(shape_bin(f, g_bin(58))); }
            }
            SsaOp::MixRegReg(out, lhs, rhs) => {
                let f = |o: u8, a: u8, b: u8| -> (r: RegOp) ensures r == RegOp::MixRegReg(o, a, b) { RegOp::MixRegReg(o, a, b) };
                self.op_reg_reg_k(out, lhs, rhs, f);

                proof { assert(shape_bin(f, g_bin(50))); }
            }
            _ => panic!(),
        }
    }

    fn op_reg_reg_k(&mut self, out: u32, lhs: u32, rhs: u32, op: impl Fn(u8, u8, u8) -> RegOp) 
        requires old(self).wf(), (out as int) < old(self).allocations@.len(), (lhs as int) < old(self).allocations@.len(),
            (rhs as int) < old(self).allocations@.len(), out != lhs, out != rhs,
            old(self).allocations@[out as int] != UNASSIGNED,
            forall|a: u8, b: u8, c: u8| op.requires((a, b, c)),
            forall|a: u8, b: u8, c: u8, r: RegOp, sl: int| #[trigger] op.ensures((a, b, c), r) && (a as int) < N && (b as int) < N && (c as int) < N ==> #[trigger] op_ok(r, N as int, sl),
        ensures final(self).wf(),
            final(self).allocations@.len() == old(self).allocations@.len(),
            final(self).allocations@[out as int] == UNASSIGNED, final(self).allocations@[lhs as int] != UNASSIGNED, final(self).allocations@[rhs as int] != UNASSIGNED,
            forall|s: int| 0 <= s < old(self).allocations@.len() && s != out && s != lhs && s != rhs ==>
                (#[trigger] final(self).allocations@[s] == UNASSIGNED <==> old(self).allocations@[s] == UNASSIGNED),
            final(self).out.tape@.len() >= old(self).out.tape@.len(),
            forall|k: int| 0 <= k < old(self).out.tape@.len() ==> #[trigger] final(self).out.tape@[k] == old(self).out.tape@[k],
            forall|g: spec_fn(f32, f32) -> f32| #[trigger] shape_bin(op, g) ==>
                simf(final(self).allocations@, old(self).allocations@, final(self).out.tape@, old(self).out.tape@.len() as int, final(self).out.tape@.len() as int, fe_bin(out as int, lhs as int, rhs as int, g), id_outs()),
    {
        let r_x = self.get_out_reg(out);

        let ghost s1 = *self;
        proof { s1.lemma_reg_unique(out as int); s1.register_lru.lemma_order_props(); }
        match (self.get_allocation(lhs), self.get_allocation(rhs)) {
            (Allocation::Register(r_y), Allocation::Register(r_z)) => {

                let ghost s3 = *self;
                self.out.push(op(r_x, r_y, r_z));

                let ghost s4 = *self;
                proof { Self::lemma_push_op(s3, s4, s4.out.tape@.last()); }
                self.release_reg(r_x);

                proof {
                    let o0 = *old(self);
                    let e: Set<int> = Set::empty();
                    let lo = o0.out.tape@.len() as int;
                    let mid = s1.out.tape@.len() as int;
                    let hi = self.out.tape@.len() as int;
                    let rop = self.out.tape@[mid];
                    assert(op.ensures((r_x, r_y, r_z), rop));
                    assert forall|g: spec_fn(f32, f32) -> f32| #[trigger] shape_bin(op, g) implies
                        simf(self.allocations@, o0.allocations@, self.out.tape@, lo, hi, fe_bin(out as int, lhs as int, rhs as int, g), id_outs()) by {
                        lemma_step_bin(self.allocations@, s1.allocations@, self.out.tape@, mid, r_x, r_y, r_z, out as int, lhs as int, rhs as int, g);
                        lemma_sim_ext(s1.allocations@, o0.allocations@, s1.out.tape@, self.out.tape@, lo, mid, id_env(), id_outs());
                        lemma_sim_then(self.allocations@, s1.allocations@, o0.allocations@, self.out.tape@, lo, mid, hi, fe_bin(out as int, lhs as int, rhs as int, g), id_outs());
                    }
                }
            }
            (Allocation::Memory(m_y), Allocation::Register(r_z)) => {

                let ghost s3 = *self;
                proof {
                    s3.lemma_oldest_bound(Set::empty());
                    s3.register_lru.lemma_order_props();
                    s3.lemma_bound_reg(rhs as int);
                    lemma_perm_contains::<N>(s1.register_lru, s1.register_lru.order(), r_z);
                    lemma_poke_head(s1.register_lru.order(), r_z);
                    lemma_poke_second(s1.register_lru.order(), r_z);
                }
                let r_a = self.get_register();

                let ghost s4 = *self;
                proof {
                    assert(r_a != r_x);
                    assert(r_a != r_z);
                    assert(s4.allocations@[lhs as int] == m_y);
                    assert(s4.allocations@[out as int] == r_x as u32);
                    s4.lemma_mem_unique(lhs as int);
                    s4.lemma_not_stale(lhs as int, Set::empty());
                }
                self.push_store(r_a, m_y);

                let ghost s5 = *self;
                self.out.push(op(r_x, r_a, r_z));

                let ghost s6 = *self;
                proof { Self::lemma_push_op(s5, s6, s6.out.tape@.last()); }
                self.release_reg(r_x);

                let ghost s7 = *self;
                proof {
                    assert(!s7.spare_registers@.contains(r_a)) by {
                        if s7.spare_registers@.contains(r_a) {
                            let k = choose|k: int| 0 <= k < s7.spare_registers@.len() && s7.spare_registers@[k] == r_a;
                            if k < s6.spare_registers@.len() { assert(s6.spare_registers@[k] == r_a); assert(s6.spare_registers@.contains(r_a)); }
                        }
                    }
                }
                self.bind_register(lhs, r_a);

                proof {
                    let o0 = *old(self);
                    let e: Set<int> = Set::empty();
                    let lo = o0.out.tape@.len() as int;
                    let mid = s1.out.tape@.len() as int;
                    let hi = self.out.tape@.len() as int;
                    assert(s5.stale_only(e.insert(lhs as int)));
                    assert(e.insert(lhs as int).remove(lhs as int) =~= e);
                    assert(s4.unbound_in(e.insert(r_a as int)));
                    assert(e.insert(r_a as int).remove(r_a as int) =~= e);
                    let mid2 = s4.out.tape@.len() as int;
                    assert(hi == mid2 + 2);
                    assert(self.out.tape@[mid2] == RegOp::Store(r_a, m_y));
                    let rop = self.out.tape@[mid2 + 1];
                    assert(op.ensures((r_x, r_a, r_z), rop));
                    let a_mid = s4.allocations@.update(lhs as int, r_a as u32);
                    assert(self.allocations@ =~= a_mid.update(out as int, UNASSIGNED));
                    s4.lemma_reg_unique(out as int);
                    s4.lemma_unbound_unused(r_a);
                    assert forall|g: spec_fn(f32, f32) -> f32| #[trigger] shape_bin(op, g) implies
                        simf(self.allocations@, o0.allocations@, self.out.tape@, lo, hi, fe_bin(out as int, lhs as int, rhs as int, g), id_outs()) by {
                        lemma_step_bin(self.allocations@, a_mid, self.out.tape@, mid2 + 1, r_x, r_a, r_z, out as int, lhs as int, rhs as int, g);
                        lemma_step_store(s4.allocations@, self.out.tape@, mid2, r_a, m_y, lhs as int, N as int);
                        lemma_sim_ext(s4.allocations@, s1.allocations@, s4.out.tape@, self.out.tape@, mid, mid2, id_env(), id_outs());
                        lemma_sim_ext(s1.allocations@, o0.allocations@, s1.out.tape@, self.out.tape@, lo, mid, id_env(), id_outs());
                        lemma_sim_then(s4.allocations@, s1.allocations@, o0.allocations@, self.out.tape@, lo, mid, mid2, id_env(), id_outs());
                        lemma_sim_then(a_mid, s4.allocations@, o0.allocations@, self.out.tape@, lo, mid2, mid2 + 1, id_env(), id_outs());
                        lemma_sim_then(self.allocations@, a_mid, o0.allocations@, self.out.tape@, lo, mid2 + 1, hi, fe_bin(out as int, lhs as int, rhs as int, g), id_outs());
                    }
                }
            }
            (Allocation::Register(r_y), Allocation::Memory(m_z)) => {

                let ghost s3 = *self;
                proof {
                    s3.lemma_oldest_bound(Set::empty());
                    s3.register_lru.lemma_order_props();
                    s3.lemma_bound_reg(lhs as int);
                    lemma_perm_contains::<N>(s1.register_lru, s1.register_lru.order(), r_y);
                    lemma_poke_head(s1.register_lru.order(), r_y);
                    lemma_poke_second(s1.register_lru.order(), r_y);
                }
                let r_a = self.get_register();

                let ghost s4 = *self;
                proof {
                    assert(r_a != r_x);
                    assert(r_a != r_y);
                    assert(s4.allocations@[rhs as int] == m_z);
                    assert(s4.allocations@[out as int] == r_x as u32);
                    s4.lemma_mem_unique(rhs as int);
                    s4.lemma_not_stale(rhs as int, Set::empty());
                }
                self.push_store(r_a, m_z);

                let ghost s5 = *self;
                self.out.push(op(r_x, r_y, r_a));

                let ghost s6 = *self;
                proof { Self::lemma_push_op(s5, s6, s6.out.tape@.last()); }
                self.release_reg(r_x);

                let ghost s7 = *self;
                proof {
                    assert(!s7.spare_registers@.contains(r_a)) by {
                        if s7.spare_registers@.contains(r_a) {
                            let k = choose|k: int| 0 <= k < s7.spare_registers@.len() && s7.spare_registers@[k] == r_a;
                            if k < s6.spare_registers@.len() { assert(s6.spare_registers@[k] == r_a); assert(s6.spare_registers@.contains(r_a)); }
                        }
                    }
                }
                self.bind_register(rhs, r_a);

                proof {
                    let o0 = *old(self);
                    let e: Set<int> = Set::empty();
                    let lo = o0.out.tape@.len() as int;
                    let mid = s1.out.tape@.len() as int;
                    let hi = self.out.tape@.len() as int;
                    assert(s5.stale_only(e.insert(rhs as int)));
                    assert(e.insert(rhs as int).remove(rhs as int) =~= e);
                    assert(s4.unbound_in(e.insert(r_a as int)));
                    assert(e.insert(r_a as int).remove(r_a as int) =~= e);
                    let mid2 = s4.out.tape@.len() as int;
                    assert(hi == mid2 + 2);
                    assert(self.out.tape@[mid2] == RegOp::Store(r_a, m_z));
                    let rop = self.out.tape@[mid2 + 1];
                    assert(op.ensures((r_x, r_y, r_a), rop));
                    let a_mid = s4.allocations@.update(rhs as int, r_a as u32);
                    assert(self.allocations@ =~= a_mid.update(out as int, UNASSIGNED));
                    s4.lemma_reg_unique(out as int);
                    s4.lemma_unbound_unused(r_a);
                    assert forall|g: spec_fn(f32, f32) -> f32| #[trigger] shape_bin(op, g) implies
                        simf(self.allocations@, o0.allocations@, self.out.tape@, lo, hi, fe_bin(out as int, lhs as int, rhs as int, g), id_outs()) by {
                        lemma_step_bin(self.allocations@, a_mid, self.out.tape@, mid2 + 1, r_x, r_y, r_a, out as int, lhs as int, rhs as int, g);
                        lemma_step_store(s4.allocations@, self.out.tape@, mid2, r_a, m_z, rhs as int, N as int);
                        lemma_sim_ext(s4.allocations@, s1.allocations@, s4.out.tape@, self.out.tape@, mid, mid2, id_env(), id_outs());
                        lemma_sim_ext(s1.allocations@, o0.allocations@, s1.out.tape@, self.out.tape@, lo, mid, id_env(), id_outs());
                        lemma_sim_then(s4.allocations@, s1.allocations@, o0.allocations@, self.out.tape@, lo, mid, mid2, id_env(), id_outs());
                        lemma_sim_then(a_mid, s4.allocations@, o0.allocations@, self.out.tape@, lo, mid2, mid2 + 1, id_env(), id_outs());
                        lemma_sim_then(self.allocations@, a_mid, o0.allocations@, self.out.tape@, lo, mid2 + 1, hi, fe_bin(out as int, lhs as int, rhs as int, g), id_outs());
                    }
                }
            }
            (Allocation::Memory(m_y), Allocation::Memory(..)) if lhs == rhs => {

                let ghost s3 = *self;
                proof {
                    s3.lemma_oldest_bound(Set::empty());
                    s3.register_lru.lemma_order_props();
                }
                let r_a = self.get_register();

                let ghost s4 = *self;
                proof {
                    assert(r_a != r_x);
                    assert(s4.allocations@[lhs as int] == m_y);
                    assert(s4.allocations@[out as int] == r_x as u32);
                    s4.lemma_mem_unique(lhs as int);
                    s4.lemma_not_stale(lhs as int, Set::empty());
                }
                self.push_store(r_a, m_y);

                let ghost s5 = *self;
                self.out.push(op(r_x, r_a, r_a));

                let ghost s6 = *self;
                proof { Self::lemma_push_op(s5, s6, s6.out.tape@.last()); }
                self.release_reg(r_x);

                let ghost s7 = *self;
                proof {
                    assert(!s7.spare_registers@.contains(r_a)) by {
                        if s7.spare_registers@.contains(r_a) {
                            let k = choose|k: int| 0 <= k < s7.spare_registers@.len() && s7.spare_registers@[k] == r_a;
                            if k < s6.spare_registers@.len() { assert(s6.spare_registers@[k] == r_a); assert(s6.spare_registers@.contains(r_a)); }
                        }
                    }
                }
                self.bind_register(lhs, r_a);

                proof {
                    let o0 = *old(self);
                    let e: Set<int> = Set::empty();
                    let lo = o0.out.tape@.len() as int;
                    let mid = s1.out.tape@.len() as int;
                    let hi = self.out.tape@.len() as int;
                    assert(s5.stale_only(e.insert(lhs as int)));
                    assert(e.insert(lhs as int).remove(lhs as int) =~= e);
                    assert(s4.unbound_in(e.insert(r_a as int)));
                    assert(e.insert(r_a as int).remove(r_a as int) =~= e);
                    let mid2 = s4.out.tape@.len() as int;
                    assert(hi == mid2 + 2);
                    assert(self.out.tape@[mid2] == RegOp::Store(r_a, m_y));
                    let rop = self.out.tape@[mid2 + 1];
                    assert(op.ensures((r_x, r_a, r_a), rop));
                    let a_mid = s4.allocations@.update(lhs as int, r_a as u32);
                    assert(self.allocations@ =~= a_mid.update(out as int, UNASSIGNED));
                    s4.lemma_reg_unique(out as int);
                    s4.lemma_unbound_unused(r_a);
                    assert forall|g: spec_fn(f32, f32) -> f32| #[trigger] shape_bin(op, g) implies
                        simf(self.allocations@, o0.allocations@, self.out.tape@, lo, hi, fe_bin(out as int, lhs as int, rhs as int, g), id_outs()) by {
                        lemma_step_bin(self.allocations@, a_mid, self.out.tape@, mid2 + 1, r_x, r_a, r_a, out as int, lhs as int, rhs as int, g);
                        lemma_step_store(s4.allocations@, self.out.tape@, mid2, r_a, m_y, lhs as int, N as int);
                        lemma_sim_ext(s4.allocations@, s1.allocations@, s4.out.tape@, self.out.tape@, mid, mid2, id_env(), id_outs());
                        lemma_sim_ext(s1.allocations@, o0.allocations@, s1.out.tape@, self.out.tape@, lo, mid, id_env(), id_outs());
                        lemma_sim_then(s4.allocations@, s1.allocations@, o0.allocations@, self.out.tape@, lo, mid, mid2, id_env(), id_outs());
                        lemma_sim_then(a_mid, s4.allocations@, o0.allocations@, self.out.tape@, lo, mid2, mid2 + 1, id_env(), id_outs());
                        lemma_sim_then(self.allocations@, a_mid, o0.allocations@, self.out.tape@, lo, mid2 + 1, hi, fe_bin(out as int, lhs as int, rhs as int, g), id_outs());
                    }
                }
            }
            (Allocation::Memory(m_y), Allocation::Memory(m_z)) => {

                let ghost s3 = *self;
                proof {
                    s3.lemma_oldest_bound(Set::empty());
                    s3.register_lru.lemma_order_props();
                }
                let r_a = self.get_register();

                let ghost s4 = *self;
                proof {
                    let e: Set<int> = Set::empty();
                    assert(r_a != r_x);
                    s4.register_lru.lemma_order_props();
                    lemma_poke_head(s3.register_lru.order(), r_a);
                    lemma_perm_contains::<N>(s3.register_lru, s3.register_lru.order(), r_a);
                    lemma_poke_second(s3.register_lru.order(), r_a);
                    assert(s4.unbound_in(e.insert(r_a as int)));
                    s4.lemma_oldest_bound(e.insert(r_a as int));
                }
                let r_b = self.get_register();

                let ghost s5 = *self;
                proof {
                    if s4.spare_registers@.len() > 0 { s4.lemma_spare_unbound(r_b); }
                    assert(!s5.spare_registers@.contains(r_a));
                    assert(r_b != r_a);
                    assert(r_b != r_x);
                    assert(s5.allocations@[lhs as int] == m_y);
                    assert(s5.allocations@[rhs as int] == m_z);
                    assert(s5.allocations@[out as int] == r_x as u32);
                    s5.lemma_mem_unique(lhs as int);
                    s5.lemma_mem_unique(rhs as int);
                    s5.lemma_not_stale(lhs as int, Set::empty());
                    s5.lemma_not_stale(rhs as int, Set::empty());
                }

                self.push_store(r_a, m_y);

                let ghost s6 = *self;
                proof {
                    assert(!s6.spare_memory@.contains(m_z)) by {
                        if s6.spare_memory@.contains(m_z) {
                            let k = choose|k: int| 0 <= k < s6.spare_memory@.len() && s6.spare_memory@[k] == m_z;
                            if k < s5.spare_memory@.len() { assert(s5.spare_memory@[k] == m_z); assert(s5.spare_memory@.contains(m_z)); }
                        }
                    }
                }
                self.push_store(r_b, m_z);

                let ghost s7 = *self;
                self.out.push(op(r_x, r_a, r_b));

                let ghost s8 = *self;
                proof { Self::lemma_push_op(s7, s8, s8.out.tape@.last()); }
                self.release_reg(r_x);

                let ghost s9 = *self;
                proof {
                    assert(!s9.spare_registers@.contains(r_a)) by {
                        if s9.spare_registers@.contains(r_a) {
                            let k = choose|k: int| 0 <= k < s9.spare_registers@.len() && s9.spare_registers@[k] == r_a;
                            if k < s8.spare_registers@.len() { assert(s8.spare_registers@[k] == r_a); assert(s8.spare_registers@.contains(r_a)); }
                        }
                    }
                    assert(!s9.spare_registers@.contains(r_b)) by {
                        if s9.spare_registers@.contains(r_b) {
                            let k = choose|k: int| 0 <= k < s9.spare_registers@.len() && s9.spare_registers@[k] == r_b;
                            if k < s8.spare_registers@.len() { assert(s8.spare_registers@[k] == r_b); assert(s8.spare_registers@.contains(r_b)); }
                        }
                    }
                }
                self.bind_register(lhs, r_a);

                let ghost s10 = *self;
                self.bind_register(rhs, r_b);

                proof {
                    let o0 = *old(self);
                    let e: Set<int> = Set::empty();
                    let lo = o0.out.tape@.len() as int;
                    let mid = s1.out.tape@.len() as int;
                    let hi = self.out.tape@.len() as int;
                    assert(s6.stale_only(e.insert(lhs as int)));
                    assert(s7.stale_only(e.insert(lhs as int).insert(rhs as int)));
                    assert(e.insert(lhs as int).insert(rhs as int).remove(lhs as int).remove(rhs as int) =~= e);
                    assert(s5.unbound_in(e.insert(r_a as int).insert(r_b as int)));
                    assert(e.insert(r_a as int).insert(r_b as int).remove(r_a as int).remove(r_b as int) =~= e);
                    let mid2 = s4.out.tape@.len() as int;
                    let mid3 = s5.out.tape@.len() as int;
                    assert(hi == mid3 + 3);
                    assert(self.out.tape@[mid3] == RegOp::Store(r_a, m_y));
                    assert(self.out.tape@[mid3 + 1] == RegOp::Store(r_b, m_z));
                    let rop = self.out.tape@[mid3 + 2];
                    assert(op.ensures((r_x, r_a, r_b), rop));
                    let a5 = s5.allocations@;
                    let a6 = a5.update(lhs as int, r_a as u32);
                    let a7 = a6.update(rhs as int, r_b as u32);
                    assert(self.allocations@ =~= a7.update(out as int, UNASSIGNED));
                    s5.lemma_reg_unique(out as int);
                    s5.lemma_unbound_unused(r_a);
                    s5.lemma_unbound_unused(r_b);
                    assert forall|g: spec_fn(f32, f32) -> f32| #[trigger] shape_bin(op, g) implies
                        simf(self.allocations@, o0.allocations@, self.out.tape@, lo, hi, fe_bin(out as int, lhs as int, rhs as int, g), id_outs()) by {
                        lemma_step_bin(self.allocations@, a7, self.out.tape@, mid3 + 2, r_x, r_a, r_b, out as int, lhs as int, rhs as int, g);
                        lemma_step_store(a6, self.out.tape@, mid3 + 1, r_b, m_z, rhs as int, N as int);
                        lemma_step_store(a5, self.out.tape@, mid3, r_a, m_y, lhs as int, N as int);
                        lemma_sim_ext(s5.allocations@, s4.allocations@, s5.out.tape@, self.out.tape@, mid2, mid3, id_env(), id_outs());
                        lemma_sim_ext(s4.allocations@, s1.allocations@, s4.out.tape@, self.out.tape@, mid, mid2, id_env(), id_outs());
                        lemma_sim_ext(s1.allocations@, o0.allocations@, s1.out.tape@, self.out.tape@, lo, mid, id_env(), id_outs());
                        lemma_sim_then(s4.allocations@, s1.allocations@, o0.allocations@, self.out.tape@, lo, mid, mid2, id_env(), id_outs());
                        lemma_sim_then(a5, s4.allocations@, o0.allocations@, self.out.tape@, lo, mid2, mid3, id_env(), id_outs());
                        lemma_sim_then(a6, a5, o0.allocations@, self.out.tape@, lo, mid3, mid3 + 1, id_env(), id_outs());
                        lemma_sim_then(a7, a6, o0.allocations@, self.out.tape@, lo, mid3 + 1, mid3 + 2, id_env(), id_outs());
                        lemma_sim_then(self.allocations@, a7, o0.allocations@, self.out.tape@, lo, mid3 + 2, hi, fe_bin(out as int, lhs as int, rhs as int, g), id_outs());
                    }
                }
            }
            (Allocation::Unassigned, Allocation::Register(r_z)) => {

                let ghost s3 = *self;
                self.out.push(op(r_x, r_x, r_z));

                let ghost s4 = *self;
                proof { Self::lemma_push_op(s3, s4, s4.out.tape@.last()); }
                self.rebind_register(lhs, r_x);

                proof {
                    let o0 = *old(self);
                    let e: Set<int> = Set::empty();
                    let lo = o0.out.tape@.len() as int;
                    let mid = s1.out.tape@.len() as int;
                    let hi = self.out.tape@.len() as int;
                    assert(e.remove(lhs as int) =~= e);
                    let rop = self.out.tape@[mid];
                    assert(op.ensures((r_x, r_x, r_z), rop));
                    assert forall|g: spec_fn(f32, f32) -> f32| #[trigger] shape_bin(op, g) implies
                        simf(self.allocations@, o0.allocations@, self.out.tape@, lo, hi, fe_bin(out as int, lhs as int, rhs as int, g), id_outs()) by {
                        lemma_step_bin(self.allocations@, s1.allocations@, self.out.tape@, mid, r_x, r_x, r_z, out as int, lhs as int, rhs as int, g);
                        lemma_sim_ext(s1.allocations@, o0.allocations@, s1.out.tape@, self.out.tape@, lo, mid, id_env(), id_outs());
                        lemma_sim_then(self.allocations@, s1.allocations@, o0.allocations@, self.out.tape@, lo, mid, hi, fe_bin(out as int, lhs as int, rhs as int, g), id_outs());
                    }
                }
            }
            (Allocation::Register(r_y), Allocation::Unassigned) => {

                let ghost s3 = *self;
                self.out.push(op(r_x, r_y, r_x));

                let ghost s4 = *self;
                proof { Self::lemma_push_op(s3, s4, s4.out.tape@.last()); }
                self.rebind_register(rhs, r_x);

                proof {
                    let o0 = *old(self);
                    let e: Set<int> = Set::empty();
                    let lo = o0.out.tape@.len() as int;
                    let mid = s1.out.tape@.len() as int;
                    let hi = self.out.tape@.len() as int;
                    assert(e.remove(rhs as int) =~= e);
                    let rop = self.out.tape@[mid];
                    assert(op.ensures((r_x, r_y, r_x), rop));
                    assert forall|g: spec_fn(f32, f32) -> f32| #[trigger] shape_bin(op, g) implies
                        simf(self.allocations@, o0.allocations@, self.out.tape@, lo, hi, fe_bin(out as int, lhs as int, rhs as int, g), id_outs()) by {
                        lemma_step_bin(self.allocations@, s1.allocations@, self.out.tape@, mid, r_x, r_y, r_x, out as int, lhs as int, rhs as int, g);
                        lemma_sim_ext(s1.allocations@, o0.allocations@, s1.out.tape@, self.out.tape@, lo, mid, id_env(), id_outs());
                        lemma_sim_then(self.allocations@, s1.allocations@, o0.allocations@, self.out.tape@, lo, mid, hi, fe_bin(out as int, lhs as int, rhs as int, g), id_outs());
                    }
                }
            }
            (Allocation::Unassigned, Allocation::Unassigned) if lhs == rhs => {

                let ghost s3 = *self;
                self.out.push(op(r_x, r_x, r_x));

                let ghost s4 = *self;
                proof { Self::lemma_push_op(s3, s4, s4.out.tape@.last()); }
                self.rebind_register(lhs, r_x);

                proof {
                    let o0 = *old(self);
                    let e: Set<int> = Set::empty();
                    let lo = o0.out.tape@.len() as int;
                    let mid = s1.out.tape@.len() as int;
                    let hi = self.out.tape@.len() as int;
                    assert(e.remove(lhs as int) =~= e);
                    let rop = self.out.tape@[mid];
                    assert(op.ensures((r_x, r_x, r_x), rop));
                    assert forall|g: spec_fn(f32, f32) -> f32| #[trigger] shape_bin(op, g) implies
                        simf(self.allocations@, o0.allocations@, self.out.tape@, lo, hi, fe_bin(out as int, lhs as int, rhs as int, g), id_outs()) by {
                        lemma_step_bin(self.allocations@, s1.allocations@, self.out.tape@, mid, r_x, r_x, r_x, out as int, lhs as int, rhs as int, g);
                        lemma_sim_ext(s1.allocations@, o0.allocations@, s1.out.tape@, self.out.tape@, lo, mid, id_env(), id_outs());
                        lemma_sim_then(self.allocations@, s1.allocations@, o0.allocations@, self.out.tape@, lo, mid, hi, fe_bin(out as int, lhs as int, rhs as int, g), id_outs());
                    }
                }
            }
            (Allocation::Unassigned, Allocation::Unassigned) => {

                let ghost s3 = *self;
                proof { s3.lemma_oldest_bound(Set::empty()); s3.register_lru.lemma_order_props(); }
                let r_a = self.get_register();

                let ghost s4 = *self;
                proof {
                    assert(r_a != r_x);
                    assert(s4.allocations@[lhs as int] == UNASSIGNED);
                    assert(s4.allocations@[rhs as int] == UNASSIGNED);
                    assert(s4.allocations@[out as int] == r_x as u32);
                }

                self.out.push(op(r_x, r_x, r_a));

                let ghost s5 = *self;
                proof { Self::lemma_push_op(s4, s5, s5.out.tape@.last()); }
                self.rebind_register(lhs, r_x);

                let ghost s6 = *self;
                self.bind_register(rhs, r_a);

                proof {
                    let o0 = *old(self);
                    let e: Set<int> = Set::empty();
                    let lo = o0.out.tape@.len() as int;
                    let mid = s1.out.tape@.len() as int;
                    let hi = self.out.tape@.len() as int;
                    assert(e.remove(lhs as int).remove(rhs as int) =~= e);
                    assert(s4.unbound_in(e.insert(r_a as int)));
                    assert(e.insert(r_a as int).remove(r_a as int) =~= e);
                    let mid2 = s4.out.tape@.len() as int;
                    let rop = self.out.tape@[mid2];
                    assert(op.ensures((r_x, r_x, r_a), rop));
                    s4.lemma_reg_unique(out as int);
                    assert forall|g: spec_fn(f32, f32) -> f32| #[trigger] shape_bin(op, g) implies
                        simf(self.allocations@, o0.allocations@, self.out.tape@, lo, hi, fe_bin(out as int, lhs as int, rhs as int, g), id_outs()) by {
                        lemma_step_bin(self.allocations@, s4.allocations@, self.out.tape@, mid2, r_x, r_x, r_a, out as int, lhs as int, rhs as int, g);
                        lemma_sim_ext(s4.allocations@, s1.allocations@, s4.out.tape@, self.out.tape@, mid, mid2, id_env(), id_outs());
                        lemma_sim_ext(s1.allocations@, o0.allocations@, s1.out.tape@, self.out.tape@, lo, mid, id_env(), id_outs());
                        lemma_sim_then(s4.allocations@, s1.allocations@, o0.allocations@, self.out.tape@, lo, mid, mid2, id_env(), id_outs());
                        lemma_sim_then(self.allocations@, s4.allocations@, o0.allocations@, self.out.tape@, lo, mid2, hi, fe_bin(out as int, lhs as int, rhs as int, g), id_outs());
                    }
                }
            }
            (Allocation::Unassigned, Allocation::Memory(m_z)) => {

                let ghost s3 = *self;
                proof { s3.lemma_oldest_bound(Set::empty()); s3.register_lru.lemma_order_props(); }
                let r_a = self.get_register();

                let ghost s4 = *self;
                proof {
                    assert(r_a != r_x);
                    assert(s4.allocations@[lhs as int] == UNASSIGNED);
                    assert(s4.allocations@[rhs as int] == m_z);
                    assert(s4.allocations@[out as int] == r_x as u32);
                    s4.lemma_mem_unique(rhs as int);
                    s4.lemma_not_stale(rhs as int, Set::empty());
                }
                assert!(r_a != r_x);
                assert!(lhs != rhs);

                self.push_store(r_a, m_z);

                let ghost s5 = *self;
                self.out.push(op(r_x, r_x, r_a));

                let ghost s6 = *self;
                proof { Self::lemma_push_op(s5, s6, s6.out.tape@.last()); }
                self.rebind_register(lhs, r_x);

                let ghost s7 = *self;
                self.bind_register(rhs, r_a);

                proof {
                    let o0 = *old(self);
                    let e: Set<int> = Set::empty();
                    let lo = o0.out.tape@.len() as int;
                    let mid = s1.out.tape@.len() as int;
                    let hi = self.out.tape@.len() as int;
                    assert(s5.stale_only(e.insert(rhs as int)));
                    assert(e.insert(rhs as int).remove(lhs as int).remove(rhs as int) =~= e);
                    assert(s4.unbound_in(e.insert(r_a as int)));
                    assert(e.insert(r_a as int).remove(r_a as int) =~= e);
                    let mid2 = s4.out.tape@.len() as int;
                    assert(hi == mid2 + 2);
                    assert(self.out.tape@[mid2] == RegOp::Store(r_a, m_z));
                    let rop = self.out.tape@[mid2 + 1];
                    assert(op.ensures((r_x, r_x, r_a), rop));
                    let a_mid = s4.allocations@.update(rhs as int, r_a as u32);
                    s4.lemma_reg_unique(out as int);
                    s4.lemma_unbound_unused(r_a);
                    assert forall|g: spec_fn(f32, f32) -> f32| #[trigger] shape_bin(op, g) implies
                        simf(self.allocations@, o0.allocations@, self.out.tape@, lo, hi, fe_bin(out as int, lhs as int, rhs as int, g), id_outs()) by {
                        lemma_step_bin(self.allocations@, a_mid, self.out.tape@, mid2 + 1, r_x, r_x, r_a, out as int, lhs as int, rhs as int, g);
                        lemma_step_store(s4.allocations@, self.out.tape@, mid2, r_a, m_z, rhs as int, N as int);
                        lemma_sim_ext(s4.allocations@, s1.allocations@, s4.out.tape@, self.out.tape@, mid, mid2, id_env(), id_outs());
                        lemma_sim_ext(s1.allocations@, o0.allocations@, s1.out.tape@, self.out.tape@, lo, mid, id_env(), id_outs());
                        lemma_sim_then(s4.allocations@, s1.allocations@, o0.allocations@, self.out.tape@, lo, mid, mid2, id_env(), id_outs());
                        lemma_sim_then(a_mid, s4.allocations@, o0.allocations@, self.out.tape@, lo, mid2, mid2 + 1, id_env(), id_outs());
                        lemma_sim_then(self.allocations@, a_mid, o0.allocations@, self.out.tape@, lo, mid2 + 1, hi, fe_bin(out as int, lhs as int, rhs as int, g), id_outs());
                    }
                }
            }
            (Allocation::Memory(m_y), Allocation::Unassigned) => {

                let ghost s3 = *self;
                proof { s3.lemma_oldest_bound(Set::empty()); s3.register_lru.lemma_order_props(); }
                let r_a = self.get_register();

                let ghost s4 = *self;
                proof {
                    assert(r_a != r_x);
                    assert(s4.allocations@[rhs as int] == UNASSIGNED);
                    assert(s4.allocations@[lhs as int] == m_y);
                    assert(s4.allocations@[out as int] == r_x as u32);
                    s4.lemma_mem_unique(lhs as int);
                    s4.lemma_not_stale(lhs as int, Set::empty());
                }
                assert!(r_a != r_x);
                assert!(lhs != rhs);

                self.push_store(r_a, m_y);

                let ghost s5 = *self;
                self.out.push(op(r_x, r_a, r_x));

                let ghost s6 = *self;
                proof { Self::lemma_push_op(s5, s6, s6.out.tape@.last()); }
                self.bind_register(lhs, r_a);

                let ghost s7 = *self;
                self.rebind_register(rhs, r_x);

                proof {
                    let o0 = *old(self);
                    let e: Set<int> = Set::empty();
                    let lo = o0.out.tape@.len() as int;
                    let mid = s1.out.tape@.len() as int;
                    let hi = self.out.tape@.len() as int;
                    assert(s5.stale_only(e.insert(lhs as int)));
                    assert(e.insert(lhs as int).remove(lhs as int).remove(rhs as int) =~= e);
                    assert(s4.unbound_in(e.insert(r_a as int)));
                    assert(e.insert(r_a as int).remove(r_a as int) =~= e);
                    let mid2 = s4.out.tape@.len() as int;
                    assert(hi == mid2 + 2);
                    assert(self.out.tape@[mid2] == RegOp::Store(r_a, m_y));
                    let rop = self.out.tape@[mid2 + 1];
                    assert(op.ensures((r_x, r_a, r_x), rop));
                    let a_mid = s4.allocations@.update(lhs as int, r_a as u32);
                    s4.lemma_reg_unique(out as int);
                    s4.lemma_unbound_unused(r_a);
                    assert forall|g: spec_fn(f32, f32) -> f32| #[trigger] shape_bin(op, g) implies
                        simf(self.allocations@, o0.allocations@, self.out.tape@, lo, hi, fe_bin(out as int, lhs as int, rhs as int, g), id_outs()) by {
                        lemma_step_bin(self.allocations@, a_mid, self.out.tape@, mid2 + 1, r_x, r_a, r_x, out as int, lhs as int, rhs as int, g);
                        lemma_step_store(s4.allocations@, self.out.tape@, mid2, r_a, m_y, lhs as int, N as int);
                        lemma_sim_ext(s4.allocations@, s1.allocations@, s4.out.tape@, self.out.tape@, mid, mid2, id_env(), id_outs());
                        lemma_sim_ext(s1.allocations@, o0.allocations@, s1.out.tape@, self.out.tape@, lo, mid, id_env(), id_outs());
                        lemma_sim_then(s4.allocations@, s1.allocations@, o0.allocations@, self.out.tape@, lo, mid, mid2, id_env(), id_outs());
                        lemma_sim_then(a_mid, s4.allocations@, o0.allocations@, self.out.tape@, lo, mid2, mid2 + 1, id_env(), id_outs());
                        lemma_sim_then(self.allocations@, a_mid, o0.allocations@, self.out.tape@, lo, mid2 + 1, hi, fe_bin(out as int, lhs as int, rhs as int, g), id_outs());
                    }
                }
            }
        }
    }
    fn op_reg_imm(&mut self, op: SsaOp) 
        requires old(self).wf(), ssa_kind(op) == 3, old(self).op_pre(op),
        ensures final(self).op_post(old(self), op),
    {
        match op {
            SsaOp::AddRegImm(out, arg, imm) => {
                let f = |o: u8, a: u8| -> (r: RegOp) ensures r == RegOp::AddRegImm(o, a, imm) { RegOp::AddRegImm(o, a, imm) };
                self.op_reg_fn(out, arg, f);

                proof { assert(shape_un(f, f_ri(38, imm))); }
            }
            SsaOp::SubRegImm(out, arg, imm) => {
                let f = |o: u8, a: u8| -> (r: RegOp) ensures r == RegOp::SubRegImm(o, a, imm) { RegOp::SubRegImm(o, a, imm) };
                self.op_reg_fn(out, arg, f);

                proof { assert(shape_un(f, f_ri(44, imm))); }
            }
            SsaOp::SubImmReg(out, arg, imm) => {
                let f = |o: u8, a: u8| -> (r: RegOp) ensures r == RegOp::SubImmReg(o, a, imm) { RegOp::SubImmReg(o, a, imm) };
                self.op_reg_fn(out, arg, f);

                proof { assert(shape_un(f, f_ir(44, imm))); }
            }
            SsaOp::MulRegImm(out, arg, imm) => {
                let f = |o: u8, a: u8| -> (r: RegOp) ensures r == RegOp::MulRegImm(o, a, imm) { RegOp::MulRegImm(o, a, imm) };
                self.op_reg_fn(out, arg, f);

                proof { assert(shape_un(f, f_ri(40, imm))); }
            }
            SsaOp::DivRegImm(out, arg, imm) => {
                let f = |o: u8, a: u8| -> (r: RegOp) ensures r == RegOp::DivRegImm(o, a, imm) { RegOp::DivRegImm(o, a, imm) };
                self.op_reg_fn(out, arg, f);

                proof { assert(shape_un(f, f_ri(42, imm))); }
            }
            SsaOp::DivImmReg(out, arg, imm) => {
                let f = |o: u8, a: u8| -> (r: RegOp) ensures r == RegOp::DivImmReg(o, a, imm) { RegOp::DivImmReg(o, a, imm) };
                self.op_reg_fn(out, arg, f);

                proof { assert(shape_un(f, f_ir(42, imm))); }
            }
            SsaOp::AtanRegImm(out, arg, imm) => {
                let f = |o: u8, a: u8| -> (r: RegOp) ensures r == RegOp::AtanRegImm(o, a, imm) { RegOp::AtanRegImm(o, a, imm) };
                self.op_reg_fn(out, arg, f);

                proof { assert(shape_un(f, f_ri(28, imm))); }
            }
            SsaOp::AtanImmReg(out, arg, imm) => {
                let f = |o: u8, a: u8| -> (r: RegOp) ensures r == RegOp::AtanImmReg(o, a, imm) { RegOp::AtanImmReg(o, a, imm) };
                self.op_reg_fn(out, arg, f);

                proof { assert(shape_un(f, f_ir(28, imm))); }
            }
            SsaOp::MinRegImm(out, arg, imm) => {
                let f = |o: u8, a: u8| -> (r: RegOp) ensures r == RegOp::MinRegImm(o, a, imm) { RegOp::MinRegImm(o, a, imm) };
                self.op_reg_fn(out, arg, f);

                proof { assert(shape_un(f, f_ri(52, imm))); }
            }
            SsaOp::MaxRegImm(out, arg, imm) => {
                let f = |o: u8, a: u8| -> (r: RegOp) ensures r == RegOp::MaxRegImm(o, a, imm) { RegOp::MaxRegImm(o, a, imm) };
                self.op_reg_fn(out, arg, f);

                proof { assert(shape_un(f, f_ri(54, imm))); }
            }
            SsaOp::CompareRegImm(out, arg, imm) => {
                let f = |o: u8, a: u8| -> (r: RegOp) ensures r == RegOp::CompareRegImm(o, a, imm) { RegOp::CompareRegImm(o, a, imm) };
                self.op_reg_fn(out, arg, f);

                proof { assert(shape_un(f, f_ri(48, imm))); }
            }
            SsaOp::CompareImmReg(out, arg, imm) => {
                let f = |o: u8, a: u8| -> (r: RegOp) ensures r == RegOp::CompareImmReg(o, a, imm) { RegOp::CompareImmReg(o, a, imm) };
                self.op_reg_fn(out, arg, f);

                proof { assert(shape_un(f, f_ir(48, imm))); }
            }
            SsaOp::ModRegImm(out, arg, imm) => {
                let f = |o: u8, a: u8| -> (r: RegOp) ensures r == RegOp::ModRegImm(o, a, imm) { RegOp::ModRegImm(o, a, imm) };
                self.op_reg_fn(out, arg, f);

                proof { assert(shape_un(f, f_ri(46, imm))); }
            }
            SsaOp::ModImmReg(out, arg, imm) => {
                let f = |o: u8, a: u8| -> (r: RegOp) ensures r == RegOp::ModImmReg(o, a, imm) { RegOp::ModImmReg(o, a, imm) };
                self.op_reg_fn(out, arg, f);

                proof { assert(shape_un(f, f_ir(46, imm))); }
            }
            SsaOp::MixRegImm(out, arg, imm) => {
                let f = |o: u8, a: u8| -> (r: RegOp) ensures r == RegOp::MixRegImm(o, a, imm) { RegOp::MixRegImm(o, a, imm) };
                self.op_reg_fn(out, arg, f);

                proof { assert(shape_un(f, f_ri(50, imm))); }
            }
            SsaOp::MixImmReg(out, arg, imm) => {
                let f = |o: u8, a: u8| -> (r: RegOp) ensures r == RegOp::MixImmReg(o, a, imm) { RegOp::MixImmReg(o, a, imm) };
                self.op_reg_fn(out, arg, f);

                proof { assert(shape_un(f, f_ir(50, imm))); }
            }
            SsaOp::AndRegImm(out, arg, imm) => {
                let f = |o: u8, a: u8| -> (r: RegOp) ensures r == RegOp::AndRegImm(o, a, imm) { RegOp::AndRegImm(o, a, imm) };
                self.op_reg_fn(out, arg, f);

                proof { assert(shape_un(f, f_ri(56, imm))); }
            }
            SsaOp::OrRegImm(out, arg, imm) => {
                let f = |o: u8, a: u8| -> (r: RegOp) ensures r == RegOp::OrRegImm(o, a, imm) { RegOp::OrRegImm(o, a, imm) };
                self.op_reg_fn(out, arg, f);

                proof { assert(shape_un(f, f_ri(58, imm))); }
            }
            _ => panic!(),
        }
    }

    fn op_out_only(&mut self, out: u32, op: impl Fn(u8) -> RegOp) 
        requires old(self).wf(), (out as int) < old(self).allocations@.len(), old(self).allocations@[out as int] != UNASSIGNED,
            forall|a: u8| op.requires((a,)),
            forall|a: u8, r: RegOp, sl: int| #[trigger] op.ensures((a,), r) && (a as int) < N ==> #[trigger] op_ok(r, N as int, sl),
        ensures final(self).wf(),
            final(self).allocations@.len() == old(self).allocations@.len(),
            final(self).allocations@[out as int] == UNASSIGNED,
            final(self).out.tape@.len() >= old(self).out.tape@.len(),
            forall|k: int| 0 <= k < old(self).out.tape@.len() ==> #[trigger] final(self).out.tape@[k] == old(self).out.tape@[k],
            forall|s: int| 0 <= s < old(self).allocations@.len() && s != out ==>
                (#[trigger] final(self).allocations@[s] == UNASSIGNED <==> old(self).allocations@[s] == UNASSIGNED),
            forall|c: spec_fn(Seq<f32>) -> f32| #[trigger] shape_out(op, c) ==>
                simf(final(self).allocations@, old(self).allocations@, final(self).out.tape@, old(self).out.tape@.len() as int, final(self).out.tape@.len() as int, fe_def(out as int, c), id_outs()),
    {
        let r_x = self.get_out_reg(out);

        let ghost s1 = *self;
        proof { s1.lemma_reg_unique(out as int); }
        self.out.push(op(r_x));

        let ghost s2 = *self;
        proof { Self::lemma_push_op(s1, s2, s2.out.tape@.last()); }
        self.release_reg(r_x);

        proof {
            let o0 = *old(self);
            let e: Set<int> = Set::empty();
            let lo = o0.out.tape@.len() as int;
            let hi = self.out.tape@.len() as int;
            let mid = s1.out.tape@.len() as int;
            let rop = self.out.tape@[mid];
            assert(op.ensures((r_x,), rop));
            assert forall|c: spec_fn(Seq<f32>) -> f32| #[trigger] shape_out(op, c) implies
                simf(self.allocations@, o0.allocations@, self.out.tape@, lo, hi, fe_def(out as int, c), id_outs()) by {
                lemma_step_def(s1.allocations@, self.out.tape@, mid, r_x, out as int, c);
                lemma_sim_ext(s1.allocations@, o0.allocations@, s1.out.tape@, self.out.tape@, lo, mid, id_env(), id_outs());
                lemma_sim_then(self.allocations@, s1.allocations@, o0.allocations@, self.out.tape@, lo, mid, hi, fe_def(out as int, c), id_outs());
            }
        }
    }

    fn op_copy_imm(&mut self, out: u32, imm: f32) 
        requires old(self).wf(), (out as int) < old(self).allocations@.len(), old(self).allocations@[out as int] != UNASSIGNED,
        ensures final(self).wf(),
            final(self).allocations@.len() == old(self).allocations@.len(),
            final(self).allocations@[out as int] == UNASSIGNED,
            final(self).out.tape@.len() >= old(self).out.tape@.len(),
            forall|k: int| 0 <= k < old(self).out.tape@.len() ==> #[trigger] final(self).out.tape@[k] == old(self).out.tape@[k],
            forall|s: int| 0 <= s < old(self).allocations@.len() && s != out ==>
                (#[trigger] final(self).allocations@[s] == UNASSIGNED <==> old(self).allocations@[s] == UNASSIGNED),
            simf(final(self).allocations@, old(self).allocations@, final(self).out.tape@, old(self).out.tape@.len() as int, final(self).out.tape@.len() as int, fe_def(out as int, c_imm(imm)), id_outs()),
    {
        let f = |o: u8| -> (r: RegOp) ensures r == RegOp::CopyImm(o, imm) { RegOp::CopyImm(o, imm) };
        self.op_out_only(out, f);

        proof { assert(shape_out(f, c_imm(imm))); }
    }

    fn op_input(&mut self, out: u32, i: u32) 
        requires old(self).wf(), (out as int) < old(self).allocations@.len(), old(self).allocations@[out as int] != UNASSIGNED,
        ensures final(self).wf(),
            final(self).allocations@.len() == old(self).allocations@.len(),
            final(self).allocations@[out as int] == UNASSIGNED,
            final(self).out.tape@.len() >= old(self).out.tape@.len(),
            forall|k: int| 0 <= k < old(self).out.tape@.len() ==> #[trigger] final(self).out.tape@[k] == old(self).out.tape@[k],
            forall|s: int| 0 <= s < old(self).allocations@.len() && s != out ==>
                (#[trigger] final(self).allocations@[s] == UNASSIGNED <==> old(self).allocations@[s] == UNASSIGNED),
            simf(final(self).allocations@, old(self).allocations@, final(self).out.tape@, old(self).out.tape@.len() as int, final(self).out.tape@.len() as int, fe_def(out as int, c_inp(i as int)), id_outs()),
    {
        let f = |o: u8| -> (r: RegOp) ensures r == RegOp::Input(o, i) { RegOp::Input(o, i) };
        self.op_out_only(out, f);

        proof { assert(shape_out(f, c_inp(i as int))); }
    }

    fn op_output(&mut self, arg: u32, i: u32) 
        requires old(self).wf(), (arg as int) < old(self).allocations@.len(),
        ensures final(self).wf(),
            final(self).allocations@.len() == old(self).allocations@.len(),
            final(self).allocations@[arg as int] != UNASSIGNED,
            final(self).out.tape@.len() >= old(self).out.tape@.len(),
            forall|k: int| 0 <= k < old(self).out.tape@.len() ==> #[trigger] final(self).out.tape@[k] == old(self).out.tape@[k],
            forall|s: int| 0 <= s < old(self).allocations@.len() && s != arg ==>
                (#[trigger] final(self).allocations@[s] == UNASSIGNED <==> old(self).allocations@[s] == UNASSIGNED),
            simf(final(self).allocations@, old(self).allocations@, final(self).out.tape@, old(self).out.tape@.len() as int, final(self).out.tape@.len() as int, id_env(), fo_output(i as int, arg as int)),
    {
        match self.get_allocation(arg) {
            Allocation::Register(r_y) => {

                let ghost s1 = *self;
                proof { s1.lemma_bound_reg(arg as int); }
                self.out.push(RegOp::Output(r_y, i));

                proof {
                    let o0 = *old(self);
                    let lo = o0.out.tape@.len() as int;
                    Self::lemma_push_op(s1, *self, RegOp::Output(r_y, i));
                    assert(self.out.tape@[lo] == RegOp::Output(r_y, i));
                    lemma_step_output(self.allocations@, self.out.tape@, lo, r_y, i, arg as int);
                }
            }
            Allocation::Memory(m_y) => {

                let ghost s1 = *self;
                proof { s1.lemma_oldest_bound(Set::empty()); }
                let r_a = self.get_register();

                let ghost s2 = *self;
                proof {
                    assert(s2.allocations@[arg as int] == m_y);
                    s2.lemma_mem_unique(arg as int);
                    s2.lemma_not_stale(arg as int, Set::empty());
                }
                self.push_store(r_a, m_y);

                let ghost s3 = *self;
                self.out.push(RegOp::Output(r_a, i));

                let ghost s4 = *self;
                proof { Self::lemma_push_op(s3, s4, RegOp::Output(r_a, i)); }
                self.bind_register(arg, r_a);

                proof {
                    let o0 = *old(self);
                    let e: Set<int> = Set::empty();
                    let lo = o0.out.tape@.len() as int;
                    let hi = self.out.tape@.len() as int;
                    assert(s3.stale_only(e.insert(arg as int)));
                    assert(e.insert(arg as int).remove(arg as int) =~= e);
                    assert(s2.unbound_in(e.insert(r_a as int)));
                    assert(e.insert(r_a as int).remove(r_a as int) =~= e);
                    let mid = s2.out.tape@.len() as int;
                    assert(self.out.tape@[mid] == RegOp::Store(r_a, m_y));
                    assert(self.out.tape@[mid + 1] == RegOp::Output(r_a, i));
                    let a2 = self.allocations@;
                    lemma_step_output(a2, self.out.tape@, mid + 1, r_a, i, arg as int);
                    lemma_step_store(s2.allocations@, self.out.tape@, mid, r_a, m_y, arg as int, N as int);
                    lemma_sim_ext(s2.allocations@, o0.allocations@, s2.out.tape@, self.out.tape@, lo, mid, id_env(), id_outs());
                    lemma_sim_then(a2, s2.allocations@, o0.allocations@, self.out.tape@, lo, mid, mid + 1, id_env(), id_outs());
                    lemma_sim_then(a2, a2, o0.allocations@, self.out.tape@, lo, mid + 1, hi, id_env(), fo_output(i as int, arg as int));
                }
            }
            Allocation::Unassigned => {

                let ghost s1 = *self;
                proof { s1.lemma_oldest_bound(Set::empty()); }
                let r_a = self.get_register();

                let ghost s2 = *self;
                proof { assert(s2.allocations@[arg as int] == UNASSIGNED); }
                self.out.push(RegOp::Output(r_a, i));

                let ghost s4 = *self;
                proof { Self::lemma_push_op(s2, s4, RegOp::Output(r_a, i)); }
                self.bind_register(arg, r_a);

                proof {
                    let o0 = *old(self);
                    let e: Set<int> = Set::empty();
                    let lo = o0.out.tape@.len() as int;
                    let hi = self.out.tape@.len() as int;
                    assert(e.remove(arg as int) =~= e);
                    assert(s2.unbound_in(e.insert(r_a as int)));
                    assert(e.insert(r_a as int).remove(r_a as int) =~= e);
                    let mid = s2.out.tape@.len() as int;
                    assert(self.out.tape@[mid] == RegOp::Output(r_a, i));
                    let a2 = self.allocations@;
                    lemma_step_output(a2, self.out.tape@, mid, r_a, i, arg as int);
                    lemma_sim_drop(a2, arg as int, self.out.tape@, mid);
                    assert(a2.update(arg as int, UNASSIGNED) =~= s2.allocations@);
                    lemma_sim_ext(s2.allocations@, o0.allocations@, s2.out.tape@, self.out.tape@, lo, mid, id_env(), id_outs());
                    lemma_sim_then(a2, s2.allocations@, o0.allocations@, self.out.tape@, lo, mid, mid, id_env(), id_outs());
                    lemma_sim_then(a2, a2, o0.allocations@, self.out.tape@, lo, mid, hi, id_env(), fo_output(i as int, arg as int));
                }
            }
        }
    }
}


struct SsaTape {
    tape: Vec<SsaOp>,
    choice_count: usize,
    output_count: usize,
}
impl SsaTape {
    fn len(&self) -> (r: usize)
        ensures r == self.tape@.len(),
    {
        self.tape.len()
    }
}
impl RegTape {
    fn new<const N: usize>(ssa: &SsaTape) -> (r: Self)
        requires 3 <= N <= 255, ssa.tape@.len() < u32::MAX, ssa_wf(ssa.tape@, ssa.tape@.len() as int),
        ensures
            // the register tape computes exactly what the SSA tape computes, from ANY initial register/memory contents
            forall|st: St, env: Env, inp: Seq<f32>|
                (#[trigger] reg_run_rev(r.tape@, 0, r.tape@.len() as int, st, inp)).outs
                    == (#[trigger] ssa_run_rev(ssa.tape@, 0, ssa.tape@.len() as int, Ss { env: env, outs: st.outs }, inp)).outs,
    {
        let mut alloc = RegisterAllocator::<N>::new(ssa.len());
        // R-iter: `for &op in ssa.iter() { alloc.op(op) }`
        let mut k_: usize = 0;

        let ghost a0 = alloc.allocations@;
        let ghost ops = ssa.tape@;
        proof { lemma_sim_start(a0, alloc.out.tape@, ops); }
        while k_ < ssa.tape.len()
            invariant
                3 <= N <= 255, ops == ssa.tape@, ops.len() < u32::MAX, ssa_wf(ops, ops.len() as int),
                0 <= k_ <= ops.len(),
                alloc.wf(), alloc.allocations@.len() == ops.len(), a0.len() == ops.len(),
                forall|s: int| 0 <= s < a0.len() ==> #[trigger] a0[s] == UNASSIGNED,
                forall|s: int| 0 <= s < ops.len() ==> ((#[trigger] alloc.allocations@[s] != UNASSIGNED) == live(ops, k_ as int).contains(s)),
                simf(alloc.allocations@, a0, alloc.out.tape@, 0, alloc.out.tape@.len() as int, run_fe(ops, k_ as int), run_fo(ops, k_ as int)),
            decreases ops.len() - k_,
         {
            let op = ssa.tape[k_];

            let ghost pre = alloc;
            proof {
                assert(ops[k_ as int] == op);
            }
            alloc.op(op);

            proof {
                let mid = pre.out.tape@.len() as int;
                let hi = alloc.out.tape@.len() as int;
                lemma_sim_ext(pre.allocations@, a0, pre.out.tape@, alloc.out.tape@, 0, mid, run_fe(ops, k_ as int), run_fo(ops, k_ as int));
                lemma_sim_extend(alloc.allocations@, pre.allocations@, a0, alloc.out.tape@, mid, hi, ops, k_ as int);
                assert forall|s: int| 0 <= s < ops.len() implies ((#[trigger] alloc.allocations@[s] != UNASSIGNED) == live(ops, k_ as int + 1).contains(s)) by {
                    lemma_live_step(ops, k_ as int, s);
                }
            }
            k_ += 1;
        }

        proof {
            let n = ops.len() as int;
            let tape = alloc.out.tape@;
            reveal(simf);
            assert forall|st: St, env: Env, inp: Seq<f32>|
                (#[trigger] reg_run_rev(tape, 0, tape.len() as int, st, inp)).outs
                    == (#[trigger] ssa_run_rev(ops, 0, n, Ss { env: env, outs: st.outs }, inp)).outs by {
                assert(agree(alloc.allocations@, st.slots, env)) by {
                    assert forall|s: int| 0 <= s < alloc.allocations@.len() && #[trigger] alloc.allocations@[s] != UNASSIGNED implies st.slots[alloc.allocations@[s] as int] == env[s] by {
                        assert(live(ops, n).contains(s));
                    }
                }
            }
        }
        alloc.finalize()
    }
}
spec fn op_ok(op: RegOp, n: int, slots: int) -> bool {
    match op {
        RegOp::Load(r, m) => (r as int) < n && n <= (m as int) < slots,
        RegOp::Store(r, m) => (r as int) < n && n <= (m as int) < slots,
        RegOp::Output(r, _) => (r as int) < n,
        RegOp::Input(r, _) => (r as int) < n,
        RegOp::CopyImm(r, _) => (r as int) < n,
        RegOp::CopyReg(o, a) | RegOp::NegReg(o, a) | RegOp::AbsReg(o, a) | RegOp::RecipReg(o, a)
        | RegOp::SqrtReg(o, a) | RegOp::SquareReg(o, a) | RegOp::FloorReg(o, a) | RegOp::CeilReg(o, a)
        | RegOp::RoundReg(o, a) | RegOp::SinReg(o, a) | RegOp::CosReg(o, a) | RegOp::TanReg(o, a)
        | RegOp::AsinReg(o, a) | RegOp::AcosReg(o, a) | RegOp::AtanReg(o, a) | RegOp::ExpReg(o, a)
        | RegOp::LnReg(o, a) | RegOp::NotReg(o, a) | RegOp::RandReg(o, a) => (o as int) < n && (a as int) < n,
        RegOp::AddRegImm(o, a, _) | RegOp::MulRegImm(o, a, _) | RegOp::DivRegImm(o, a, _) | RegOp::DivImmReg(o, a, _)
        | RegOp::SubImmReg(o, a, _) | RegOp::SubRegImm(o, a, _) | RegOp::ModRegImm(o, a, _) | RegOp::AtanRegImm(o, a, _)
        | RegOp::CompareRegImm(o, a, _) | RegOp::MixRegImm(o, a, _) | RegOp::MinRegImm(o, a, _) | RegOp::MaxRegImm(o, a, _)
        | RegOp::AndRegImm(o, a, _) | RegOp::OrRegImm(o, a, _) | RegOp::ModImmReg(o, a, _) | RegOp::AtanImmReg(o, a, _)
        | RegOp::CompareImmReg(o, a, _) | RegOp::MixImmReg(o, a, _) => (o as int) < n && (a as int) < n,
        RegOp::ModRegReg(o, a, b) | RegOp::AddRegReg(o, a, b) | RegOp::MulRegReg(o, a, b) | RegOp::DivRegReg(o, a, b)
        | RegOp::SubRegReg(o, a, b) | RegOp::CompareRegReg(o, a, b) | RegOp::AtanRegReg(o, a, b) | RegOp::MixRegReg(o, a, b)
        | RegOp::MinRegReg(o, a, b) | RegOp::MaxRegReg(o, a, b) | RegOp::AndRegReg(o, a, b) | RegOp::OrRegReg(o, a, b)
            => (o as int) < n && (a as int) < n && (b as int) < n,
    }
}


impl<const N: usize> RegisterAllocator<N> {
    spec fn is_mem(a: u32) -> bool { N <= a && a != UNASSIGNED }

    #[verifier::opaque]
    spec fn link_ok(&self) -> bool {
        &&& forall|r: int| 0 <= r < N && #[trigger] self.registers[r] != UNASSIGNED ==>
              (self.registers[r] as int) < self.allocations@.len() && self.allocations@[self.registers[r] as int] == r
        &&& forall|s: int| 0 <= s < self.allocations@.len() && (#[trigger] self.allocations@[s] as int) < N ==>
              self.registers[self.allocations@[s] as int] == s
    }
    #[verifier::opaque]
    spec fn spare_ok(&self) -> bool {
        &&& forall|k: int| 0 <= k < self.spare_registers@.len() ==>
              (#[trigger] self.spare_registers@[k] as int) < N && self.registers[self.spare_registers@[k] as int] == UNASSIGNED
        &&& forall|j: int, k: int| 0 <= j < k < self.spare_registers@.len() ==> self.spare_registers@[j] != self.spare_registers@[k]
    }
    #[verifier::opaque]
    spec fn mem_ok(&self) -> bool {
        &&& forall|s: int| 0 <= s < self.allocations@.len() && Self::is_mem(#[trigger] self.allocations@[s]) ==> self.allocations@[s] < self.out.slot_count
        &&& forall|s: int, t: int| 0 <= s < t < self.allocations@.len() && Self::is_mem(#[trigger] self.allocations@[s]) && Self::is_mem(#[trigger] self.allocations@[t])
              ==> self.allocations@[s] != self.allocations@[t]
        &&& forall|k: int| 0 <= k < self.spare_memory@.len() ==> N <= #[trigger] self.spare_memory@[k] < self.out.slot_count
        &&& forall|j: int, k: int| 0 <= j < k < self.spare_memory@.len() ==> self.spare_memory@[j] != self.spare_memory@[k]
    }
    #[verifier::opaque]
    spec fn slot_ok(&self) -> bool {
        forall|r: u8| (r as int) < N && !(#[trigger] self.spare_registers@.contains(r)) ==> (r as int) < self.out.slot_count
    }
    #[verifier::opaque]
    spec fn tape_ok(&self) -> bool {
        forall|k: int| 0 <= k < self.out.tape@.len() ==> op_ok(#[trigger] self.out.tape@[k], N as int, self.out.slot_count as int)
    }
    /// invariant that holds at every program point inside an `op`
    spec fn wf_mid(&self) -> bool {
        &&& 3 <= N <= 255
        &&& self.allocations@.len() < u32::MAX
        &&& self.register_lru.wf()
        &&& self.link_ok()
        &&& self.spare_ok()
        &&& self.mem_ok()
        &&& self.slot_ok()
        &&& self.tape_ok()
    }
    /// live slots pointing at a memory slot that is on the free list are all in `st`
    #[verifier::opaque]
    spec fn stale_only(&self, st: Set<int>) -> bool {
        forall|s: int, k: int| 0 <= s < self.allocations@.len() && 0 <= k < self.spare_memory@.len()
            && #[trigger] self.allocations@[s] == #[trigger] self.spare_memory@[k] ==> st.contains(s)
    }
    /// every unbound register is on the free list, except those in `f`
    #[verifier::opaque]
    spec fn unbound_in(&self, f: Set<int>) -> bool {
        forall|r: u8| (r as int) < N && #[trigger] self.registers[r as int] == UNASSIGNED ==> self.spare_registers@.contains(r) || f.contains(r as int)
    }
    /// boundary invariant (between two calls of `op`)
    spec fn wf(&self) -> bool {
        self.wf_mid() && self.stale_only(Set::empty()) && self.unbound_in(Set::empty())
    }
    spec fn same_but_lru(&self, o: &Self) -> bool {
        &&& self.allocations@ == o.allocations@
        &&& self.registers@ == o.registers@
        &&& self.spare_registers@ == o.spare_registers@
        &&& self.spare_memory@ == o.spare_memory@
        &&& self.out.tape@ == o.out.tape@
        &&& self.out.slot_count == o.out.slot_count
    }

    // ---------------- fact lemmas (the only places mid-level code looks inside the invariant) -----
    proof fn lemma_reg_unique(&self, s: int)
        requires self.wf_mid(), 0 <= s < self.allocations@.len(), (self.allocations@[s] as int) < N
        ensures self.registers[self.allocations@[s] as int] == s,
            forall|t: int| 0 <= t < self.allocations@.len() && t != s ==> #[trigger] self.allocations@[t] != self.allocations@[s],
    {
        reveal(RegisterAllocator::link_ok);
    }
    proof fn lemma_unbound_unused(&self, r: u8)
        requires self.wf_mid(), (r as int) < N, self.registers[r as int] == UNASSIGNED
        ensures forall|t: int| 0 <= t < self.allocations@.len() ==> #[trigger] self.allocations@[t] != r as u32,
    {
        reveal(RegisterAllocator::link_ok);
    }
    proof fn lemma_mem_unique(&self, s: int)
        requires self.wf_mid(), 0 <= s < self.allocations@.len(), Self::is_mem(self.allocations@[s])
        ensures self.allocations@[s] < self.out.slot_count,
            forall|t: int| 0 <= t < self.allocations@.len() && t != s ==> #[trigger] self.allocations@[t] != self.allocations@[s],
    {
        reveal(RegisterAllocator::mem_ok);
        assert forall|t: int| 0 <= t < self.allocations@.len() && t != s implies #[trigger] self.allocations@[t] != self.allocations@[s] by {
            if self.allocations@[t] == self.allocations@[s] {
                if t < s { assert(Self::is_mem(self.allocations@[t])); } else { assert(Self::is_mem(self.allocations@[t])); }
            }
        }
    }
    proof fn lemma_not_stale(&self, s: int, st: Set<int>)
        requires self.stale_only(st), !st.contains(s), 0 <= s < self.allocations@.len()
        ensures !self.spare_memory@.contains(self.allocations@[s])
    {
        reveal(RegisterAllocator::stale_only);
        if self.spare_memory@.contains(self.allocations@[s]) {
            let k = choose|k: int| 0 <= k < self.spare_memory@.len() && self.spare_memory@[k] == self.allocations@[s];
            assert(self.allocations@[s] == self.spare_memory@[k]);
        }
    }
    proof fn lemma_bound_reg(&self, s: int)
        requires self.wf_mid(), 0 <= s < self.allocations@.len(), (self.allocations@[s] as int) < N
        ensures self.registers[self.allocations@[s] as int] != UNASSIGNED
    {
        reveal(RegisterAllocator::link_ok);
    }
    /// if nothing is on the free list, the LRU's oldest register is bound unless it is one of `f`
    proof fn lemma_oldest_bound(&self, f: Set<int>)
        requires self.wf_mid(), self.unbound_in(f), !f.contains(self.register_lru.order()[N as int - 1] as int)
        ensures self.spare_registers@.len() == 0 ==> self.registers[self.register_lru.order()[N as int - 1] as int] != UNASSIGNED
    {
        reveal(RegisterAllocator::unbound_in);
        self.register_lru.lemma_order_props();
        let r = self.register_lru.order()[N as int - 1];
        if self.spare_registers@.len() == 0 && self.registers[r as int] == UNASSIGNED {
            assert(self.spare_registers@.contains(r) || f.contains(r as int));
        }
    }
    proof fn lemma_push_op(pre: Self, post: Self, r: RegOp)
        requires pre.wf_mid(), post.allocations@ == pre.allocations@, post.registers@ == pre.registers@,
            post.spare_registers@ == pre.spare_registers@, post.spare_memory@ == pre.spare_memory@,
            post.register_lru == pre.register_lru, post.out.slot_count == pre.out.slot_count,
            post.out.tape@ == pre.out.tape@.push(r), op_ok(r, N as int, pre.out.slot_count as int),
        ensures post.wf_mid(),
            forall|f: Set<int>| #[trigger] pre.unbound_in(f) ==> post.unbound_in(f),
            forall|t: Set<int>| #[trigger] pre.stale_only(t) ==> post.stale_only(t),
    {
        reveal(RegisterAllocator::link_ok); reveal(RegisterAllocator::spare_ok); reveal(RegisterAllocator::mem_ok);
        reveal(RegisterAllocator::slot_ok); reveal(RegisterAllocator::tape_ok); reveal(RegisterAllocator::stale_only);
        reveal(RegisterAllocator::unbound_in);
        assert forall|k: int| 0 <= k < post.out.tape@.len() implies op_ok(#[trigger] post.out.tape@[k], N as int, post.out.slot_count as int) by {
            if k < pre.out.tape@.len() { assert(post.out.tape@[k] == pre.out.tape@[k]); }
        }
    }
    proof fn lemma_spare_unbound(&self, r: u8)
        requires self.wf_mid(), self.spare_registers@.contains(r)
        ensures (r as int) < N, self.registers[r as int] == UNASSIGNED
    {
        reveal(RegisterAllocator::spare_ok);
        let k = choose|k: int| 0 <= k < self.spare_registers@.len() && self.spare_registers@[k] == r;
        assert(self.registers[self.spare_registers@[k] as int] == UNASSIGNED);
    }
    proof fn lemma_unbound_eq(&self, f: Set<int>, g: Set<int>)
        requires self.unbound_in(f), f.subset_of(g)
        ensures self.unbound_in(g)
    {
        reveal(RegisterAllocator::unbound_in);
    }
    proof fn lemma_stale_eq(&self, f: Set<int>, g: Set<int>)
        requires self.stale_only(f), f.subset_of(g)
        ensures self.stale_only(g)
    {
        reveal(RegisterAllocator::stale_only);
    }
}

// ---------------- tape semantics (prototype: subset of opcodes) ----------------
uninterp spec fn un_sem(tag: int, a: f32) -> f32;
uninterp spec fn bin_sem(tag: int, a: f32, b: f32) -> f32;

struct St { slots: Map<int, f32>, outs: Map<int, f32> }
type Env = Map<int, f32>;
type FE = spec_fn(Env, Seq<f32>) -> Env;
type FO = spec_fn(Map<int, f32>, Env, Seq<f32>) -> Map<int, f32>;

// (reg_step / ssa_fe / ssa_fo are generated: gen_sem.rs)
/// run ops[lo..hi) from hi-1 down to lo (tapes are stored in reverse evaluation order)
spec fn reg_run_rev(ops: Seq<RegOp>, lo: int, hi: int, st: St, inp: Seq<f32>) -> St
    decreases hi - lo
{
    if hi <= lo { st } else { reg_run_rev(ops, lo, hi - 1, reg_step(ops[hi - 1], st, inp), inp) }
}
spec fn agree(alloc: Seq<u32>, slots: Map<int, f32>, env: Env) -> bool {
    forall|s: int| 0 <= s < alloc.len() && #[trigger] alloc[s] != UNASSIGNED ==> slots[alloc[s] as int] == env[s]
}
#[verifier::opaque]
spec fn simf(a_new: Seq<u32>, a_old: Seq<u32>, tape: Seq<RegOp>, lo: int, hi: int, fe: FE, fo: FO) -> bool {
    forall|st: St, env: Env, inp: Seq<f32>| #[trigger] agree(a_new, st.slots, env) ==>
        agree(a_old, (#[trigger] reg_run_rev(tape, lo, hi, st, inp)).slots, fe(env, inp))
        && reg_run_rev(tape, lo, hi, st, inp).outs == fo(st.outs, env, inp)
}
spec fn id_env() -> FE { |e: Env, i: Seq<f32>| e }
spec fn id_outs() -> FO { |o: Map<int, f32>, e: Env, i: Seq<f32>| o }
spec fn sim(a_new: Seq<u32>, a_old: Seq<u32>, tape: Seq<RegOp>, lo: int, hi: int) -> bool {
    simf(a_new, a_old, tape, lo, hi, id_env(), id_outs())
}
spec fn fe_def(out: int, c: spec_fn(Seq<f32>) -> f32) -> FE { |e: Env, i: Seq<f32>| e.insert(out, c(i)) }
spec fn fe_un(out: int, arg: int, f: spec_fn(f32) -> f32) -> FE { |e: Env, i: Seq<f32>| e.insert(out, f(e[arg])) }
spec fn fo_output(k: int, arg: int) -> FO { |o: Map<int, f32>, e: Env, i: Seq<f32>| o.insert(k, e[arg]) }

spec fn shape_out<F: Fn(u8) -> RegOp>(op: F, c: spec_fn(Seq<f32>) -> f32) -> bool {
    forall|a: u8, r: RegOp, st: St, inp: Seq<f32>| #[trigger] op.ensures((a,), r) ==>
        #[trigger] reg_step(r, st, inp) == (St { slots: st.slots.insert(a as int, c(inp)), outs: st.outs })
}
spec fn shape_un<F: Fn(u8, u8) -> RegOp>(op: F, f: spec_fn(f32) -> f32) -> bool {
    forall|a: u8, b: u8, r: RegOp, st: St, inp: Seq<f32>| #[trigger] op.ensures((a, b), r) ==>
        #[trigger] reg_step(r, st, inp) == (St { slots: st.slots.insert(a as int, f(st.slots[b as int])), outs: st.outs })
}

spec fn shape_bin<F: Fn(u8, u8, u8) -> RegOp>(op: F, g: spec_fn(f32, f32) -> f32) -> bool {
    forall|a: u8, b: u8, c: u8, r: RegOp, st: St, inp: Seq<f32>| #[trigger] op.ensures((a, b, c), r) ==>
        #[trigger] reg_step(r, st, inp) == (St { slots: st.slots.insert(a as int, g(st.slots[b as int], st.slots[c as int])), outs: st.outs })
}
spec fn fe_bin(out: int, lhs: int, rhs: int, g: spec_fn(f32, f32) -> f32) -> FE { |e: Env, i: Seq<f32>| e.insert(out, g(e[lhs], e[rhs])) }

/// general single-op step: the op at tape[k] writes rx := g(st[ry], st[rz]); before it (in evaluation order) the
/// operands live at ry / rz (allocation a_new); after it `out` lives in rx and everything else is where a_old says
proof fn lemma_step_bin(a_new: Seq<u32>, a_old: Seq<u32>, tape: Seq<RegOp>, k: int, rx: u8, ry: u8, rz: u8,
                        out: int, lhs: int, rhs: int, g: spec_fn(f32, f32) -> f32)
    requires a_new.len() == a_old.len(), 0 <= out < a_old.len(), 0 <= lhs < a_old.len(), 0 <= rhs < a_old.len(), out != lhs, out != rhs,
        a_old[out] == rx as u32,
        forall|t: int| 0 <= t < a_old.len() && t != out ==> #[trigger] a_old[t] != rx as u32,
        a_new[lhs] == ry as u32, a_new[rhs] == rz as u32,
        forall|s: int| 0 <= s < a_old.len() && s != out && #[trigger] a_old[s] != UNASSIGNED ==> a_new[s] == a_old[s],
        forall|st: St, inp: Seq<f32>| #[trigger] reg_step(tape[k], st, inp) == (St { slots: st.slots.insert(rx as int, g(st.slots[ry as int], st.slots[rz as int])), outs: st.outs }),
    ensures simf(a_new, a_old, tape, k, k + 1, fe_bin(out, lhs, rhs, g), id_outs())
{
    reveal(simf);
    assert forall|st: St, env: Env, inp: Seq<f32>| #[trigger] agree(a_new, st.slots, env) implies
        agree(a_old, (#[trigger] reg_run_rev(tape, k, k + 1, st, inp)).slots, fe_bin(out, lhs, rhs, g)(env, inp))
        && reg_run_rev(tape, k, k + 1, st, inp).outs == id_outs()(st.outs, env, inp) by {
        lemma_run_one(tape, k, st, inp);
        let st1 = reg_step(tape[k], st, inp);
        assert(a_new[lhs] != UNASSIGNED && a_new[rhs] != UNASSIGNED);
        assert(st.slots[ry as int] == env[lhs]);
        assert(st.slots[rz as int] == env[rhs]);
        assert forall|s: int| 0 <= s < a_old.len() && #[trigger] a_old[s] != UNASSIGNED implies st1.slots[a_old[s] as int] == fe_bin(out, lhs, rhs, g)(env, inp)[s] by {
            if s != out { assert(a_new[s] == a_old[s]); assert(a_new[s] != UNASSIGNED); }
        }
    }
}
proof fn lemma_run_split(ops: Seq<RegOp>, lo: int, mid: int, hi: int, st: St, inp: Seq<f32>)
    requires lo <= mid <= hi
    ensures reg_run_rev(ops, lo, hi, st, inp) == reg_run_rev(ops, lo, mid, reg_run_rev(ops, mid, hi, st, inp), inp)
    decreases hi - mid
{
    if hi > mid { lemma_run_split(ops, lo, mid, hi - 1, reg_step(ops[hi - 1], st, inp), inp); }
}
proof fn lemma_run_ext(a: Seq<RegOp>, b: Seq<RegOp>, lo: int, hi: int, st: St, inp: Seq<f32>)
    requires 0 <= lo <= hi <= a.len(), hi <= b.len(), forall|k: int| lo <= k < hi ==> a[k] == b[k]
    ensures reg_run_rev(a, lo, hi, st, inp) == reg_run_rev(b, lo, hi, st, inp)
    decreases hi - lo
{
    if hi > lo { lemma_run_ext(a, b, lo, hi - 1, reg_step(a[hi - 1], st, inp), inp); }
}
proof fn lemma_run_one(ops: Seq<RegOp>, k: int, st: St, inp: Seq<f32>)
    ensures reg_run_rev(ops, k, k + 1, st, inp) == reg_step(ops[k], st, inp), reg_run_rev(ops, k, k, st, inp) == st
{
    assert(reg_run_rev(ops, k, k, reg_step(ops[k], st, inp), inp) == reg_step(ops[k], st, inp));
}
proof fn lemma_sim_refl(a: Seq<u32>, tape: Seq<RegOp>, lo: int)
    ensures sim(a, a, tape, lo, lo)
{
    reveal(simf);
}
proof fn lemma_sim_ext(a1: Seq<u32>, a0: Seq<u32>, t1: Seq<RegOp>, t2: Seq<RegOp>, lo: int, hi: int, fe: FE, fo: FO)
    requires simf(a1, a0, t1, lo, hi, fe, fo), 0 <= lo <= hi <= t1.len(), hi <= t2.len(), forall|k: int| lo <= k < hi ==> t1[k] == t2[k]
    ensures simf(a1, a0, t2, lo, hi, fe, fo)
{
    reveal(simf);
    assert forall|st: St, env: Env, inp: Seq<f32>| #[trigger] agree(a1, st.slots, env) implies
        agree(a0, (#[trigger] reg_run_rev(t2, lo, hi, st, inp)).slots, fe(env, inp))
        && reg_run_rev(t2, lo, hi, st, inp).outs == fo(st.outs, env, inp) by {
        lemma_run_ext(t1, t2, lo, hi, st, inp);
        assert(agree(a0, reg_run_rev(t1, lo, hi, st, inp).slots, fe(env, inp)));
    }
}
/// the ops in [mid,hi) run first (they were pushed last); then the identity-prefix [lo,mid)
proof fn lemma_sim_then(a2: Seq<u32>, a1: Seq<u32>, a0: Seq<u32>, tape: Seq<RegOp>, lo: int, mid: int, hi: int, fe: FE, fo: FO)
    requires simf(a2, a1, tape, mid, hi, fe, fo), sim(a1, a0, tape, lo, mid), lo <= mid <= hi
    ensures simf(a2, a0, tape, lo, hi, fe, fo)
{
    reveal(simf);
    assert forall|st: St, env: Env, inp: Seq<f32>| #[trigger] agree(a2, st.slots, env) implies
        agree(a0, (#[trigger] reg_run_rev(tape, lo, hi, st, inp)).slots, fe(env, inp))
        && reg_run_rev(tape, lo, hi, st, inp).outs == fo(st.outs, env, inp) by {
        let r1 = reg_run_rev(tape, mid, hi, st, inp);
        assert(agree(a1, r1.slots, fe(env, inp)));
        lemma_run_split(tape, lo, mid, hi, st, inp);
        let r0 = reg_run_rev(tape, lo, mid, r1, inp);
        assert(agree(a0, r0.slots, id_env()(fe(env, inp), inp)));
        assert(r0.outs == id_outs()(r1.outs, fe(env, inp), inp));
    }
}
proof fn lemma_simf_fe_ext(a1: Seq<u32>, a0: Seq<u32>, tape: Seq<RegOp>, lo: int, hi: int, fe1: FE, fe2: FE, fo1: FO, fo2: FO)
    requires simf(a1, a0, tape, lo, hi, fe1, fo1),
        forall|e: Env, i: Seq<f32>| #[trigger] fe1(e, i) == fe2(e, i),
        forall|o: Map<int, f32>, e: Env, i: Seq<f32>| #[trigger] fo1(o, e, i) == fo2(o, e, i),
    ensures simf(a1, a0, tape, lo, hi, fe2, fo2)
{
    reveal(simf);
    assert forall|st: St, env: Env, inp: Seq<f32>| #[trigger] agree(a1, st.slots, env) implies
        agree(a0, (#[trigger] reg_run_rev(tape, lo, hi, st, inp)).slots, fe2(env, inp))
        && reg_run_rev(tape, lo, hi, st, inp).outs == fo2(st.outs, env, inp) by {
        assert(fe1(env, inp) == fe2(env, inp));
        assert(fo1(st.outs, env, inp) == fo2(st.outs, env, inp));
    }
}
proof fn lemma_sim_drop(a: Seq<u32>, s0: int, tape: Seq<RegOp>, k: int)
    requires 0 <= s0 < a.len()
    ensures sim(a, a.update(s0, UNASSIGNED), tape, k, k)
{
    reveal(simf);
    let a1 = a.update(s0, UNASSIGNED);
    assert forall|st: St, env: Env, inp: Seq<f32>| #[trigger] agree(a, st.slots, env) implies
        agree(a1, (#[trigger] reg_run_rev(tape, k, k, st, inp)).slots, id_env()(env, inp))
        && reg_run_rev(tape, k, k, st, inp).outs == id_outs()(st.outs, env, inp) by {
        assert forall|s: int| 0 <= s < a1.len() && #[trigger] a1[s] != UNASSIGNED implies st.slots[a1[s] as int] == env[s] by {
            assert(s != s0); assert(a[s] == a1[s]);
        }
    }
}
proof fn lemma_step_un_reg(a_old: Seq<u32>, tape: Seq<RegOp>, k: int, rx: u8, ry: u8, out: int, arg: int, f: spec_fn(f32) -> f32)
    requires 0 <= out < a_old.len(), 0 <= arg < a_old.len(), out != arg, a_old[out] == rx as u32, a_old[arg] == ry as u32, rx != ry,
        forall|t: int| 0 <= t < a_old.len() && t != out ==> #[trigger] a_old[t] != rx as u32,
        forall|st: St, inp: Seq<f32>| #[trigger] reg_step(tape[k], st, inp) == (St { slots: st.slots.insert(rx as int, f(st.slots[ry as int])), outs: st.outs }),
    ensures simf(a_old.update(out, UNASSIGNED), a_old, tape, k, k + 1, fe_un(out, arg, f), id_outs())
{
    reveal(simf);
    let a_new = a_old.update(out, UNASSIGNED);
    assert forall|st: St, env: Env, inp: Seq<f32>| #[trigger] agree(a_new, st.slots, env) implies
        agree(a_old, (#[trigger] reg_run_rev(tape, k, k + 1, st, inp)).slots, fe_un(out, arg, f)(env, inp))
        && reg_run_rev(tape, k, k + 1, st, inp).outs == id_outs()(st.outs, env, inp) by {
        lemma_run_one(tape, k, st, inp);
        let st1 = reg_step(tape[k], st, inp);
        assert(a_new[arg] == ry as u32);
        assert(st.slots[ry as int] == env[arg]);
        assert forall|s: int| 0 <= s < a_old.len() && #[trigger] a_old[s] != UNASSIGNED implies st1.slots[a_old[s] as int] == fe_un(out, arg, f)(env, inp)[s] by {
            if s != out { assert(a_new[s] == a_old[s]); }
        }
    }
}
proof fn lemma_step_un_self(a_old: Seq<u32>, tape: Seq<RegOp>, k: int, rx: u8, out: int, arg: int, f: spec_fn(f32) -> f32)
    requires 0 <= out < a_old.len(), 0 <= arg < a_old.len(), out != arg, a_old[out] == rx as u32, a_old[arg] == UNASSIGNED,
        forall|t: int| 0 <= t < a_old.len() && t != out ==> #[trigger] a_old[t] != rx as u32,
        forall|st: St, inp: Seq<f32>| #[trigger] reg_step(tape[k], st, inp) == (St { slots: st.slots.insert(rx as int, f(st.slots[rx as int])), outs: st.outs }),
    ensures simf(a_old.update(out, UNASSIGNED).update(arg, rx as u32), a_old, tape, k, k + 1, fe_un(out, arg, f), id_outs())
{
    reveal(simf);
    let a_new = a_old.update(out, UNASSIGNED).update(arg, rx as u32);
    assert forall|st: St, env: Env, inp: Seq<f32>| #[trigger] agree(a_new, st.slots, env) implies
        agree(a_old, (#[trigger] reg_run_rev(tape, k, k + 1, st, inp)).slots, fe_un(out, arg, f)(env, inp))
        && reg_run_rev(tape, k, k + 1, st, inp).outs == id_outs()(st.outs, env, inp) by {
        lemma_run_one(tape, k, st, inp);
        let st1 = reg_step(tape[k], st, inp);
        assert(a_new[arg] == rx as u32);
        assert(st.slots[rx as int] == env[arg]);
        assert forall|s: int| 0 <= s < a_old.len() && #[trigger] a_old[s] != UNASSIGNED implies st1.slots[a_old[s] as int] == fe_un(out, arg, f)(env, inp)[s] by {
            if s != out { assert(s != arg); assert(a_new[s] == a_old[s]); }
        }
    }
}
// ---- single-op steps (sequence-level, no allocator context) ----
proof fn lemma_step_load(a_old: Seq<u32>, tape: Seq<RegOp>, k: int, reg: u8, m: u32, e: int)
    requires 0 <= e < a_old.len(), a_old[e] == reg as u32, tape[k] == RegOp::Load(reg, m), m != UNASSIGNED,
        forall|t: int| 0 <= t < a_old.len() && t != e ==> #[trigger] a_old[t] != reg as u32,
    ensures sim(a_old.update(e, m), a_old, tape, k, k + 1)
{
    reveal(simf);
    let a_new = a_old.update(e, m);
    assert forall|st: St, env: Env, inp: Seq<f32>| #[trigger] agree(a_new, st.slots, env) implies
        agree(a_old, (#[trigger] reg_run_rev(tape, k, k + 1, st, inp)).slots, id_env()(env, inp))
        && reg_run_rev(tape, k, k + 1, st, inp).outs == id_outs()(st.outs, env, inp) by {
        lemma_run_one(tape, k, st, inp);
        let st1 = reg_step(tape[k], st, inp);
        assert forall|s: int| 0 <= s < a_old.len() && #[trigger] a_old[s] != UNASSIGNED implies st1.slots[a_old[s] as int] == env[s] by {
            if s == e { assert(a_new[e] == m); } else { assert(a_new[s] == a_old[s]); }
        }
    }
}
/// Store(r, m) followed (in allocation terms) by binding slot s to r instead of m
proof fn lemma_step_store(a_old: Seq<u32>, tape: Seq<RegOp>, k: int, r: u8, m: u32, s0: int, n: int)
    requires 0 <= s0 < a_old.len(), a_old[s0] == m, tape[k] == RegOp::Store(r, m), (r as int) < n <= m, m != UNASSIGNED,
        forall|t: int| 0 <= t < a_old.len() && t != s0 ==> #[trigger] a_old[t] != m,
    ensures sim(a_old.update(s0, r as u32), a_old, tape, k, k + 1)
{
    reveal(simf);
    let a_new = a_old.update(s0, r as u32);
    assert forall|st: St, env: Env, inp: Seq<f32>| #[trigger] agree(a_new, st.slots, env) implies
        agree(a_old, (#[trigger] reg_run_rev(tape, k, k + 1, st, inp)).slots, id_env()(env, inp))
        && reg_run_rev(tape, k, k + 1, st, inp).outs == id_outs()(st.outs, env, inp) by {
        lemma_run_one(tape, k, st, inp);
        let st1 = reg_step(tape[k], st, inp);
        assert forall|s: int| 0 <= s < a_old.len() && #[trigger] a_old[s] != UNASSIGNED implies st1.slots[a_old[s] as int] == env[s] by {
            if s == s0 { assert(a_new[s0] == r as u32); } else { assert(a_new[s] == a_old[s]); }
        }
    }
}
proof fn lemma_step_output(a: Seq<u32>, tape: Seq<RegOp>, k: int, r: u8, i: u32, s0: int)
    requires 0 <= s0 < a.len(), a[s0] == r as u32, tape[k] == RegOp::Output(r, i),
    ensures simf(a, a, tape, k, k + 1, id_env(), fo_output(i as int, s0))
{
    reveal(simf);
    assert forall|st: St, env: Env, inp: Seq<f32>| #[trigger] agree(a, st.slots, env) implies
        agree(a, (#[trigger] reg_run_rev(tape, k, k + 1, st, inp)).slots, id_env()(env, inp))
        && reg_run_rev(tape, k, k + 1, st, inp).outs == fo_output(i as int, s0)(st.outs, env, inp) by {
        lemma_run_one(tape, k, st, inp);
        assert(a[s0] != UNASSIGNED);
    }
}
/// an op that defines `out` in register rx from nothing but the inputs; afterwards (in reverse) out is dead
proof fn lemma_step_def(a_old: Seq<u32>, tape: Seq<RegOp>, k: int, rx: u8, out: int, c: spec_fn(Seq<f32>) -> f32)
    requires 0 <= out < a_old.len(), a_old[out] == rx as u32,
        forall|t: int| 0 <= t < a_old.len() && t != out ==> #[trigger] a_old[t] != rx as u32,
        forall|st: St, inp: Seq<f32>| #[trigger] reg_step(tape[k], st, inp) == (St { slots: st.slots.insert(rx as int, c(inp)), outs: st.outs }),
    ensures simf(a_old.update(out, UNASSIGNED), a_old, tape, k, k + 1, fe_def(out, c), id_outs())
{
    reveal(simf);
    let a_new = a_old.update(out, UNASSIGNED);
    assert forall|st: St, env: Env, inp: Seq<f32>| #[trigger] agree(a_new, st.slots, env) implies
        agree(a_old, (#[trigger] reg_run_rev(tape, k, k + 1, st, inp)).slots, fe_def(out, c)(env, inp))
        && reg_run_rev(tape, k, k + 1, st, inp).outs == id_outs()(st.outs, env, inp) by {
        lemma_run_one(tape, k, st, inp);
        let st1 = reg_step(tape[k], st, inp);
        assert forall|s: int| 0 <= s < a_old.len() && #[trigger] a_old[s] != UNASSIGNED implies st1.slots[a_old[s] as int] == fe_def(out, c)(env, inp)[s] by {
            if s != out { assert(a_new[s] == a_old[s]); }
        }
    }
}

impl<const N: usize> Lru<N> {
    proof fn lemma_order_props(&self)
        requires self.wf()
        ensures self.order().len() == N, 1 <= N <= 255,
            forall|k: int| 0 <= k < N ==> (#[trigger] self.order()[k] as int) < N,
            forall|j: int, k: int| 0 <= j < k < N ==> self.order()[j] != self.order()[k],
            self.order()[0] == self.head,
    {
        let o = self.order();
        assert(self.wf_with(o));
    }
}
proof fn lemma_pop_is_poke(o: Seq<u8>, n: int)
    requires o.len() == n, n >= 1, forall|j: int, k: int| 0 <= j < k < n ==> o[j] != o[k],
    ensures seq![o[n - 1]] + o.subrange(0, n - 1) == poke_order(o, o[n - 1])
{
    let i = o[n - 1];
    assert(o.index_of(i) == n - 1) by {
        let k = o.index_of(i);
        assert(o.contains(i)) by { assert(o[n-1] == i); }
    }
    assert(seq![o[n - 1]] + o.subrange(0, n - 1) =~= poke_order(o, i));
}

proof fn lemma_op_ok_mono(op: RegOp, n: int, s1: int, s2: int)
    requires op_ok(op, n, s1), s1 <= s2
    ensures op_ok(op, n, s2)
{}
proof fn lemma_drop_last_contains<T>(s: Seq<T>, x: T)
    requires s.len() > 0, s.contains(x), x != s.last()
    ensures s.drop_last().contains(x)
{
    let k = choose|k: int| 0 <= k < s.len() && s[k] == x;
    assert(k < s.len() - 1);
    assert(s.drop_last()[k] == x);
}
// ---- generated from the enum variant list (base name -> tag) ----
spec fn f_un(tag: int) -> spec_fn(f32) -> f32 { |v: f32| un_sem(tag, v) }
spec fn f_id() -> spec_fn(f32) -> f32 { |v: f32| v }
spec fn f_ri(tag: int, imm: f32) -> spec_fn(f32) -> f32 { |v: f32| bin_sem(tag, v, imm) }
spec fn f_ir(tag: int, imm: f32) -> spec_fn(f32) -> f32 { |v: f32| bin_sem(tag, imm, v) }
spec fn g_bin(tag: int) -> spec_fn(f32, f32) -> f32 { |a: f32, b: f32| bin_sem(tag, a, b) }
spec fn c_imm(imm: f32) -> spec_fn(Seq<f32>) -> f32 { |i: Seq<f32>| imm }
spec fn c_inp(k: int) -> spec_fn(Seq<f32>) -> f32 { |i: Seq<f32>| i[k] }
spec fn reg_step(op: RegOp, st: St, inp: Seq<f32>) -> St {
    match op {
        RegOp::Output(r, i) => St { slots: st.slots, outs: st.outs.insert(i as int, st.slots[r as int]) },
        RegOp::Input(r, i) => St { slots: st.slots.insert(r as int, c_inp(i as int)(inp)), outs: st.outs },
        RegOp::CopyReg(o, a) => St { slots: st.slots.insert(o as int, f_id()(st.slots[a as int])), outs: st.outs },
        RegOp::CopyImm(r, c) => St { slots: st.slots.insert(r as int, c_imm(c)(inp)), outs: st.outs },
        RegOp::NegReg(o, a) => St { slots: st.slots.insert(o as int, f_un(3)(st.slots[a as int])), outs: st.outs },
        RegOp::AbsReg(o, a) => St { slots: st.slots.insert(o as int, f_un(5)(st.slots[a as int])), outs: st.outs },
        RegOp::RecipReg(o, a) => St { slots: st.slots.insert(o as int, f_un(7)(st.slots[a as int])), outs: st.outs },
        RegOp::SqrtReg(o, a) => St { slots: st.slots.insert(o as int, f_un(9)(st.slots[a as int])), outs: st.outs },
        RegOp::SquareReg(o, a) => St { slots: st.slots.insert(o as int, f_un(11)(st.slots[a as int])), outs: st.outs },
        RegOp::FloorReg(o, a) => St { slots: st.slots.insert(o as int, f_un(13)(st.slots[a as int])), outs: st.outs },
        RegOp::CeilReg(o, a) => St { slots: st.slots.insert(o as int, f_un(15)(st.slots[a as int])), outs: st.outs },
        RegOp::RoundReg(o, a) => St { slots: st.slots.insert(o as int, f_un(17)(st.slots[a as int])), outs: st.outs },
        RegOp::SinReg(o, a) => St { slots: st.slots.insert(o as int, f_un(19)(st.slots[a as int])), outs: st.outs },
        RegOp::CosReg(o, a) => St { slots: st.slots.insert(o as int, f_un(21)(st.slots[a as int])), outs: st.outs },
        RegOp::TanReg(o, a) => St { slots: st.slots.insert(o as int, f_un(23)(st.slots[a as int])), outs: st.outs },
        RegOp::AsinReg(o, a) => St { slots: st.slots.insert(o as int, f_un(25)(st.slots[a as int])), outs: st.outs },
        RegOp::AcosReg(o, a) => St { slots: st.slots.insert(o as int, f_un(27)(st.slots[a as int])), outs: st.outs },
        RegOp::AtanReg(o, a) => St { slots: st.slots.insert(o as int, f_un(29)(st.slots[a as int])), outs: st.outs },
        RegOp::ExpReg(o, a) => St { slots: st.slots.insert(o as int, f_un(31)(st.slots[a as int])), outs: st.outs },
        RegOp::LnReg(o, a) => St { slots: st.slots.insert(o as int, f_un(33)(st.slots[a as int])), outs: st.outs },
        RegOp::NotReg(o, a) => St { slots: st.slots.insert(o as int, f_un(35)(st.slots[a as int])), outs: st.outs },
        RegOp::RandReg(o, a) => St { slots: st.slots.insert(o as int, f_un(37)(st.slots[a as int])), outs: st.outs },
        RegOp::AddRegImm(o, a, imm) => St { slots: st.slots.insert(o as int, f_ri(38, imm)(st.slots[a as int])), outs: st.outs },
        RegOp::MulRegImm(o, a, imm) => St { slots: st.slots.insert(o as int, f_ri(40, imm)(st.slots[a as int])), outs: st.outs },
        RegOp::DivRegImm(o, a, imm) => St { slots: st.slots.insert(o as int, f_ri(42, imm)(st.slots[a as int])), outs: st.outs },
        RegOp::DivImmReg(o, a, imm) => St { slots: st.slots.insert(o as int, f_ir(42, imm)(st.slots[a as int])), outs: st.outs },
        RegOp::SubImmReg(o, a, imm) => St { slots: st.slots.insert(o as int, f_ir(44, imm)(st.slots[a as int])), outs: st.outs },
        RegOp::SubRegImm(o, a, imm) => St { slots: st.slots.insert(o as int, f_ri(44, imm)(st.slots[a as int])), outs: st.outs },
        RegOp::ModRegReg(o, a, b) => St { slots: st.slots.insert(o as int, g_bin(46)(st.slots[a as int], st.slots[b as int])), outs: st.outs },
        RegOp::ModRegImm(o, a, imm) => St { slots: st.slots.insert(o as int, f_ri(46, imm)(st.slots[a as int])), outs: st.outs },
        RegOp::AtanRegImm(o, a, imm) => St { slots: st.slots.insert(o as int, f_ri(28, imm)(st.slots[a as int])), outs: st.outs },
        RegOp::CompareRegImm(o, a, imm) => St { slots: st.slots.insert(o as int, f_ri(48, imm)(st.slots[a as int])), outs: st.outs },
        RegOp::MixRegImm(o, a, imm) => St { slots: st.slots.insert(o as int, f_ri(50, imm)(st.slots[a as int])), outs: st.outs },
        RegOp::MinRegImm(o, a, imm) => St { slots: st.slots.insert(o as int, f_ri(52, imm)(st.slots[a as int])), outs: st.outs },
        RegOp::MaxRegImm(o, a, imm) => St { slots: st.slots.insert(o as int, f_ri(54, imm)(st.slots[a as int])), outs: st.outs },
        RegOp::AndRegImm(o, a, imm) => St { slots: st.slots.insert(o as int, f_ri(56, imm)(st.slots[a as int])), outs: st.outs },
        RegOp::OrRegImm(o, a, imm) => St { slots: st.slots.insert(o as int, f_ri(58, imm)(st.slots[a as int])), outs: st.outs },
        RegOp::ModImmReg(o, a, imm) => St { slots: st.slots.insert(o as int, f_ir(46, imm)(st.slots[a as int])), outs: st.outs },
        RegOp::AtanImmReg(o, a, imm) => St { slots: st.slots.insert(o as int, f_ir(28, imm)(st.slots[a as int])), outs: st.outs },
        RegOp::CompareImmReg(o, a, imm) => St { slots: st.slots.insert(o as int, f_ir(48, imm)(st.slots[a as int])), outs: st.outs },
        RegOp::MixImmReg(o, a, imm) => St { slots: st.slots.insert(o as int, f_ir(50, imm)(st.slots[a as int])), outs: st.outs },
        RegOp::AddRegReg(o, a, b) => St { slots: st.slots.insert(o as int, g_bin(38)(st.slots[a as int], st.slots[b as int])), outs: st.outs },
        RegOp::MulRegReg(o, a, b) => St { slots: st.slots.insert(o as int, g_bin(40)(st.slots[a as int], st.slots[b as int])), outs: st.outs },
        RegOp::DivRegReg(o, a, b) => St { slots: st.slots.insert(o as int, g_bin(42)(st.slots[a as int], st.slots[b as int])), outs: st.outs },
        RegOp::SubRegReg(o, a, b) => St { slots: st.slots.insert(o as int, g_bin(44)(st.slots[a as int], st.slots[b as int])), outs: st.outs },
        RegOp::CompareRegReg(o, a, b) => St { slots: st.slots.insert(o as int, g_bin(48)(st.slots[a as int], st.slots[b as int])), outs: st.outs },
        RegOp::AtanRegReg(o, a, b) => St { slots: st.slots.insert(o as int, g_bin(28)(st.slots[a as int], st.slots[b as int])), outs: st.outs },
        RegOp::MixRegReg(o, a, b) => St { slots: st.slots.insert(o as int, g_bin(50)(st.slots[a as int], st.slots[b as int])), outs: st.outs },
        RegOp::MinRegReg(o, a, b) => St { slots: st.slots.insert(o as int, g_bin(52)(st.slots[a as int], st.slots[b as int])), outs: st.outs },
        RegOp::MaxRegReg(o, a, b) => St { slots: st.slots.insert(o as int, g_bin(54)(st.slots[a as int], st.slots[b as int])), outs: st.outs },
        RegOp::AndRegReg(o, a, b) => St { slots: st.slots.insert(o as int, g_bin(56)(st.slots[a as int], st.slots[b as int])), outs: st.outs },
        RegOp::OrRegReg(o, a, b) => St { slots: st.slots.insert(o as int, g_bin(58)(st.slots[a as int], st.slots[b as int])), outs: st.outs },
        RegOp::Load(r, m) => St { slots: st.slots.insert(r as int, st.slots[m as int]), outs: st.outs },
        RegOp::Store(r, m) => St { slots: st.slots.insert(m as int, st.slots[r as int]), outs: st.outs },
    }
}
spec fn ssa_fe(op: SsaOp) -> FE {
    match op {
        SsaOp::Output(a, i) => id_env(),
        SsaOp::Input(o, i) => fe_def(o as int, c_inp(i as int)),
        SsaOp::CopyReg(o, a) => fe_un(o as int, a as int, f_id()),
        SsaOp::CopyImm(o, c) => fe_def(o as int, c_imm(c)),
        SsaOp::NegReg(o, a) => fe_un(o as int, a as int, f_un(3)),
        SsaOp::AbsReg(o, a) => fe_un(o as int, a as int, f_un(5)),
        SsaOp::RecipReg(o, a) => fe_un(o as int, a as int, f_un(7)),
        SsaOp::SqrtReg(o, a) => fe_un(o as int, a as int, f_un(9)),
        SsaOp::SquareReg(o, a) => fe_un(o as int, a as int, f_un(11)),
        SsaOp::FloorReg(o, a) => fe_un(o as int, a as int, f_un(13)),
        SsaOp::CeilReg(o, a) => fe_un(o as int, a as int, f_un(15)),
        SsaOp::RoundReg(o, a) => fe_un(o as int, a as int, f_un(17)),
        SsaOp::SinReg(o, a) => fe_un(o as int, a as int, f_un(19)),
        SsaOp::CosReg(o, a) => fe_un(o as int, a as int, f_un(21)),
        SsaOp::TanReg(o, a) => fe_un(o as int, a as int, f_un(23)),
        SsaOp::AsinReg(o, a) => fe_un(o as int, a as int, f_un(25)),
        SsaOp::AcosReg(o, a) => fe_un(o as int, a as int, f_un(27)),
        SsaOp::AtanReg(o, a) => fe_un(o as int, a as int, f_un(29)),
        SsaOp::ExpReg(o, a) => fe_un(o as int, a as int, f_un(31)),
        SsaOp::LnReg(o, a) => fe_un(o as int, a as int, f_un(33)),
        SsaOp::NotReg(o, a) => fe_un(o as int, a as int, f_un(35)),
        SsaOp::RandReg(o, a) => fe_un(o as int, a as int, f_un(37)),
        SsaOp::AddRegImm(o, a, imm) => fe_un(o as int, a as int, f_ri(38, imm)),
        SsaOp::MulRegImm(o, a, imm) => fe_un(o as int, a as int, f_ri(40, imm)),
        SsaOp::DivRegImm(o, a, imm) => fe_un(o as int, a as int, f_ri(42, imm)),
        SsaOp::DivImmReg(o, a, imm) => fe_un(o as int, a as int, f_ir(42, imm)),
        SsaOp::SubImmReg(o, a, imm) => fe_un(o as int, a as int, f_ir(44, imm)),
        SsaOp::SubRegImm(o, a, imm) => fe_un(o as int, a as int, f_ri(44, imm)),
        SsaOp::ModRegReg(o, a, b) => fe_bin(o as int, a as int, b as int, g_bin(46)),
        SsaOp::ModRegImm(o, a, imm) => fe_un(o as int, a as int, f_ri(46, imm)),
        SsaOp::AtanRegImm(o, a, imm) => fe_un(o as int, a as int, f_ri(28, imm)),
        SsaOp::CompareRegImm(o, a, imm) => fe_un(o as int, a as int, f_ri(48, imm)),
        SsaOp::MixRegImm(o, a, imm) => fe_un(o as int, a as int, f_ri(50, imm)),
        SsaOp::MinRegImm(o, a, imm) => fe_un(o as int, a as int, f_ri(52, imm)),
        SsaOp::MaxRegImm(o, a, imm) => fe_un(o as int, a as int, f_ri(54, imm)),
        SsaOp::AndRegImm(o, a, imm) => fe_un(o as int, a as int, f_ri(56, imm)),
        SsaOp::OrRegImm(o, a, imm) => fe_un(o as int, a as int, f_ri(58, imm)),
        SsaOp::ModImmReg(o, a, imm) => fe_un(o as int, a as int, f_ir(46, imm)),
        SsaOp::AtanImmReg(o, a, imm) => fe_un(o as int, a as int, f_ir(28, imm)),
        SsaOp::CompareImmReg(o, a, imm) => fe_un(o as int, a as int, f_ir(48, imm)),
        SsaOp::MixImmReg(o, a, imm) => fe_un(o as int, a as int, f_ir(50, imm)),
        SsaOp::AddRegReg(o, a, b) => fe_bin(o as int, a as int, b as int, g_bin(38)),
        SsaOp::MulRegReg(o, a, b) => fe_bin(o as int, a as int, b as int, g_bin(40)),
        SsaOp::DivRegReg(o, a, b) => fe_bin(o as int, a as int, b as int, g_bin(42)),
        SsaOp::SubRegReg(o, a, b) => fe_bin(o as int, a as int, b as int, g_bin(44)),
        SsaOp::CompareRegReg(o, a, b) => fe_bin(o as int, a as int, b as int, g_bin(48)),
        SsaOp::AtanRegReg(o, a, b) => fe_bin(o as int, a as int, b as int, g_bin(28)),
        SsaOp::MixRegReg(o, a, b) => fe_bin(o as int, a as int, b as int, g_bin(50)),
        SsaOp::MinRegReg(o, a, b) => fe_bin(o as int, a as int, b as int, g_bin(52)),
        SsaOp::MaxRegReg(o, a, b) => fe_bin(o as int, a as int, b as int, g_bin(54)),
        SsaOp::AndRegReg(o, a, b) => fe_bin(o as int, a as int, b as int, g_bin(56)),
        SsaOp::OrRegReg(o, a, b) => fe_bin(o as int, a as int, b as int, g_bin(58)),
    }
}
spec fn ssa_fo(op: SsaOp) -> FO {
    match op {
        SsaOp::Output(a, i) => fo_output(i as int, a as int),
        _ => id_outs(),
    }
}
spec fn ssa_kind(op: SsaOp) -> int {
    match op {
        SsaOp::Output(..) => 0,
        SsaOp::Input(..) => 1,
        SsaOp::CopyReg(..) => 2,
        SsaOp::CopyImm(..) => 1,
        SsaOp::NegReg(..) => 2,
        SsaOp::AbsReg(..) => 2,
        SsaOp::RecipReg(..) => 2,
        SsaOp::SqrtReg(..) => 2,
        SsaOp::SquareReg(..) => 2,
        SsaOp::FloorReg(..) => 2,
        SsaOp::CeilReg(..) => 2,
        SsaOp::RoundReg(..) => 2,
        SsaOp::SinReg(..) => 2,
        SsaOp::CosReg(..) => 2,
        SsaOp::TanReg(..) => 2,
        SsaOp::AsinReg(..) => 2,
        SsaOp::AcosReg(..) => 2,
        SsaOp::AtanReg(..) => 2,
        SsaOp::ExpReg(..) => 2,
        SsaOp::LnReg(..) => 2,
        SsaOp::NotReg(..) => 2,
        SsaOp::RandReg(..) => 2,
        SsaOp::AddRegImm(..) => 3,
        SsaOp::MulRegImm(..) => 3,
        SsaOp::DivRegImm(..) => 3,
        SsaOp::DivImmReg(..) => 3,
        SsaOp::SubImmReg(..) => 3,
        SsaOp::SubRegImm(..) => 3,
        SsaOp::ModRegReg(..) => 4,
        SsaOp::ModRegImm(..) => 3,
        SsaOp::AtanRegImm(..) => 3,
        SsaOp::CompareRegImm(..) => 3,
        SsaOp::MixRegImm(..) => 3,
        SsaOp::MinRegImm(..) => 3,
        SsaOp::MaxRegImm(..) => 3,
        SsaOp::AndRegImm(..) => 3,
        SsaOp::OrRegImm(..) => 3,
        SsaOp::ModImmReg(..) => 3,
        SsaOp::AtanImmReg(..) => 3,
        SsaOp::CompareImmReg(..) => 3,
        SsaOp::MixImmReg(..) => 3,
        SsaOp::AddRegReg(..) => 4,
        SsaOp::MulRegReg(..) => 4,
        SsaOp::DivRegReg(..) => 4,
        SsaOp::SubRegReg(..) => 4,
        SsaOp::CompareRegReg(..) => 4,
        SsaOp::AtanRegReg(..) => 4,
        SsaOp::MixRegReg(..) => 4,
        SsaOp::MinRegReg(..) => 4,
        SsaOp::MaxRegReg(..) => 4,
        SsaOp::AndRegReg(..) => 4,
        SsaOp::OrRegReg(..) => 4,
    }
}
spec fn ssa_o(op: SsaOp) -> int {
    match op {
        SsaOp::Output(a, _) => a as int,
        SsaOp::Input(o, _) => o as int,
        SsaOp::CopyReg(o, _) => o as int,
        SsaOp::CopyImm(o, _) => o as int,
        SsaOp::NegReg(o, _) => o as int,
        SsaOp::AbsReg(o, _) => o as int,
        SsaOp::RecipReg(o, _) => o as int,
        SsaOp::SqrtReg(o, _) => o as int,
        SsaOp::SquareReg(o, _) => o as int,
        SsaOp::FloorReg(o, _) => o as int,
        SsaOp::CeilReg(o, _) => o as int,
        SsaOp::RoundReg(o, _) => o as int,
        SsaOp::SinReg(o, _) => o as int,
        SsaOp::CosReg(o, _) => o as int,
        SsaOp::TanReg(o, _) => o as int,
        SsaOp::AsinReg(o, _) => o as int,
        SsaOp::AcosReg(o, _) => o as int,
        SsaOp::AtanReg(o, _) => o as int,
        SsaOp::ExpReg(o, _) => o as int,
        SsaOp::LnReg(o, _) => o as int,
        SsaOp::NotReg(o, _) => o as int,
        SsaOp::RandReg(o, _) => o as int,
        SsaOp::AddRegImm(o, _, _) => o as int,
        SsaOp::MulRegImm(o, _, _) => o as int,
        SsaOp::DivRegImm(o, _, _) => o as int,
        SsaOp::DivImmReg(o, _, _) => o as int,
        SsaOp::SubImmReg(o, _, _) => o as int,
        SsaOp::SubRegImm(o, _, _) => o as int,
        SsaOp::ModRegReg(o, _, _) => o as int,
        SsaOp::ModRegImm(o, _, _) => o as int,
        SsaOp::AtanRegImm(o, _, _) => o as int,
        SsaOp::CompareRegImm(o, _, _) => o as int,
        SsaOp::MixRegImm(o, _, _) => o as int,
        SsaOp::MinRegImm(o, _, _) => o as int,
        SsaOp::MaxRegImm(o, _, _) => o as int,
        SsaOp::AndRegImm(o, _, _) => o as int,
        SsaOp::OrRegImm(o, _, _) => o as int,
        SsaOp::ModImmReg(o, _, _) => o as int,
        SsaOp::AtanImmReg(o, _, _) => o as int,
        SsaOp::CompareImmReg(o, _, _) => o as int,
        SsaOp::MixImmReg(o, _, _) => o as int,
        SsaOp::AddRegReg(o, _, _) => o as int,
        SsaOp::MulRegReg(o, _, _) => o as int,
        SsaOp::DivRegReg(o, _, _) => o as int,
        SsaOp::SubRegReg(o, _, _) => o as int,
        SsaOp::CompareRegReg(o, _, _) => o as int,
        SsaOp::AtanRegReg(o, _, _) => o as int,
        SsaOp::MixRegReg(o, _, _) => o as int,
        SsaOp::MinRegReg(o, _, _) => o as int,
        SsaOp::MaxRegReg(o, _, _) => o as int,
        SsaOp::AndRegReg(o, _, _) => o as int,
        SsaOp::OrRegReg(o, _, _) => o as int,
    }
}
spec fn ssa_a(op: SsaOp) -> int {
    match op {
        SsaOp::CopyReg(_, a) => a as int,
        SsaOp::NegReg(_, a) => a as int,
        SsaOp::AbsReg(_, a) => a as int,
        SsaOp::RecipReg(_, a) => a as int,
        SsaOp::SqrtReg(_, a) => a as int,
        SsaOp::SquareReg(_, a) => a as int,
        SsaOp::FloorReg(_, a) => a as int,
        SsaOp::CeilReg(_, a) => a as int,
        SsaOp::RoundReg(_, a) => a as int,
        SsaOp::SinReg(_, a) => a as int,
        SsaOp::CosReg(_, a) => a as int,
        SsaOp::TanReg(_, a) => a as int,
        SsaOp::AsinReg(_, a) => a as int,
        SsaOp::AcosReg(_, a) => a as int,
        SsaOp::AtanReg(_, a) => a as int,
        SsaOp::ExpReg(_, a) => a as int,
        SsaOp::LnReg(_, a) => a as int,
        SsaOp::NotReg(_, a) => a as int,
        SsaOp::RandReg(_, a) => a as int,
        SsaOp::AddRegImm(_, a, _) => a as int,
        SsaOp::MulRegImm(_, a, _) => a as int,
        SsaOp::DivRegImm(_, a, _) => a as int,
        SsaOp::DivImmReg(_, a, _) => a as int,
        SsaOp::SubImmReg(_, a, _) => a as int,
        SsaOp::SubRegImm(_, a, _) => a as int,
        SsaOp::ModRegReg(_, a, _) => a as int,
        SsaOp::ModRegImm(_, a, _) => a as int,
        SsaOp::AtanRegImm(_, a, _) => a as int,
        SsaOp::CompareRegImm(_, a, _) => a as int,
        SsaOp::MixRegImm(_, a, _) => a as int,
        SsaOp::MinRegImm(_, a, _) => a as int,
        SsaOp::MaxRegImm(_, a, _) => a as int,
        SsaOp::AndRegImm(_, a, _) => a as int,
        SsaOp::OrRegImm(_, a, _) => a as int,
        SsaOp::ModImmReg(_, a, _) => a as int,
        SsaOp::AtanImmReg(_, a, _) => a as int,
        SsaOp::CompareImmReg(_, a, _) => a as int,
        SsaOp::MixImmReg(_, a, _) => a as int,
        SsaOp::AddRegReg(_, a, _) => a as int,
        SsaOp::MulRegReg(_, a, _) => a as int,
        SsaOp::DivRegReg(_, a, _) => a as int,
        SsaOp::SubRegReg(_, a, _) => a as int,
        SsaOp::CompareRegReg(_, a, _) => a as int,
        SsaOp::AtanRegReg(_, a, _) => a as int,
        SsaOp::MixRegReg(_, a, _) => a as int,
        SsaOp::MinRegReg(_, a, _) => a as int,
        SsaOp::MaxRegReg(_, a, _) => a as int,
        SsaOp::AndRegReg(_, a, _) => a as int,
        SsaOp::OrRegReg(_, a, _) => a as int,
        _ => 0,
    }
}
spec fn ssa_b(op: SsaOp) -> int {
    match op {
        SsaOp::ModRegReg(_, _, b) => b as int,
        SsaOp::AddRegReg(_, _, b) => b as int,
        SsaOp::MulRegReg(_, _, b) => b as int,
        SsaOp::DivRegReg(_, _, b) => b as int,
        SsaOp::SubRegReg(_, _, b) => b as int,
        SsaOp::CompareRegReg(_, _, b) => b as int,
        SsaOp::AtanRegReg(_, _, b) => b as int,
        SsaOp::MixRegReg(_, _, b) => b as int,
        SsaOp::MinRegReg(_, _, b) => b as int,
        SsaOp::MaxRegReg(_, _, b) => b as int,
        SsaOp::AndRegReg(_, _, b) => b as int,
        SsaOp::OrRegReg(_, _, b) => b as int,
        _ => 0,
    }
}
spec fn new_live(op: SsaOp, was: bool, s: int) -> bool {
    let k = ssa_kind(op);
    if k == 0 { s == ssa_o(op) || was }
    else if k == 1 { s != ssa_o(op) && was }
    else if k == 2 || k == 3 { s == ssa_a(op) || (s != ssa_o(op) && was) }
    else { s == ssa_a(op) || s == ssa_b(op) || (s != ssa_o(op) && was) }
}
proof fn lemma_live_step(ops: Seq<SsaOp>, j: int, s: int)
    requires 0 <= j < ops.len()
    ensures live(ops, j + 1).contains(s) == new_live(ops[j], live(ops, j).contains(s), s)
{}
impl<const N: usize> RegisterAllocator<N> {
    /// precondition of lowering one SSA op (total mode)
    spec fn op_pre(&self, op: SsaOp) -> bool {
        let len = self.allocations@.len() as int;
        let k = ssa_kind(op);
        &&& 0 <= ssa_o(op) < len
        &&& k >= 1 ==> self.allocations@[ssa_o(op)] != UNASSIGNED
        &&& k >= 2 ==> 0 <= ssa_a(op) < len && ssa_a(op) != ssa_o(op)
        &&& k == 4 ==> 0 <= ssa_b(op) < len && ssa_b(op) != ssa_o(op)
    }
    spec fn op_post(&self, pre: &Self, op: SsaOp) -> bool {
        &&& self.wf()
        &&& self.allocations@.len() == pre.allocations@.len()
        &&& self.out.tape@.len() >= pre.out.tape@.len()
        &&& forall|k: int| 0 <= k < pre.out.tape@.len() ==> #[trigger] self.out.tape@[k] == pre.out.tape@[k]
        &&& simf(self.allocations@, pre.allocations@, self.out.tape@, pre.out.tape@.len() as int, self.out.tape@.len() as int, ssa_fe(op), ssa_fo(op))
        &&& forall|s: int| 0 <= s < pre.allocations@.len() ==>
                ((#[trigger] self.allocations@[s] != UNASSIGNED) == new_live(op, pre.allocations@[s] != UNASSIGNED, s))
    }
}

// ---------------- whole-tape semantics and the top theorem ----------------
struct Ss { env: Env, outs: Map<int, f32> }
spec fn ssa_step(op: SsaOp, s: Ss, inp: Seq<f32>) -> Ss {
    Ss { env: ssa_fe(op)(s.env, inp), outs: ssa_fo(op)(s.outs, s.env, inp) }
}
/// run ops[lo..hi) from hi-1 down to lo (SSA tapes are stored root-first)
spec fn ssa_run_rev(ops: Seq<SsaOp>, lo: int, hi: int, s: Ss, inp: Seq<f32>) -> Ss
    decreases hi - lo
{
    if hi <= lo { s } else { ssa_run_rev(ops, lo, hi - 1, ssa_step(ops[hi - 1], s, inp), inp) }
}
spec fn run_fe(ops: Seq<SsaOp>, j: int) -> FE {
    |e: Env, i: Seq<f32>| ssa_run_rev(ops, 0, j, Ss { env: e, outs: Map::empty() }, i).env
}
spec fn run_fo(ops: Seq<SsaOp>, j: int) -> FO {
    |o: Map<int, f32>, e: Env, i: Seq<f32>| ssa_run_rev(ops, 0, j, Ss { env: e, outs: o }, i).outs
}
/// the environment part of a run does not depend on the outputs accumulated so far
proof fn lemma_env_indep(ops: Seq<SsaOp>, j: int, e: Env, o1: Map<int, f32>, o2: Map<int, f32>, inp: Seq<f32>)
    requires 0 <= j
    ensures ssa_run_rev(ops, 0, j, Ss { env: e, outs: o1 }, inp).env == ssa_run_rev(ops, 0, j, Ss { env: e, outs: o2 }, inp).env
    decreases j
{
    if j > 0 {
        let s1 = ssa_step(ops[j - 1], Ss { env: e, outs: o1 }, inp);
        let s2 = ssa_step(ops[j - 1], Ss { env: e, outs: o2 }, inp);
        lemma_env_indep(ops, j - 1, s1.env, s1.outs, s2.outs, inp);
    }
}
/// slots that are live (bound in the allocator) after lowering ops[0..j)
spec fn live(ops: Seq<SsaOp>, j: int) -> Set<int>
    decreases j
{
    if j <= 0 { Set::empty() } else {
        let op = ops[j - 1];
        let l = live(ops, j - 1);
        let k = ssa_kind(op);
        if k == 0 { l.insert(ssa_o(op)) }
        else if k == 1 { l.remove(ssa_o(op)) }
        else if k == 2 || k == 3 { l.remove(ssa_o(op)).insert(ssa_a(op)) }
        else { l.remove(ssa_o(op)).insert(ssa_a(op)).insert(ssa_b(op)) }
    }
}
/// well-formed SSA tape of `n` slots: every definition is of a currently-live slot distinct from its
/// arguments, all indices are in range, and nothing is live before the first evaluated op
spec fn ssa_wf(ops: Seq<SsaOp>, n: int) -> bool {
    &&& forall|j: int| 0 <= j < ops.len() ==> {
            let op = #[trigger] ops[j];
            let k = ssa_kind(op);
            &&& 0 <= ssa_o(op) < n
            &&& k >= 1 ==> live(ops, j).contains(ssa_o(op))
            &&& k >= 2 ==> 0 <= ssa_a(op) < n && ssa_a(op) != ssa_o(op)
            &&& k == 4 ==> 0 <= ssa_b(op) < n && ssa_b(op) != ssa_o(op)
        }
    &&& live(ops, ops.len() as int) =~= Set::empty()
}
proof fn lemma_sim_comp(a2: Seq<u32>, a1: Seq<u32>, a0: Seq<u32>, tape: Seq<RegOp>, lo: int, mid: int, hi: int,
                        fe2: FE, fo2: FO, fe1: FE, fo1: FO, fe: FE, fo: FO)
    requires simf(a2, a1, tape, mid, hi, fe2, fo2), simf(a1, a0, tape, lo, mid, fe1, fo1), lo <= mid <= hi,
        forall|e: Env, i: Seq<f32>| #[trigger] fe(e, i) == fe1(fe2(e, i), i),
        forall|o: Map<int, f32>, e: Env, i: Seq<f32>| #[trigger] fo(o, e, i) == fo1(fo2(o, e, i), fe2(e, i), i),
    ensures simf(a2, a0, tape, lo, hi, fe, fo)
{
    reveal(simf);
    assert forall|st: St, env: Env, inp: Seq<f32>| #[trigger] agree(a2, st.slots, env) implies
        agree(a0, (#[trigger] reg_run_rev(tape, lo, hi, st, inp)).slots, fe(env, inp))
        && reg_run_rev(tape, lo, hi, st, inp).outs == fo(st.outs, env, inp) by {
        let r1 = reg_run_rev(tape, mid, hi, st, inp);
        assert(agree(a1, r1.slots, fe2(env, inp)));
        lemma_run_split(tape, lo, mid, hi, st, inp);
        let r0 = reg_run_rev(tape, lo, mid, r1, inp);
        assert(agree(a0, r0.slots, fe1(fe2(env, inp), inp)));
        assert(fe(env, inp) == fe1(fe2(env, inp), inp));
        assert(fo(st.outs, env, inp) == fo1(fo2(st.outs, env, inp), fe2(env, inp), inp));
    }
}
/// one more SSA op processed: compose the whole-prefix simulation with the step simulation
proof fn lemma_sim_extend(a2: Seq<u32>, a1: Seq<u32>, a0: Seq<u32>, tape: Seq<RegOp>, mid: int, hi: int, ops: Seq<SsaOp>, j: int)
    requires 0 <= j < ops.len(), 0 <= mid <= hi,
        simf(a2, a1, tape, mid, hi, ssa_fe(ops[j]), ssa_fo(ops[j])),
        simf(a1, a0, tape, 0, mid, run_fe(ops, j), run_fo(ops, j)),
    ensures simf(a2, a0, tape, 0, hi, run_fe(ops, j + 1), run_fo(ops, j + 1))
{
    let fe2 = ssa_fe(ops[j]); let fo2 = ssa_fo(ops[j]);
    let fe1 = run_fe(ops, j); let fo1 = run_fo(ops, j);
    let fe = run_fe(ops, j + 1); let fo = run_fo(ops, j + 1);
    assert forall|e: Env, i: Seq<f32>| #[trigger] fe(e, i) == fe1(fe2(e, i), i) by {
        let s0 = Ss { env: e, outs: Map::empty() };
        let s1 = ssa_step(ops[j], s0, i);
        assert(ssa_run_rev(ops, 0, j + 1, s0, i) == ssa_run_rev(ops, 0, j, s1, i));
        lemma_env_indep(ops, j, s1.env, s1.outs, Map::empty(), i);
    }
    assert forall|o: Map<int, f32>, e: Env, i: Seq<f32>| #[trigger] fo(o, e, i) == fo1(fo2(o, e, i), fe2(e, i), i) by {
        let s0 = Ss { env: e, outs: o };
        let s1 = ssa_step(ops[j], s0, i);
        assert(ssa_run_rev(ops, 0, j + 1, s0, i) == ssa_run_rev(ops, 0, j, s1, i));
    }
    lemma_sim_comp(a2, a1, a0, tape, 0, mid, hi, fe2, fo2, fe1, fo1, fe, fo);
}
proof fn lemma_sim_start(a: Seq<u32>, tape: Seq<RegOp>, ops: Seq<SsaOp>)
    ensures simf(a, a, tape, 0, 0, run_fe(ops, 0), run_fo(ops, 0))
{
    reveal(simf);
}

proof fn lemma_poke_head(o: Seq<u8>, i: u8)
    requires o.len() > 0
    ensures poke_order(o, i).len() == o.len(), poke_order(o, i)[0] == i
{}

proof fn lemma_poke_second(o: Seq<u8>, i: u8)
    requires o.len() >= 2, o[0] != i, o.contains(i)
    ensures poke_order(o, i)[1] == o[0]
{
    let idx = o.index_of(i);
    assert(o[idx] == i);
}

} // verus!
fn main() {}
