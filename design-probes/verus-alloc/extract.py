#!/usr/bin/env python3
"""Prototype extractor for alloc.rs -> single Verus file (design probe, not framework)."""
import re, sys

SRC = '/repo/fidget-core/src/compiler/alloc.rs'
src = open(SRC).read()

# ---- cut: from `enum Allocation` derive to end of file
start = src.index('#[derive(Copy, Clone, Debug)]\nenum Allocation')
body = src[start:]

# ---- drop rules
def strip_comments(s):
    out = []
    for line in s.split('\n'):
        t = line.strip()
        if t.startswith('///') or t.startswith('//'):
            continue
        # trailing comments
        if '//' in line and '"' not in line:
            line = line[:line.index('//')].rstrip()
        out.append(line)
    return '\n'.join(out)

body = strip_comments(body)
body = body.replace('#[derive(Copy, Clone, Debug)]', '#[derive(Copy, Clone)]')
body = re.sub(r'#\[inline(\(always\))?\]\n\s*', '', body)
body = re.sub(r'\bpub fn\b', 'fn', body)
body = re.sub(r'\bpub struct\b', 'struct', body)
# panic!/assert! format args
body = re.sub(r'panic!\("[^"]*"\)', 'panic!()', body)
body = re.sub(r'assert_eq!\(([^,;]+), ([^;]+?)\);', r'assert!(\1 == \2);', body)

# ---- function splitter (brace matching)
def find_fn(s, name):
    m = re.search(r'\n(\s*)fn %s\b' % re.escape(name), s)
    assert m, name
    i = m.start() + 1
    j = s.index('{', m.end())
    # skip where-clauses etc: first '{' after signature at depth 0 of parens
    depth = 0
    k = j
    while True:
        if s[k] == '{': depth += 1
        elif s[k] == '}':
            depth -= 1
            if depth == 0: break
        k += 1
    return i, j, k + 1   # [i, k+1) is whole fn; s[j] is the opening brace

def get_fn(s, name):
    i, j, k = find_fn(s, name)
    return s[i:j], s[j:k]

def replace_fn(s, name, new_text):
    i, j, k = find_fn(s, name)
    return s[:i] + new_text + s[k:]

# ---- R-table
ARM = re.compile(r'SsaOp::(\w+)\(([^)]*)\)\s*=>\s*\{?\s*\(([^()]*?),\s*RegOp::(\w+)\s*\)\s*\}?,?', re.S)

def parse_table(fn_body):
    m = re.search(r'let \(([^)]*)\):\s*\(([^;]*?)\)\s*=\s*match op\s*\{(.*?)\n\s*\};', fn_body, re.S)
    assert m
    arms = ARM.findall(m.group(3))
    return m, arms

def ctor_closure(ctor, params, extra=()):
    ps = ', '.join('%s: u8' % p for p in params)
    args = ', '.join(list(params) + list(extra))
    return '|%s| -> (r: RegOp) ensures r == RegOp::%s(%s) { RegOp::%s(%s) }' % (ps, ctor, args, ctor, args)

# op_reg
sig, fb = get_fn(body, 'op_reg')
m, arms = parse_table(fb)
lines = ['    fn op_reg(&mut self, op: SsaOp) {', '        match op {']
for ssa, pats, binds, reg in arms:
    a = [x.strip() for x in pats.split(',')]
    b = [x.strip() for x in binds.split(',')]
    assert a == b, (a, b)
    lines.append('            SsaOp::%s(%s) => {\n                let f = %s;\n                self.op_reg_fn(%s, f);\n            }' % (ssa, pats, ctor_closure(reg, ('o', 'a')), ', '.join(b)))
lines += ['            _ => panic!(),', '        }', '    }']
body = replace_fn(body, 'op_reg', '\n'.join(lines))
n_unary = len(arms); ARMS_UN=[a[0] for a in arms]

# op_reg_imm
sig, fb = get_fn(body, 'op_reg_imm')
m, arms = parse_table(fb)
lines = ['    fn op_reg_imm(&mut self, op: SsaOp) {', '        match op {']
for ssa, pats, binds, reg in arms:
    a = [x.strip() for x in pats.split(',')]
    b = [x.strip() for x in binds.split(',')]
    assert a == b, (a, b)
    lines.append('            SsaOp::%s(%s) => {\n                let f = %s;\n                self.op_reg_fn(%s, %s, f);\n            }' % (ssa, pats, ctor_closure(reg, ('o', 'a'), (b[2],)), b[0], b[1]))
lines += ['            _ => panic!(),', '        }', '    }']
body = replace_fn(body, 'op_reg_imm', '\n'.join(lines))
n_imm = len(arms); ARMS_IMM=[a[0] for a in arms]

# op_reg_reg: split into dispatch + continuation
sig, fb = get_fn(body, 'op_reg_reg')
m, arms = parse_table(fb)
rest = fb[m.end():]          # continuation text up to the closing brace of fn
lines = ['    fn op_reg_reg(&mut self, op: SsaOp) {', '        match op {']
for ssa, pats, binds, reg in arms:
    a = [x.strip() for x in pats.split(',')]
    b = [x.strip() for x in binds.split(',')]
    assert a == b, (a, b)
    lines.append('            SsaOp::%s(%s) => {\n                let f = %s;\n                self.op_reg_reg_k(%s, f);\n            }' % (ssa, pats, ctor_closure(reg, ('o', 'a', 'b')), ', '.join(b)))
lines += ['            _ => panic!(),', '        }', '    }', '',
          '    fn op_reg_reg_k(&mut self, out: u32, lhs: u32, rhs: u32, op: impl Fn(u8, u8, u8) -> RegOp) {' + rest]
body = replace_fn(body, 'op_reg_reg', '\n'.join(lines))
n_bin = len(arms); ARMS_RR=[a[0] for a in arms]

# closures with a single ctor application in op_out_only callers
body = body.replace('self.op_out_only(out, |out| RegOp::CopyImm(out, imm));',
    'let f = |o: u8| -> (r: RegOp) ensures r == RegOp::CopyImm(o, imm) { RegOp::CopyImm(o, imm) };\n        self.op_out_only(out, f);')
body = body.replace('self.op_out_only(out, |out| RegOp::Input(out, i));',
    'let f = |o: u8| -> (r: RegOp) ensures r == RegOp::Input(o, i) { RegOp::Input(o, i) };\n        self.op_out_only(out, f);')

# constructors with iterator adapters: external_body (assumed contract injected later)
for nm in ('new', 'empty', 'reset', 'finalize'):
    i, j, k = find_fn(body, nm)
    body = body[:i] + '    #[verifier::external_body]\n' + body[i:]

import json
json.dump({'op_reg': ARMS_UN, 'op_reg_imm': ARMS_IMM, 'op_reg_reg': ARMS_RR}, open('/verif/design-probes/verus-alloc/arms.json','w'))
sys.stderr.write('tables: unary=%d imm=%d bin=%d\n' % (n_unary, n_imm, n_bin))
print(body)
