use vstd::prelude::*;
verus! {
#[verifier::external_body] fn fneg(a: f32) -> f32 { -a }
#[derive(Copy, Clone)]
enum Choice { Unknown = 0, Left = 1, Right = 2, Both = 3 }
#[derive(Copy, Clone)]
struct Interval { lower: f32, upper: f32 }
#[derive(Copy, Clone)]
enum Quadrant { Q0, Q1, Q2, Q3 }
mod rng { use vstd::prelude::*; verus!{ #[verifier::external_body] pub fn mix(a: u32, b: u32) -> u32 { 0 } #[verifier::external_body] pub fn rand(a: u32) -> f32 { 0.0 } } }
const PI: f32 = 3.14159265358979323846264338327950288_f32;
const TAU: f32 = 6.28318530717958647692528676655900577_f32;
impl Interval {
    fn new(lower: f32, upper: f32) -> Self {
        assert!(upper >= lower || (lower.is_nan() && upper.is_nan()));
        Self { lower, upper }
    }
    fn lower(&self) -> f32 {
        self.lower
    }
    fn upper(&self) -> f32 {
        self.upper
    }
    fn contains(&self, v: f32) -> bool {
        v >= self.lower && v <= self.upper
    }
    fn has_nan(&self) -> bool {
        self.lower.is_nan() || self.upper.is_nan()
    }
    fn abs(self) -> Self {
        if self.lower < 0.0 {
            if self.upper > 0.0 {
                Interval::new(0.0, self.upper.max(fneg(self.lower)))
            } else {
                Interval::new(fneg(self.upper), fneg(self.lower))
            }
        } else {
            self
        }
    }
    fn square(self) -> Self {
        if self.upper < 0.0 {
            Interval::new(self.upper.powi(2), self.lower.powi(2))
        } else if self.lower > 0.0 {
            Interval::new(self.lower.powi(2), self.upper.powi(2))
        } else if self.has_nan() {
            f32::NAN.into()
        } else {
            Interval::new(0.0, self.lower.abs().max(self.upper.abs()).powi(2))
        }
    }

    fn quadrant(angle: f32) -> Quadrant {
        match (angle * 2.0 / PI).floor().rem_euclid(4.0) as u8 {
            0 => Quadrant::Q0,
            1 => Quadrant::Q1,
            2 => Quadrant::Q2,
            3 => Quadrant::Q3,
            _ => unreachable!(),
        }
    }

    fn compare<T: Into<Self>, U: Into<Self>>(lhs: T, rhs: U) -> Self {
        let lhs = lhs.into();
        let rhs = rhs.into();
        if lhs.has_nan() || rhs.has_nan() {
            f32::NAN.into()
        } else if lhs.upper() < rhs.lower() {
            Interval::from(-1.0)
        } else if lhs.lower() > rhs.upper() {
            Interval::from(1.0)
        } else if lhs.lower() == lhs.upper()
            && rhs.lower() == rhs.upper()
            && lhs.lower() == rhs.lower()
        {
            Interval::new(0.0, 0.0)
        } else {
            Interval::new(-1.0, 1.0)
        }
    }

    fn sin(self) -> Self {
        if self.has_nan() {
            f32::NAN.into()
        } else if self.width() >= TAU {
            Interval::new(-1.0, 1.0)
        } else if self.lower() == self.upper() {
            self.lower.sin().into()
        } else {
            use Quadrant::*;
            let lower_quadrant = Self::quadrant(self.lower);
            let upper_quadrant = Self::quadrant(self.upper);
            let d = self.width();
            match (lower_quadrant, upper_quadrant) {
                (Q0, Q0) | (Q1, Q1) | (Q2, Q2) | (Q3, Q3) if d >= PI => {
                    Interval::new(-1.0, 1.0)
                }
                (Q1, Q1) | (Q2, Q2) => {
                    Interval::new(self.upper.sin(), self.lower.sin())
                }
                (Q0, Q0) | (Q3, Q3) => {
                    Interval::new(self.lower.sin(), self.upper.sin())
                }
                (Q3, Q0) => {
                    if d >= PI {
                        Interval::new(-1.0, 1.0) // diameter >= 3*PI/2
                    } else {
                        Interval::new(self.lower.sin(), self.upper.sin())
                    }
                }
                (Q1, Q2) => {
                    if d >= PI {
                        Interval::new(-1.0, 1.0) // diameter >= 3*PI/2
                    } else {
                        Interval::new(self.upper.sin(), self.lower.sin())
                    }
                }
                (Q0 | Q3, Q1 | Q2) => {
                    Interval::new(self.lower.sin().min(self.upper.sin()), 1.0)
                }
                (Q1 | Q2, Q3 | Q0) => {
                    Interval::new(-1.0, self.lower.sin().max(self.upper.sin()))
                }
                (Q0, Q3) | (Q2, Q1) => Interval::new(-1.0, 1.0),
            }
        }
    }
    fn cos(self) -> Self {
        if self.has_nan() {
            f32::NAN.into()
        } else if self.width() >= TAU {
            Interval::new(-1.0, 1.0)
        } else if self.lower() == self.upper() {
            self.lower.cos().into()
        } else {
            let lower_quadrant = Self::quadrant(self.lower);
            let upper_quadrant = Self::quadrant(self.upper);
            let d = self.width();
            use Quadrant::*;
            match (lower_quadrant, upper_quadrant) {
                (Q0, Q0) | (Q1, Q1) | (Q2, Q2) | (Q3, Q3) if d >= PI => {
                    Interval::new(-1.0, 1.0)
                }
                (Q2, Q2) | (Q3, Q3) => {
                    Interval::new(self.lower.cos(), self.upper.cos())
                }
                (Q0, Q0) | (Q1, Q1) => {
                    Interval::new(self.upper.cos(), self.lower.cos())
                }
                (Q2, Q3) => {
                    if d >= PI {
                        Interval::new(-1.0, 1.0) // diameter >= 2*PI
                    } else {
                        Interval::new(self.lower.cos(), self.upper.cos())
                    }
                }
                (Q0, Q1) => {
                    if d >= PI {
                        Interval::new(-1.0, 1.0) // diameter >= 3*PI/2
                    } else {
                        Interval::new(self.upper.cos(), self.lower.cos())
                    }
                }
                (Q2 | Q3, Q0 | Q1) => {
                    Interval::new(self.lower.cos().min(self.upper.cos()), 1.0)
                }
                (Q0 | Q1, Q2 | Q3) => {
                    Interval::new(-1.0, self.lower.cos().max(self.upper.cos()))
                }
                (Q3, Q2) | (Q1, Q0) => Interval::new(-1.0, 1.0),
            }
        }
    }
    fn tan(self) -> Self {
        let size = self.upper - self.lower;
        if size >= std::f32::consts::PI {
            f32::NAN.into()
        } else if self.lower() == self.upper() {
            self.lower.tan().into()
        } else {
            let lower = self.lower.tan();
            let upper = self.upper.tan();
            if upper >= lower {
                Interval::new(lower, upper)
            } else {
                f32::NAN.into()
            }
        }
    }
    fn asin(self) -> Self {
        if self.lower < -1.0 || self.upper > 1.0 {
            f32::NAN.into()
        } else if self.lower() == self.upper() {
            self.lower.asin().into()
        } else {
            Interval::new(self.lower.asin(), self.upper.asin())
        }
    }
    fn acos(self) -> Self {
        if self.lower < -1.0 || self.upper > 1.0 {
            f32::NAN.into()
        } else if self.lower() == self.upper() {
            self.lower.acos().into()
        } else {
            Interval::new(self.upper.acos(), self.lower.acos())
        }
    }
    fn atan(self) -> Self {
        Interval::new(self.lower.atan(), self.upper.atan())
    }
    fn exp(self) -> Self {
        Interval::new(self.lower.exp(), self.upper.exp())
    }
    fn ln(self) -> Self {
        if self.lower <= 0.0 {
            f32::NAN.into()
        } else {
            Interval::new(self.lower.ln(), self.upper.ln())
        }
    }
    fn sqrt(self) -> Self {
        if self.lower < 0.0 {
            f32::NAN.into()
        } else {
            Interval::new(self.lower.sqrt(), self.upper.sqrt())
        }
    }
    fn recip(self) -> Self {
        if self.lower > 0.0 || self.upper < 0.0 {
            Interval::new(1.0 / self.upper, 1.0 / self.lower)
        } else {
            f32::NAN.into()
        }
    }
    fn min_choice(self, rhs: Self) -> (Self, Choice) {
        if self.has_nan() || rhs.has_nan() {
            return (f32::NAN.into(), Choice::Both);
        }
        let choice = if self.upper < rhs.lower {
            Choice::Left
        } else if rhs.upper < self.lower {
            Choice::Right
        } else {
            Choice::Both
        };
        (
            Interval::new(self.lower.min(rhs.lower), self.upper.min(rhs.upper)),
            choice,
        )
    }
    fn max_choice(self, rhs: Self) -> (Self, Choice) {
        if self.has_nan() || rhs.has_nan() {
            return (f32::NAN.into(), Choice::Both);
        }
        let choice = if self.lower > rhs.upper {
            Choice::Left
        } else if rhs.lower > self.upper {
            Choice::Right
        } else {
            Choice::Both
        };
        (
            Interval::new(self.lower.max(rhs.lower), self.upper.max(rhs.upper)),
            choice,
        )
    }

    fn and_choice(self, rhs: Self) -> (Self, Choice) {
        if self.has_nan() || rhs.has_nan() {
            (f32::NAN.into(), Choice::Both)
        } else if self.lower == 0.0 && self.upper == 0.0 {
            (0.0.into(), Choice::Left)
        } else if !self.contains(0.0) {
            (rhs, Choice::Right)
        } else {
            (
                Interval::new(rhs.lower.min(0.0), rhs.upper.max(0.0)),
                Choice::Both,
            )
        }
    }

    fn or_choice(self, rhs: Self) -> (Self, Choice) {
        if self.has_nan() || rhs.has_nan() {
            (f32::NAN.into(), Choice::Both)
        } else if !self.contains(0.0) {
            (self, Choice::Left)
        } else if self.lower == 0.0 && self.upper == 0.0 {
            (rhs, Choice::Right)
        } else {
            (
                Interval::new(
                    self.lower.min(rhs.lower),
                    self.upper.max(rhs.upper),
                ),
                Choice::Both,
            )
        }
    }

    fn midpoint(self) -> f32 {
        (self.lower + self.upper) / 2.0
    }

    fn split(self) -> (Self, Self) {
        let mid = self.midpoint();
        (
            Interval::new(self.lower, mid),
            Interval::new(mid, self.upper),
        )
    }

    fn lerp(self, frac: f32) -> f32 {
        self.lower * (1.0 - frac) + self.upper * frac
    }

    fn width(self) -> f32 {
        self.upper - self.lower
    }

    
    fn rem_euclid(&self, other: Interval) -> Self {
        if self.has_nan() || other.has_nan() || other.contains(0.0) {
            f32::NAN.into()
        } else if other.lower == other.upper && other.lower > 0.0 {
            let a = self.lower / other.lower;
            let b = self.upper / other.lower;
            if a != a.floor() && a.floor() == b.floor() {
                Interval::new(
                    self.lower.rem_euclid(other.lower),
                    self.upper.rem_euclid(other.lower),
                )
            } else {
                Interval::new(0.0, other.abs().upper())
            }
        } else {
            Interval::new(0.0, other.abs().upper())
        }
    }

    fn floor(&self) -> Self {
        Interval::new(self.lower.floor(), self.upper.floor())
    }

    fn ceil(&self) -> Self {
        Interval::new(self.lower.ceil(), self.upper.ceil())
    }

    fn round(&self) -> Self {
        Interval::new(self.lower.round(), self.upper.round())
    }

    fn not(&self) -> Self {
        if !self.contains(0.0) && !self.has_nan() {
            Interval::new(0.0, 0.0)
        } else if self.lower() == 0.0 && self.upper() == 0.0 {
            Interval::new(1.0, 1.0)
        } else {
            Interval::new(0.0, 1.0)
        }
    }

    fn atan2(self, x: Self) -> Self {
        if self.has_nan() || x.has_nan() {
            f32::NAN.into()
        } else {
            let y = self;
            if y.lower <= 0.0 && y.upper >= 0.0 && x.lower < 0.0 {
                Interval::new(fneg(PI), PI)
            } else {
                let mut lower = f32::INFINITY;
                let mut upper = fneg(f32::INFINITY);
                let mut update = |y: f32, x: f32| {
                    let v = y.atan2(x);
                    lower = lower.min(v);
                    upper = upper.max(v);
                };

                if y.lower >= 0.0 {
                    if x.lower >= 0.0 {
                        update(y.upper, x.lower);
                        update(y.lower, x.upper);
                    } else if x.upper <= 0.0 {
                        update(y.lower, x.lower);
                        update(y.upper, x.upper);
                    } else {
                        update(y.lower, x.lower);
                        update(y.lower, x.upper);
                    }
                } else if y.upper <= 0.0 {
                    if x.lower >= 0.0 {
                        update(y.lower, x.lower);
                        update(y.upper, x.upper);
                    } else if x.upper <= 0.0 {
                        update(y.upper, x.lower);
                        update(y.lower, x.upper);
                    } else {
                        update(y.upper, x.lower);
                        update(y.upper, x.upper);
                    }
                } else {
                    update(y.lower, x.lower);
                    update(y.upper, x.lower);
                }
                Interval::new(lower, upper)
            }
        }
    }

    fn mix(self: Interval, rhs: Interval) -> Interval {
        if self.has_nan()
            || rhs.has_nan()
            || self.lower().to_bits() != self.upper().to_bits()
            || rhs.lower().to_bits() != rhs.upper().to_bits()
        {
            f32::NAN.into()
        } else {
            f32::from_bits(crate::rng::mix(
                self.lower().to_bits(),
                rhs.lower().to_bits(),
            ))
            .into()
        }
    }

    fn rand(&self) -> Interval {
        if self.has_nan() || self.lower().to_bits() != self.upper().to_bits() {
            Interval::new(0.0, 1.0)
        } else {
            crate::rng::rand(self.lower().to_bits()).into()
        }
    }
}


impl From<[f32; 2]> for Interval {
    fn from(i: [f32; 2]) -> Interval {
        Interval::new(i[0], i[1])
    }
}

impl From<f32> for Interval {
    fn from(f: f32) -> Self {
        Interval::new(f, f)
    }
}

impl std::ops::Add<Interval> for Interval {
    type Output = Self;
    fn add(self, rhs: Self) -> Self {
        Interval::new(self.lower + rhs.lower, self.upper + rhs.upper)
    }
}

impl std::ops::Mul<Interval> for Interval {
    type Output = Self;
    fn mul(self, rhs: Self) -> Self {
        if self.has_nan() || rhs.has_nan() {
            return f32::NAN.into();
        }
        let mut out = [0.0; 4];
        let mut k = 0;
        for i in [self.lower, self.upper] {
            for j in [rhs.lower, rhs.upper] {
                out[k] = i * j;
                k += 1;
            }
        }
        let mut lower = out[0];
        let mut upper = out[0];
        let mut k_: usize = 1;
        while k_ < 4
            invariant 1 <= k_ <= 4
            decreases 4 - k_
        {
            let v = out[k_];
            lower = lower.min(v);
            upper = upper.max(v);
            k_ += 1;
        }
        Interval::new(lower, upper)
    }
}

impl std::ops::Mul<f32> for Interval {
    type Output = Self;

    fn mul(self, rhs: f32) -> Self {
        if self.has_nan() || rhs.is_nan() {
            f32::NAN.into()
        } else if rhs < 0.0 {
            Interval::new(self.upper * rhs, self.lower * rhs)
        } else {
            Interval::new(self.lower * rhs, self.upper * rhs)
        }
    }
}

impl std::ops::Div<Interval> for Interval {
    type Output = Self;

    fn div(self, rhs: Self) -> Self {
        if self.has_nan() {
            return f32::NAN.into();
        }
        if rhs.lower > 0.0 || rhs.upper < 0.0 {
            let mut out = [0.0; 4];
            let mut k = 0;
            for i in [self.lower, self.upper] {
                for j in [rhs.lower, rhs.upper] {
                    out[k] = i / j;
                    k += 1;
                }
            }
            let mut lower = out[0];
            let mut upper = out[0];
            let mut k_: usize = 1;
            while k_ < 4
                invariant 1 <= k_ <= 4
                decreases 4 - k_
            {
                let v = out[k_];
                lower = lower.min(v);
                upper = upper.max(v);
                k_ += 1;
            }
            Interval::new(lower, upper)
        } else {
            f32::NAN.into()
        }
    }
}

impl std::ops::Sub<Interval> for Interval {
    type Output = Self;

    fn sub(self, rhs: Self) -> Self {
        Interval::new(self.lower - rhs.upper, self.upper - rhs.lower)
    }
}

impl std::ops::Neg for Interval {
    type Output = Self;

    fn neg(self) -> Self {
        Interval::new(fneg(self.upper), fneg(self.lower))
    }
}


}
fn main() {}
