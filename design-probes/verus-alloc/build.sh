#!/bin/bash
# rebuild unit1.rs from unit0.rs + spec.py
python3 - <<'PY'
import re, sys, importlib.util
sp = importlib.util.spec_from_file_location('spec','/verif/design-probes/verus-alloc/spec.py'); spec=importlib.util.module_from_spec(sp); sp.loader.exec_module(spec)
s=open('/verif/design-probes/verus-alloc/unit0.rs').read()
def find_fn(s, name):
    m = re.search(r'\n(\s*)fn %s\b' % re.escape(name), s)
    assert m, name
    i = m.start()+1
    j = s.index('{', m.end())
    return i, j
def fn_span(s, name):
    base = s.index('struct RegisterAllocator')
    m = re.search(r'\n(\s*)fn %s\b' % re.escape(name), s[base:])
    i = base + m.start()+1
    j = s.index('{', i)
    depth=0; k=j
    while True:
        if s[k]=='{': depth+=1
        elif s[k]=='}':
            depth-=1
            if depth==0: break
        k+=1
    return i,k+1
for key, proof in getattr(spec,'PROOFS',{}).items():
    if '|' in key:
        fn, anchor = key.split('|',1)
        occ = 0
        if '#' in anchor and anchor.rsplit('#',1)[1].isdigit():
            anchor, occ = anchor.rsplit('#',1); occ=int(occ)
        i,k = fn_span(s, fn)
        seg = s[i:k]
        if anchor == '$END':
            seg = seg[:-1] + proof + '\n    }'
            s = s[:i]+seg+s[k:]
            continue
        if anchor == '$TAILMATCH':
            # R-tail: `match e {..}` in tail position -> `let ret_ = match e {..}; proof; ret_`
            m = re.search(r'\n        match ', seg)
            assert m and seg.count('\n        match ')==1
            seg = seg[:m.start()] + '\n        let ret_ = match ' + seg[m.end():]
            assert seg.endswith('\n        }\n    }')
            seg = seg[:-len('\n        }\n    }')] + '\n        };\n' + proof + '\n        ret_\n    }'
            s = s[:i]+seg+s[k:]
            continue
        pos=-1
        for _ in range(occ+1):
            pos = seg.index(anchor, pos+1)
        pos += len(anchor)
        seg = seg[:pos] + '\n' + proof + seg[pos:]
        s = s[:i]+seg+s[k:]
    else:
        anchor = key
        assert s.count(anchor)==1, (anchor, s.count(anchor))
        s = s.replace(anchor, anchor + '\n' + proof)
for anchor, proof in getattr(spec,'PROOFS_BEFORE',{}).items():
    assert s.count(anchor)==1, (anchor, s.count(anchor))
    s = s.replace(anchor, proof.strip() + '\n                ' + anchor)
for a_,b_ in getattr(spec,'REPLACE',[]):
    assert s.count(a_)==1, a_
    s=s.replace(a_,b_)
for name,(ret,text) in spec.SPECS.items():
    base = s.index('struct RegisterAllocator')
    i,j = find_fn(s[base:], name); i+=base; j+=base
    sig = s[i:j]
    if ret:
        sig = re.sub(r'->\s*([^{]+?)\s*$', lambda m: '-> (%s)' % ret, sig.rstrip())
    s = s[:i] + sig + text + '    ' + s[j:]
s = s.replace('\n} // verus!', spec.PRELUDE + '\n} // verus!')
open('/verif/design-probes/verus-alloc/unit1.rs','w').write(s)
PY
