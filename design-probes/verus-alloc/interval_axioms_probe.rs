use vstd::prelude::*;
use vstd::float::*;
verus! {

// ---- trusted axioms about f32 (assumptions) ----
pub uninterp spec fn fle(a: f32, b: f32) -> bool;   // IEEE <= (false on NaN)
pub uninterp spec fn fnan(a: f32) -> bool;
pub uninterp spec fn fadd(a: f32, b: f32) -> f32;

pub assume_specification [f32::is_nan] (x: f32) -> (r: bool)
    ensures r == fnan(x);

#[verifier::external_body]
fn f_ge(a: f32, b: f32) -> (r: bool) ensures r == fle(b, a) { a >= b }
#[verifier::external_body]
fn f_add(a: f32, b: f32) -> (r: f32) ensures r == fadd(a, b) { a + b }

pub broadcast proof fn ax_le_refl(a: f32) ensures !fnan(a) ==> #[trigger] fle(a, a) { admit(); }
pub broadcast proof fn ax_le_nan(a: f32, b: f32) ensures #[trigger] fle(a, b) ==> !fnan(a) && !fnan(b) { admit(); }
pub broadcast proof fn ax_le_trans(a: f32, b: f32, c: f32) ensures #[trigger] fle(a, b) && #[trigger] fle(b, c) ==> fle(a, c) { admit(); }
pub broadcast proof fn ax_add_mono(a: f32, b: f32, c: f32, d: f32)
    ensures fle(a, c) && fle(b, d) && !fnan(#[trigger] fadd(a, b)) && !fnan(#[trigger] fadd(c, d)) ==> fle(fadd(a, b), fadd(c, d)) { admit(); }

#[derive(Copy, Clone)]
struct Interval { lower: f32, upper: f32 }

spec fn valid(i: Interval) -> bool { fle(i.lower, i.upper) || (fnan(i.lower) && fnan(i.upper)) }
spec fn mem(x: f32, i: Interval) -> bool { fle(i.lower, x) && fle(x, i.upper) }

impl Interval {
    fn new(lower: f32, upper: f32) -> (r: Self) 
        requires fle(lower, upper) || (fnan(lower) && fnan(upper)),
        ensures r.lower == lower, r.upper == upper
    {
        assert!(
            f_ge(upper, lower) || (lower.is_nan() && upper.is_nan())
        );
        Self { lower, upper }
    }
    fn add(self, rhs: Self) -> (r: Self) 
        requires valid(self), valid(rhs), !fnan(fadd(self.lower, rhs.lower)), !fnan(fadd(self.upper, rhs.upper))
        ensures forall|x: f32, y: f32| mem(x, self) && mem(y, rhs) && !fnan(fadd(x,y)) ==> mem(#[trigger] fadd(x, y), r)
    {
        broadcast use ax_le_refl, ax_le_nan, ax_le_trans, ax_add_mono;
        Interval::new(f_add(self.lower, rhs.lower), f_add(self.upper, rhs.upper))
    }
}
}
fn main() {}
