// ---- generated from the enum variant list (base name -> tag) ----
spec fn f_un(tag: int) -> spec_fn(f32) -> f32 { |v: f32| un_sem(tag, v) }
spec fn f_id() -> spec_fn(f32) -> f32 { |v: f32| v }
spec fn f_ri(tag: int, imm: f32) -> spec_fn(f32) -> f32 { |v: f32| bin_sem(tag, v, imm) }
spec fn f_ir(tag: int, imm: f32) -> spec_fn(f32) -> f32 { |v: f32| bin_sem(tag, imm, v) }
spec fn g_bin(tag: int) -> spec_fn(f32, f32) -> f32 { |a: f32, b: f32| bin_sem(tag, a, b) }
spec fn c_imm(imm: f32) -> spec_fn(Seq<f32>) -> f32 { |i: Seq<f32>| imm }
spec fn c_inp(k: int) -> spec_fn(Seq<f32>) -> f32 { |i: Seq<f32>| i[k] }
spec fn reg_step(op: RegOp, st: St, inp: Seq<f32>) -> St {
    match op {
        RegOp::Output(r, i) => St { slots: st.slots, outs: st.outs.insert(i as int, st.slots[r as int]) },
        RegOp::Input(r, i) => St { slots: st.slots.insert(r as int, c_inp(i as int)(inp)), outs: st.outs },
        RegOp::CopyReg(o, a) => St { slots: st.slots.insert(o as int, f_id()(st.slots[a as int])), outs: st.outs },
        RegOp::CopyImm(r, c) => St { slots: st.slots.insert(r as int, c_imm(c)(inp)), outs: st.outs },
        RegOp::NegReg(o, a) => St { slots: st.slots.insert(o as int, f_un(3)(st.slots[a as int])), outs: st.outs },
        RegOp::AbsReg(o, a) => St { slots: st.slots.insert(o as int, f_un(5)(st.slots[a as int])), outs: st.outs },
        RegOp::RecipReg(o, a) => St { slots: st.slots.insert(o as int, f_un(7)(st.slots[a as int])), outs: st.outs },
        RegOp::SqrtReg(o, a) => St { slots: st.slots.insert(o as int, f_un(9)(st.slots[a as int])), outs: st.outs },
        RegOp::SquareReg(o, a) => St { slots: st.slots.insert(o as int, f_un(11)(st.slots[a as int])), outs: st.outs },
        RegOp::FloorReg(o, a) => St { slots: st.slots.insert(o as int, f_un(13)(st.slots[a as int])), outs: st.outs },
        RegOp::CeilReg(o, a) => St { slots: st.slots.insert(o as int, f_un(15)(st.slots[a as int])), outs: st.outs },
        RegOp::RoundReg(o, a) => St { slots: st.slots.insert(o as int, f_un(17)(st.slots[a as int])), outs: st.outs },
        RegOp::SinReg(o, a) => St { slots: st.slots.insert(o as int, f_un(19)(st.slots[a as int])), outs: st.outs },
        RegOp::CosReg(o, a) => St { slots: st.slots.insert(o as int, f_un(21)(st.slots[a as int])), outs: st.outs },
        RegOp::TanReg(o, a) => St { slots: st.slots.insert(o as int, f_un(23)(st.slots[a as int])), outs: st.outs },
        RegOp::AsinReg(o, a) => St { slots: st.slots.insert(o as int, f_un(25)(st.slots[a as int])), outs: st.outs },
        RegOp::AcosReg(o, a) => St { slots: st.slots.insert(o as int, f_un(27)(st.slots[a as int])), outs: st.outs },
        RegOp::AtanReg(o, a) => St { slots: st.slots.insert(o as int, f_un(29)(st.slots[a as int])), outs: st.outs },
        RegOp::ExpReg(o, a) => St { slots: st.slots.insert(o as int, f_un(31)(st.slots[a as int])), outs: st.outs },
        RegOp::LnReg(o, a) => St { slots: st.slots.insert(o as int, f_un(33)(st.slots[a as int])), outs: st.outs },
        RegOp::NotReg(o, a) => St { slots: st.slots.insert(o as int, f_un(35)(st.slots[a as int])), outs: st.outs },
        RegOp::RandReg(o, a) => St { slots: st.slots.insert(o as int, f_un(37)(st.slots[a as int])), outs: st.outs },
        RegOp::AddRegImm(o, a, imm) => St { slots: st.slots.insert(o as int, f_ri(38, imm)(st.slots[a as int])), outs: st.outs },
        RegOp::MulRegImm(o, a, imm) => St { slots: st.slots.insert(o as int, f_ri(40, imm)(st.slots[a as int])), outs: st.outs },
        RegOp::DivRegImm(o, a, imm) => St { slots: st.slots.insert(o as int, f_ri(42, imm)(st.slots[a as int])), outs: st.outs },
        RegOp::DivImmReg(o, a, imm) => St { slots: st.slots.insert(o as int, f_ir(42, imm)(st.slots[a as int])), outs: st.outs },
        RegOp::SubImmReg(o, a, imm) => St { slots: st.slots.insert(o as int, f_ir(44, imm)(st.slots[a as int])), outs: st.outs },
        RegOp::SubRegImm(o, a, imm) => St { slots: st.slots.insert(o as int, f_ri(44, imm)(st.slots[a as int])), outs: st.outs },
        RegOp::ModRegReg(o, a, b) => St { slots: st.slots.insert(o as int, g_bin(46)(st.slots[a as int], st.slots[b as int])), outs: st.outs },
        RegOp::ModRegImm(o, a, imm) => St { slots: st.slots.insert(o as int, f_ri(46, imm)(st.slots[a as int])), outs: st.outs },
        RegOp::AtanRegImm(o, a, imm) => St { slots: st.slots.insert(o as int, f_ri(28, imm)(st.slots[a as int])), outs: st.outs },
        RegOp::CompareRegImm(o, a, imm) => St { slots: st.slots.insert(o as int, f_ri(48, imm)(st.slots[a as int])), outs: st.outs },
        RegOp::MixRegImm(o, a, imm) => St { slots: st.slots.insert(o as int, f_ri(50, imm)(st.slots[a as int])), outs: st.outs },
        RegOp::MinRegImm(o, a, imm) => St { slots: st.slots.insert(o as int, f_ri(52, imm)(st.slots[a as int])), outs: st.outs },
        RegOp::MaxRegImm(o, a, imm) => St { slots: st.slots.insert(o as int, f_ri(54, imm)(st.slots[a as int])), outs: st.outs },
        RegOp::AndRegImm(o, a, imm) => St { slots: st.slots.insert(o as int, f_ri(56, imm)(st.slots[a as int])), outs: st.outs },
        RegOp::OrRegImm(o, a, imm) => St { slots: st.slots.insert(o as int, f_ri(58, imm)(st.slots[a as int])), outs: st.outs },
        RegOp::ModImmReg(o, a, imm) => St { slots: st.slots.insert(o as int, f_ir(46, imm)(st.slots[a as int])), outs: st.outs },
        RegOp::AtanImmReg(o, a, imm) => St { slots: st.slots.insert(o as int, f_ir(28, imm)(st.slots[a as int])), outs: st.outs },
        RegOp::CompareImmReg(o, a, imm) => St { slots: st.slots.insert(o as int, f_ir(48, imm)(st.slots[a as int])), outs: st.outs },
        RegOp::MixImmReg(o, a, imm) => St { slots: st.slots.insert(o as int, f_ir(50, imm)(st.slots[a as int])), outs: st.outs },
        RegOp::AddRegReg(o, a, b) => St { slots: st.slots.insert(o as int, g_bin(38)(st.slots[a as int], st.slots[b as int])), outs: st.outs },
        RegOp::MulRegReg(o, a, b) => St { slots: st.slots.insert(o as int, g_bin(40)(st.slots[a as int], st.slots[b as int])), outs: st.outs },
        RegOp::DivRegReg(o, a, b) => St { slots: st.slots.insert(o as int, g_bin(42)(st.slots[a as int], st.slots[b as int])), outs: st.outs },
        RegOp::SubRegReg(o, a, b) => St { slots: st.slots.insert(o as int, g_bin(44)(st.slots[a as int], st.slots[b as int])), outs: st.outs },
        RegOp::CompareRegReg(o, a, b) => St { slots: st.slots.insert(o as int, g_bin(48)(st.slots[a as int], st.slots[b as int])), outs: st.outs },
        RegOp::AtanRegReg(o, a, b) => St { slots: st.slots.insert(o as int, g_bin(28)(st.slots[a as int], st.slots[b as int])), outs: st.outs },
        RegOp::MixRegReg(o, a, b) => St { slots: st.slots.insert(o as int, g_bin(50)(st.slots[a as int], st.slots[b as int])), outs: st.outs },
        RegOp::MinRegReg(o, a, b) => St { slots: st.slots.insert(o as int, g_bin(52)(st.slots[a as int], st.slots[b as int])), outs: st.outs },
        RegOp::MaxRegReg(o, a, b) => St { slots: st.slots.insert(o as int, g_bin(54)(st.slots[a as int], st.slots[b as int])), outs: st.outs },
        RegOp::AndRegReg(o, a, b) => St { slots: st.slots.insert(o as int, g_bin(56)(st.slots[a as int], st.slots[b as int])), outs: st.outs },
        RegOp::OrRegReg(o, a, b) => St { slots: st.slots.insert(o as int, g_bin(58)(st.slots[a as int], st.slots[b as int])), outs: st.outs },
        RegOp::Load(r, m) => St { slots: st.slots.insert(r as int, st.slots[m as int]), outs: st.outs },
        RegOp::Store(r, m) => St { slots: st.slots.insert(m as int, st.slots[r as int]), outs: st.outs },
    }
}
spec fn ssa_fe(op: SsaOp) -> FE {
    match op {
        SsaOp::Output(a, i) => id_env(),
        SsaOp::Input(o, i) => fe_def(o as int, c_inp(i as int)),
        SsaOp::CopyReg(o, a) => fe_un(o as int, a as int, f_id()),
        SsaOp::CopyImm(o, c) => fe_def(o as int, c_imm(c)),
        SsaOp::NegReg(o, a) => fe_un(o as int, a as int, f_un(3)),
        SsaOp::AbsReg(o, a) => fe_un(o as int, a as int, f_un(5)),
        SsaOp::RecipReg(o, a) => fe_un(o as int, a as int, f_un(7)),
        SsaOp::SqrtReg(o, a) => fe_un(o as int, a as int, f_un(9)),
        SsaOp::SquareReg(o, a) => fe_un(o as int, a as int, f_un(11)),
        SsaOp::FloorReg(o, a) => fe_un(o as int, a as int, f_un(13)),
        SsaOp::CeilReg(o, a) => fe_un(o as int, a as int, f_un(15)),
        SsaOp::RoundReg(o, a) => fe_un(o as int, a as int, f_un(17)),
        SsaOp::SinReg(o, a) => fe_un(o as int, a as int, f_un(19)),
        SsaOp::CosReg(o, a) => fe_un(o as int, a as int, f_un(21)),
        SsaOp::TanReg(o, a) => fe_un(o as int, a as int, f_un(23)),
        SsaOp::AsinReg(o, a) => fe_un(o as int, a as int, f_un(25)),
        SsaOp::AcosReg(o, a) => fe_un(o as int, a as int, f_un(27)),
        SsaOp::AtanReg(o, a) => fe_un(o as int, a as int, f_un(29)),
        SsaOp::ExpReg(o, a) => fe_un(o as int, a as int, f_un(31)),
        SsaOp::LnReg(o, a) => fe_un(o as int, a as int, f_un(33)),
        SsaOp::NotReg(o, a) => fe_un(o as int, a as int, f_un(35)),
        SsaOp::RandReg(o, a) => fe_un(o as int, a as int, f_un(37)),
        SsaOp::AddRegImm(o, a, imm) => fe_un(o as int, a as int, f_ri(38, imm)),
        SsaOp::MulRegImm(o, a, imm) => fe_un(o as int, a as int, f_ri(40, imm)),
        SsaOp::DivRegImm(o, a, imm) => fe_un(o as int, a as int, f_ri(42, imm)),
        SsaOp::DivImmReg(o, a, imm) => fe_un(o as int, a as int, f_ir(42, imm)),
        SsaOp::SubImmReg(o, a, imm) => fe_un(o as int, a as int, f_ir(44, imm)),
        SsaOp::SubRegImm(o, a, imm) => fe_un(o as int, a as int, f_ri(44, imm)),
        SsaOp::ModRegReg(o, a, b) => fe_bin(o as int, a as int, b as int, g_bin(46)),
        SsaOp::ModRegImm(o, a, imm) => fe_un(o as int, a as int, f_ri(46, imm)),
        SsaOp::AtanRegImm(o, a, imm) => fe_un(o as int, a as int, f_ri(28, imm)),
        SsaOp::CompareRegImm(o, a, imm) => fe_un(o as int, a as int, f_ri(48, imm)),
        SsaOp::MixRegImm(o, a, imm) => fe_un(o as int, a as int, f_ri(50, imm)),
        SsaOp::MinRegImm(o, a, imm) => fe_un(o as int, a as int, f_ri(52, imm)),
        SsaOp::MaxRegImm(o, a, imm) => fe_un(o as int, a as int, f_ri(54, imm)),
        SsaOp::AndRegImm(o, a, imm) => fe_un(o as int, a as int, f_ri(56, imm)),
        SsaOp::OrRegImm(o, a, imm) => fe_un(o as int, a as int, f_ri(58, imm)),
        SsaOp::ModImmReg(o, a, imm) => fe_un(o as int, a as int, f_ir(46, imm)),
        SsaOp::AtanImmReg(o, a, imm) => fe_un(o as int, a as int, f_ir(28, imm)),
        SsaOp::CompareImmReg(o, a, imm) => fe_un(o as int, a as int, f_ir(48, imm)),
        SsaOp::MixImmReg(o, a, imm) => fe_un(o as int, a as int, f_ir(50, imm)),
        SsaOp::AddRegReg(o, a, b) => fe_bin(o as int, a as int, b as int, g_bin(38)),
        SsaOp::MulRegReg(o, a, b) => fe_bin(o as int, a as int, b as int, g_bin(40)),
        SsaOp::DivRegReg(o, a, b) => fe_bin(o as int, a as int, b as int, g_bin(42)),
        SsaOp::SubRegReg(o, a, b) => fe_bin(o as int, a as int, b as int, g_bin(44)),
        SsaOp::CompareRegReg(o, a, b) => fe_bin(o as int, a as int, b as int, g_bin(48)),
        SsaOp::AtanRegReg(o, a, b) => fe_bin(o as int, a as int, b as int, g_bin(28)),
        SsaOp::MixRegReg(o, a, b) => fe_bin(o as int, a as int, b as int, g_bin(50)),
        SsaOp::MinRegReg(o, a, b) => fe_bin(o as int, a as int, b as int, g_bin(52)),
        SsaOp::MaxRegReg(o, a, b) => fe_bin(o as int, a as int, b as int, g_bin(54)),
        SsaOp::AndRegReg(o, a, b) => fe_bin(o as int, a as int, b as int, g_bin(56)),
        SsaOp::OrRegReg(o, a, b) => fe_bin(o as int, a as int, b as int, g_bin(58)),
    }
}
spec fn ssa_fo(op: SsaOp) -> FO {
    match op {
        SsaOp::Output(a, i) => fo_output(i as int, a as int),
        _ => id_outs(),
    }
}
spec fn ssa_kind(op: SsaOp) -> int {
    match op {
        SsaOp::Output(..) => 0,
        SsaOp::Input(..) => 1,
        SsaOp::CopyReg(..) => 2,
        SsaOp::CopyImm(..) => 1,
        SsaOp::NegReg(..) => 2,
        SsaOp::AbsReg(..) => 2,
        SsaOp::RecipReg(..) => 2,
        SsaOp::SqrtReg(..) => 2,
        SsaOp::SquareReg(..) => 2,
        SsaOp::FloorReg(..) => 2,
        SsaOp::CeilReg(..) => 2,
        SsaOp::RoundReg(..) => 2,
        SsaOp::SinReg(..) => 2,
        SsaOp::CosReg(..) => 2,
        SsaOp::TanReg(..) => 2,
        SsaOp::AsinReg(..) => 2,
        SsaOp::AcosReg(..) => 2,
        SsaOp::AtanReg(..) => 2,
        SsaOp::ExpReg(..) => 2,
        SsaOp::LnReg(..) => 2,
        SsaOp::NotReg(..) => 2,
        SsaOp::RandReg(..) => 2,
        SsaOp::AddRegImm(..) => 3,
        SsaOp::MulRegImm(..) => 3,
        SsaOp::DivRegImm(..) => 3,
        SsaOp::DivImmReg(..) => 3,
        SsaOp::SubImmReg(..) => 3,
        SsaOp::SubRegImm(..) => 3,
        SsaOp::ModRegReg(..) => 4,
        SsaOp::ModRegImm(..) => 3,
        SsaOp::AtanRegImm(..) => 3,
        SsaOp::CompareRegImm(..) => 3,
        SsaOp::MixRegImm(..) => 3,
        SsaOp::MinRegImm(..) => 3,
        SsaOp::MaxRegImm(..) => 3,
        SsaOp::AndRegImm(..) => 3,
        SsaOp::OrRegImm(..) => 3,
        SsaOp::ModImmReg(..) => 3,
        SsaOp::AtanImmReg(..) => 3,
        SsaOp::CompareImmReg(..) => 3,
        SsaOp::MixImmReg(..) => 3,
        SsaOp::AddRegReg(..) => 4,
        SsaOp::MulRegReg(..) => 4,
        SsaOp::DivRegReg(..) => 4,
        SsaOp::SubRegReg(..) => 4,
        SsaOp::CompareRegReg(..) => 4,
        SsaOp::AtanRegReg(..) => 4,
        SsaOp::MixRegReg(..) => 4,
        SsaOp::MinRegReg(..) => 4,
        SsaOp::MaxRegReg(..) => 4,
        SsaOp::AndRegReg(..) => 4,
        SsaOp::OrRegReg(..) => 4,
    }
}
spec fn ssa_o(op: SsaOp) -> int {
    match op {
        SsaOp::Output(a, _) => a as int,
        SsaOp::Input(o, _) => o as int,
        SsaOp::CopyReg(o, _) => o as int,
        SsaOp::CopyImm(o, _) => o as int,
        SsaOp::NegReg(o, _) => o as int,
        SsaOp::AbsReg(o, _) => o as int,
        SsaOp::RecipReg(o, _) => o as int,
        SsaOp::SqrtReg(o, _) => o as int,
        SsaOp::SquareReg(o, _) => o as int,
        SsaOp::FloorReg(o, _) => o as int,
        SsaOp::CeilReg(o, _) => o as int,
        SsaOp::RoundReg(o, _) => o as int,
        SsaOp::SinReg(o, _) => o as int,
        SsaOp::CosReg(o, _) => o as int,
        SsaOp::TanReg(o, _) => o as int,
        SsaOp::AsinReg(o, _) => o as int,
        SsaOp::AcosReg(o, _) => o as int,
        SsaOp::AtanReg(o, _) => o as int,
        SsaOp::ExpReg(o, _) => o as int,
        SsaOp::LnReg(o, _) => o as int,
        SsaOp::NotReg(o, _) => o as int,
        SsaOp::RandReg(o, _) => o as int,
        SsaOp::AddRegImm(o, _, _) => o as int,
        SsaOp::MulRegImm(o, _, _) => o as int,
        SsaOp::DivRegImm(o, _, _) => o as int,
        SsaOp::DivImmReg(o, _, _) => o as int,
        SsaOp::SubImmReg(o, _, _) => o as int,
        SsaOp::SubRegImm(o, _, _) => o as int,
        SsaOp::ModRegReg(o, _, _) => o as int,
        SsaOp::ModRegImm(o, _, _) => o as int,
        SsaOp::AtanRegImm(o, _, _) => o as int,
        SsaOp::CompareRegImm(o, _, _) => o as int,
        SsaOp::MixRegImm(o, _, _) => o as int,
        SsaOp::MinRegImm(o, _, _) => o as int,
        SsaOp::MaxRegImm(o, _, _) => o as int,
        SsaOp::AndRegImm(o, _, _) => o as int,
        SsaOp::OrRegImm(o, _, _) => o as int,
        SsaOp::ModImmReg(o, _, _) => o as int,
        SsaOp::AtanImmReg(o, _, _) => o as int,
        SsaOp::CompareImmReg(o, _, _) => o as int,
        SsaOp::MixImmReg(o, _, _) => o as int,
        SsaOp::AddRegReg(o, _, _) => o as int,
        SsaOp::MulRegReg(o, _, _) => o as int,
        SsaOp::DivRegReg(o, _, _) => o as int,
        SsaOp::SubRegReg(o, _, _) => o as int,
        SsaOp::CompareRegReg(o, _, _) => o as int,
        SsaOp::AtanRegReg(o, _, _) => o as int,
        SsaOp::MixRegReg(o, _, _) => o as int,
        SsaOp::MinRegReg(o, _, _) => o as int,
        SsaOp::MaxRegReg(o, _, _) => o as int,
        SsaOp::AndRegReg(o, _, _) => o as int,
        SsaOp::OrRegReg(o, _, _) => o as int,
    }
}
spec fn ssa_a(op: SsaOp) -> int {
    match op {
        SsaOp::CopyReg(_, a) => a as int,
        SsaOp::NegReg(_, a) => a as int,
        SsaOp::AbsReg(_, a) => a as int,
        SsaOp::RecipReg(_, a) => a as int,
        SsaOp::SqrtReg(_, a) => a as int,
        SsaOp::SquareReg(_, a) => a as int,
        SsaOp::FloorReg(_, a) => a as int,
        SsaOp::CeilReg(_, a) => a as int,
        SsaOp::RoundReg(_, a) => a as int,
        SsaOp::SinReg(_, a) => a as int,
        SsaOp::CosReg(_, a) => a as int,
        SsaOp::TanReg(_, a) => a as int,
        SsaOp::AsinReg(_, a) => a as int,
        SsaOp::AcosReg(_, a) => a as int,
        SsaOp::AtanReg(_, a) => a as int,
        SsaOp::ExpReg(_, a) => a as int,
        SsaOp::LnReg(_, a) => a as int,
        SsaOp::NotReg(_, a) => a as int,
        SsaOp::RandReg(_, a) => a as int,
        SsaOp::AddRegImm(_, a, _) => a as int,
        SsaOp::MulRegImm(_, a, _) => a as int,
        SsaOp::DivRegImm(_, a, _) => a as int,
        SsaOp::DivImmReg(_, a, _) => a as int,
        SsaOp::SubImmReg(_, a, _) => a as int,
        SsaOp::SubRegImm(_, a, _) => a as int,
        SsaOp::ModRegReg(_, a, _) => a as int,
        SsaOp::ModRegImm(_, a, _) => a as int,
        SsaOp::AtanRegImm(_, a, _) => a as int,
        SsaOp::CompareRegImm(_, a, _) => a as int,
        SsaOp::MixRegImm(_, a, _) => a as int,
        SsaOp::MinRegImm(_, a, _) => a as int,
        SsaOp::MaxRegImm(_, a, _) => a as int,
        SsaOp::AndRegImm(_, a, _) => a as int,
        SsaOp::OrRegImm(_, a, _) => a as int,
        SsaOp::ModImmReg(_, a, _) => a as int,
        SsaOp::AtanImmReg(_, a, _) => a as int,
        SsaOp::CompareImmReg(_, a, _) => a as int,
        SsaOp::MixImmReg(_, a, _) => a as int,
        SsaOp::AddRegReg(_, a, _) => a as int,
        SsaOp::MulRegReg(_, a, _) => a as int,
        SsaOp::DivRegReg(_, a, _) => a as int,
        SsaOp::SubRegReg(_, a, _) => a as int,
        SsaOp::CompareRegReg(_, a, _) => a as int,
        SsaOp::AtanRegReg(_, a, _) => a as int,
        SsaOp::MixRegReg(_, a, _) => a as int,
        SsaOp::MinRegReg(_, a, _) => a as int,
        SsaOp::MaxRegReg(_, a, _) => a as int,
        SsaOp::AndRegReg(_, a, _) => a as int,
        SsaOp::OrRegReg(_, a, _) => a as int,
        _ => 0,
    }
}
spec fn ssa_b(op: SsaOp) -> int {
    match op {
        SsaOp::ModRegReg(_, _, b) => b as int,
        SsaOp::AddRegReg(_, _, b) => b as int,
        SsaOp::MulRegReg(_, _, b) => b as int,
        SsaOp::DivRegReg(_, _, b) => b as int,
        SsaOp::SubRegReg(_, _, b) => b as int,
        SsaOp::CompareRegReg(_, _, b) => b as int,
        SsaOp::AtanRegReg(_, _, b) => b as int,
        SsaOp::MixRegReg(_, _, b) => b as int,
        SsaOp::MinRegReg(_, _, b) => b as int,
        SsaOp::MaxRegReg(_, _, b) => b as int,
        SsaOp::AndRegReg(_, _, b) => b as int,
        SsaOp::OrRegReg(_, _, b) => b as int,
        _ => 0,
    }
}
spec fn new_live(op: SsaOp, was: bool, s: int) -> bool {
    let k = ssa_kind(op);
    if k == 0 { s == ssa_o(op) || was }
    else if k == 1 { s != ssa_o(op) && was }
    else if k == 2 || k == 3 { s == ssa_a(op) || (s != ssa_o(op) && was) }
    else { s == ssa_a(op) || s == ssa_b(op) || (s != ssa_o(op) && was) }
}
proof fn lemma_live_step(ops: Seq<SsaOp>, j: int, s: int)
    requires 0 <= j < ops.len()
    ensures live(ops, j + 1).contains(s) == new_live(ops[j], live(ops, j).contains(s), s)
{}
impl<const N: usize> RegisterAllocator<N> {
    /// precondition of lowering one SSA op (total mode)
    spec fn op_pre(&self, op: SsaOp) -> bool {
        let len = self.allocations@.len() as int;
        let k = ssa_kind(op);
        &&& 0 <= ssa_o(op) < len
        &&& k >= 1 ==> self.allocations@[ssa_o(op)] != UNASSIGNED
        &&& k >= 2 ==> 0 <= ssa_a(op) < len && ssa_a(op) != ssa_o(op)
        &&& k == 4 ==> 0 <= ssa_b(op) < len && ssa_b(op) != ssa_o(op)
    }
    spec fn op_post(&self, pre: &Self, op: SsaOp) -> bool {
        &&& self.wf()
        &&& self.allocations@.len() == pre.allocations@.len()
        &&& self.out.tape@.len() >= pre.out.tape@.len()
        &&& forall|k: int| 0 <= k < pre.out.tape@.len() ==> #[trigger] self.out.tape@[k] == pre.out.tape@[k]
        &&& simf(self.allocations@, pre.allocations@, self.out.tape@, pre.out.tape@.len() as int, self.out.tape@.len() as int, ssa_fe(op), ssa_fo(op))
        &&& forall|s: int| 0 <= s < pre.allocations@.len() ==>
                ((#[trigger] self.allocations@[s] != UNASSIGNED) == new_live(op, pre.allocations@[s] != UNASSIGNED, s))
    }
}

// ---------------- whole-tape semantics and the top theorem ----------------
struct Ss { env: Env, outs: Map<int, f32> }
spec fn ssa_step(op: SsaOp, s: Ss, inp: Seq<f32>) -> Ss {
    Ss { env: ssa_fe(op)(s.env, inp), outs: ssa_fo(op)(s.outs, s.env, inp) }
}
/// run ops[lo..hi) from hi-1 down to lo (SSA tapes are stored root-first)
spec fn ssa_run_rev(ops: Seq<SsaOp>, lo: int, hi: int, s: Ss, inp: Seq<f32>) -> Ss
    decreases hi - lo
{
    if hi <= lo { s } else { ssa_run_rev(ops, lo, hi - 1, ssa_step(ops[hi - 1], s, inp), inp) }
}
spec fn run_fe(ops: Seq<SsaOp>, j: int) -> FE {
    |e: Env, i: Seq<f32>| ssa_run_rev(ops, 0, j, Ss { env: e, outs: Map::empty() }, i).env
}
spec fn run_fo(ops: Seq<SsaOp>, j: int) -> FO {
    |o: Map<int, f32>, e: Env, i: Seq<f32>| ssa_run_rev(ops, 0, j, Ss { env: e, outs: o }, i).outs
}
/// the environment part of a run does not depend on the outputs accumulated so far
proof fn lemma_env_indep(ops: Seq<SsaOp>, j: int, e: Env, o1: Map<int, f32>, o2: Map<int, f32>, inp: Seq<f32>)
    requires 0 <= j
    ensures ssa_run_rev(ops, 0, j, Ss { env: e, outs: o1 }, inp).env == ssa_run_rev(ops, 0, j, Ss { env: e, outs: o2 }, inp).env
    decreases j
{
    if j > 0 {
        let s1 = ssa_step(ops[j - 1], Ss { env: e, outs: o1 }, inp);
        let s2 = ssa_step(ops[j - 1], Ss { env: e, outs: o2 }, inp);
        lemma_env_indep(ops, j - 1, s1.env, s1.outs, s2.outs, inp);
    }
}
/// slots that are live (bound in the allocator) after lowering ops[0..j)
spec fn live(ops: Seq<SsaOp>, j: int) -> Set<int>
    decreases j
{
    if j <= 0 { Set::empty() } else {
        let op = ops[j - 1];
        let l = live(ops, j - 1);
        let k = ssa_kind(op);
        if k == 0 { l.insert(ssa_o(op)) }
        else if k == 1 { l.remove(ssa_o(op)) }
        else if k == 2 || k == 3 { l.remove(ssa_o(op)).insert(ssa_a(op)) }
        else { l.remove(ssa_o(op)).insert(ssa_a(op)).insert(ssa_b(op)) }
    }
}
/// well-formed SSA tape of `n` slots: every definition is of a currently-live slot distinct from its
/// arguments, all indices are in range, and nothing is live before the first evaluated op
spec fn ssa_wf(ops: Seq<SsaOp>, n: int) -> bool {
    &&& forall|j: int| 0 <= j < ops.len() ==> {
            let op = #[trigger] ops[j];
            let k = ssa_kind(op);
            &&& 0 <= ssa_o(op) < n
            &&& k >= 1 ==> live(ops, j).contains(ssa_o(op))
            &&& k >= 2 ==> 0 <= ssa_a(op) < n && ssa_a(op) != ssa_o(op)
            &&& k == 4 ==> 0 <= ssa_b(op) < n && ssa_b(op) != ssa_o(op)
        }
    &&& live(ops, ops.len() as int) =~= Set::empty()
}
proof fn lemma_sim_comp(a2: Seq<u32>, a1: Seq<u32>, a0: Seq<u32>, tape: Seq<RegOp>, lo: int, mid: int, hi: int,
                        fe2: FE, fo2: FO, fe1: FE, fo1: FO, fe: FE, fo: FO)
    requires simf(a2, a1, tape, mid, hi, fe2, fo2), simf(a1, a0, tape, lo, mid, fe1, fo1), lo <= mid <= hi,
        forall|e: Env, i: Seq<f32>| #[trigger] fe(e, i) == fe1(fe2(e, i), i),
        forall|o: Map<int, f32>, e: Env, i: Seq<f32>| #[trigger] fo(o, e, i) == fo1(fo2(o, e, i), fe2(e, i), i),
    ensures simf(a2, a0, tape, lo, hi, fe, fo)
{
    reveal(simf);
    assert forall|st: St, env: Env, inp: Seq<f32>| #[trigger] agree(a2, st.slots, env) implies
        agree(a0, (#[trigger] reg_run_rev(tape, lo, hi, st, inp)).slots, fe(env, inp))
        && reg_run_rev(tape, lo, hi, st, inp).outs == fo(st.outs, env, inp) by {
        let r1 = reg_run_rev(tape, mid, hi, st, inp);
        assert(agree(a1, r1.slots, fe2(env, inp)));
        lemma_run_split(tape, lo, mid, hi, st, inp);
        let r0 = reg_run_rev(tape, lo, mid, r1, inp);
        assert(agree(a0, r0.slots, fe1(fe2(env, inp), inp)));
        assert(fe(env, inp) == fe1(fe2(env, inp), inp));
        assert(fo(st.outs, env, inp) == fo1(fo2(st.outs, env, inp), fe2(env, inp), inp));
    }
}
/// one more SSA op processed: compose the whole-prefix simulation with the step simulation
proof fn lemma_sim_extend(a2: Seq<u32>, a1: Seq<u32>, a0: Seq<u32>, tape: Seq<RegOp>, mid: int, hi: int, ops: Seq<SsaOp>, j: int)
    requires 0 <= j < ops.len(), 0 <= mid <= hi,
        simf(a2, a1, tape, mid, hi, ssa_fe(ops[j]), ssa_fo(ops[j])),
        simf(a1, a0, tape, 0, mid, run_fe(ops, j), run_fo(ops, j)),
    ensures simf(a2, a0, tape, 0, hi, run_fe(ops, j + 1), run_fo(ops, j + 1))
{
    let fe2 = ssa_fe(ops[j]); let fo2 = ssa_fo(ops[j]);
    let fe1 = run_fe(ops, j); let fo1 = run_fo(ops, j);
    let fe = run_fe(ops, j + 1); let fo = run_fo(ops, j + 1);
    assert forall|e: Env, i: Seq<f32>| #[trigger] fe(e, i) == fe1(fe2(e, i), i) by {
        let s0 = Ss { env: e, outs: Map::empty() };
        let s1 = ssa_step(ops[j], s0, i);
        assert(ssa_run_rev(ops, 0, j + 1, s0, i) == ssa_run_rev(ops, 0, j, s1, i));
        lemma_env_indep(ops, j, s1.env, s1.outs, Map::empty(), i);
    }
    assert forall|o: Map<int, f32>, e: Env, i: Seq<f32>| #[trigger] fo(o, e, i) == fo1(fo2(o, e, i), fe2(e, i), i) by {
        let s0 = Ss { env: e, outs: o };
        let s1 = ssa_step(ops[j], s0, i);
        assert(ssa_run_rev(ops, 0, j + 1, s0, i) == ssa_run_rev(ops, 0, j, s1, i));
    }
    lemma_sim_comp(a2, a1, a0, tape, 0, mid, hi, fe2, fo2, fe1, fo1, fe, fo);
}
proof fn lemma_sim_start(a: Seq<u32>, tape: Seq<RegOp>, ops: Seq<SsaOp>)
    ensures simf(a, a, tape, 0, 0, run_fe(ops, 0), run_fo(ops, 0))
{
    reveal(simf);
}
