use vstd::prelude::*;
verus! {
#[derive(Copy, Clone)]
enum SsaOp {
    Output(u32, u32),
    Input(u32, u32),
    CopyReg(u32, u32),
    CopyImm(u32, f32),
    NegReg(u32, u32),
    AbsReg(u32, u32),
    RecipReg(u32, u32),
    SqrtReg(u32, u32),
    SquareReg(u32, u32),
    FloorReg(u32, u32),
    CeilReg(u32, u32),
    RoundReg(u32, u32),
    SinReg(u32, u32),
    CosReg(u32, u32),
    TanReg(u32, u32),
    AsinReg(u32, u32),
    AcosReg(u32, u32),
    AtanReg(u32, u32),
    ExpReg(u32, u32),
    LnReg(u32, u32),
    NotReg(u32, u32),
    RandReg(u32, u32),
    AddRegImm(u32, u32, f32),
    MulRegImm(u32, u32, f32),
    DivRegImm(u32, u32, f32),
    DivImmReg(u32, u32, f32),
    SubImmReg(u32, u32, f32),
    SubRegImm(u32, u32, f32),
    ModRegReg(u32, u32, u32),
    ModRegImm(u32, u32, f32),
    AtanRegImm(u32, u32, f32),
    CompareRegImm(u32, u32, f32),
    MixRegImm(u32, u32, f32),
    MinRegImm(u32, u32, f32),
    MaxRegImm(u32, u32, f32),
    AndRegImm(u32, u32, f32),
    OrRegImm(u32, u32, f32),
    ModImmReg(u32, u32, f32),
    AtanImmReg(u32, u32, f32),
    CompareImmReg(u32, u32, f32),
    MixImmReg(u32, u32, f32),
    AddRegReg(u32, u32, u32),
    MulRegReg(u32, u32, u32),
    DivRegReg(u32, u32, u32),
    SubRegReg(u32, u32, u32),
    CompareRegReg(u32, u32, u32),
    AtanRegReg(u32, u32, u32),
    MixRegReg(u32, u32, u32),
    MinRegReg(u32, u32, u32),
    MaxRegReg(u32, u32, u32),
    AndRegReg(u32, u32, u32),
    OrRegReg(u32, u32, u32),
}

#[derive(Copy, Clone)]
enum RegOp {
    Output(u8, u32),
    Input(u8, u32),
    CopyReg(u8, u8),
    CopyImm(u8, f32),
    NegReg(u8, u8),
    AbsReg(u8, u8),
    RecipReg(u8, u8),
    SqrtReg(u8, u8),
    SquareReg(u8, u8),
    FloorReg(u8, u8),
    CeilReg(u8, u8),
    RoundReg(u8, u8),
    SinReg(u8, u8),
    CosReg(u8, u8),
    TanReg(u8, u8),
    AsinReg(u8, u8),
    AcosReg(u8, u8),
    AtanReg(u8, u8),
    ExpReg(u8, u8),
    LnReg(u8, u8),
    NotReg(u8, u8),
    RandReg(u8, u8),
    AddRegImm(u8, u8, f32),
    MulRegImm(u8, u8, f32),
    DivRegImm(u8, u8, f32),
    DivImmReg(u8, u8, f32),
    SubImmReg(u8, u8, f32),
    SubRegImm(u8, u8, f32),
    ModRegReg(u8, u8, u8),
    ModRegImm(u8, u8, f32),
    AtanRegImm(u8, u8, f32),
    CompareRegImm(u8, u8, f32),
    MixRegImm(u8, u8, f32),
    MinRegImm(u8, u8, f32),
    MaxRegImm(u8, u8, f32),
    AndRegImm(u8, u8, f32),
    OrRegImm(u8, u8, f32),
    ModImmReg(u8, u8, f32),
    AtanImmReg(u8, u8, f32),
    CompareImmReg(u8, u8, f32),
    MixImmReg(u8, u8, f32),
    AddRegReg(u8, u8, u8),
    MulRegReg(u8, u8, u8),
    DivRegReg(u8, u8, u8),
    SubRegReg(u8, u8, u8),
    CompareRegReg(u8, u8, u8),
    AtanRegReg(u8, u8, u8),
    MixRegReg(u8, u8, u8),
    MinRegReg(u8, u8, u8),
    MaxRegReg(u8, u8, u8),
    AndRegReg(u8, u8, u8),
    OrRegReg(u8, u8, u8),
    Load(u8, u32),
    Store(u8, u32),
}
impl SsaOp {
    fn output(&self) -> Option<u32> {
        match self {
            SsaOp::Input(out, ..)
            | SsaOp::CopyImm(out, ..)
            | SsaOp::NegReg(out, ..)
            | SsaOp::AbsReg(out, ..)
            | SsaOp::RecipReg(out, ..)
            | SsaOp::SqrtReg(out, ..)
            | SsaOp::SquareReg(out, ..)
            | SsaOp::FloorReg(out, ..)
            | SsaOp::CeilReg(out, ..)
            | SsaOp::RoundReg(out, ..)
            | SsaOp::CopyReg(out, ..)
            | SsaOp::SinReg(out, ..)
            | SsaOp::CosReg(out, ..)
            | SsaOp::TanReg(out, ..)
            | SsaOp::AsinReg(out, ..)
            | SsaOp::AcosReg(out, ..)
            | SsaOp::AtanReg(out, ..)
            | SsaOp::ExpReg(out, ..)
            | SsaOp::LnReg(out, ..)
            | SsaOp::NotReg(out, ..)
            | SsaOp::RandReg(out, ..)
            | SsaOp::AddRegImm(out, ..)
            | SsaOp::MulRegImm(out, ..)
            | SsaOp::DivRegImm(out, ..)
            | SsaOp::DivImmReg(out, ..)
            | SsaOp::SubImmReg(out, ..)
            | SsaOp::SubRegImm(out, ..)
            | SsaOp::AddRegReg(out, ..)
            | SsaOp::MulRegReg(out, ..)
            | SsaOp::DivRegReg(out, ..)
            | SsaOp::SubRegReg(out, ..)
            | SsaOp::AtanRegReg(out, ..)
            | SsaOp::AtanRegImm(out, ..)
            | SsaOp::AtanImmReg(out, ..)
            | SsaOp::MinRegImm(out, ..)
            | SsaOp::MaxRegImm(out, ..)
            | SsaOp::MinRegReg(out, ..)
            | SsaOp::MaxRegReg(out, ..)
            | SsaOp::CompareRegReg(out, ..)
            | SsaOp::CompareRegImm(out, ..)
            | SsaOp::CompareImmReg(out, ..)
            | SsaOp::MixRegReg(out, ..)
            | SsaOp::MixRegImm(out, ..)
            | SsaOp::MixImmReg(out, ..)
            | SsaOp::ModRegReg(out, ..)
            | SsaOp::ModRegImm(out, ..)
            | SsaOp::ModImmReg(out, ..)
            | SsaOp::AndRegImm(out, ..)
            | SsaOp::AndRegReg(out, ..)
            | SsaOp::OrRegImm(out, ..)
            | SsaOp::OrRegReg(out, ..) => Some(*out),
            SsaOp::Output(..) => None,
        }
    }
    fn has_choice(&self) -> bool {
        match self {
            SsaOp::Input(..)
            | SsaOp::Output(..)
            | SsaOp::CopyImm(..)
            | SsaOp::NegReg(..)
            | SsaOp::AbsReg(..)
            | SsaOp::RecipReg(..)
            | SsaOp::SqrtReg(..)
            | SsaOp::SquareReg(..)
            | SsaOp::FloorReg(..)
            | SsaOp::CeilReg(..)
            | SsaOp::RoundReg(..)
            | SsaOp::CopyReg(..)
            | SsaOp::SinReg(..)
            | SsaOp::CosReg(..)
            | SsaOp::TanReg(..)
            | SsaOp::AsinReg(..)
            | SsaOp::AcosReg(..)
            | SsaOp::AtanReg(..)
            | SsaOp::ExpReg(..)
            | SsaOp::LnReg(..)
            | SsaOp::NotReg(..)
            | SsaOp::RandReg(..)
            | SsaOp::AddRegImm(..)
            | SsaOp::MulRegImm(..)
            | SsaOp::SubRegImm(..)
            | SsaOp::SubImmReg(..)
            | SsaOp::AddRegReg(..)
            | SsaOp::MulRegReg(..)
            | SsaOp::SubRegReg(..)
            | SsaOp::DivRegReg(..)
            | SsaOp::DivRegImm(..)
            | SsaOp::DivImmReg(..)
            | SsaOp::AtanRegReg(..)
            | SsaOp::AtanRegImm(..)
            | SsaOp::AtanImmReg(..)
            | SsaOp::CompareRegReg(..)
            | SsaOp::CompareRegImm(..)
            | SsaOp::CompareImmReg(..)
            | SsaOp::MixRegReg(..)
            | SsaOp::MixRegImm(..)
            | SsaOp::MixImmReg(..)
            | SsaOp::ModRegReg(..)
            | SsaOp::ModRegImm(..)
            | SsaOp::ModImmReg(..) => false,
            SsaOp::MinRegImm(..)
            | SsaOp::MaxRegImm(..)
            | SsaOp::MinRegReg(..)
            | SsaOp::MaxRegReg(..)
            | SsaOp::AndRegImm(..)
            | SsaOp::AndRegReg(..)
            | SsaOp::OrRegImm(..)
            | SsaOp::OrRegReg(..) => true,
        }
    }
}


#[derive(Copy, Clone)]
enum Choice { Unknown = 0, Left = 1, Right = 2, Both = 3 }

const UNASSIGNED: u32 = u32::MAX;
// std semantics assumed (trusted base)
pub assume_specification<T: Clone> [<[T]>::fill] (s: &mut [T], v: T)
    ensures final(s)@.len() == old(s)@.len(), forall|i: int| 0 <= i < final(s)@.len() ==> #[trigger] final(s)@[i] == v;

struct RegTape { tape: Vec<RegOp>, slot_count: u32 }
struct SsaTape { tape: Vec<SsaOp>, choice_count: usize, output_count: usize }
impl SsaTape {
    fn reset(&mut self) {
        self.tape.clear();
        self.choice_count = 0;
    }
}
#[verifier::external_body]
struct VarMap { x: usize }
#[verifier::external_body]
struct ArcVarMap { p: std::sync::Arc<VarMap> }
impl ArcVarMap { #[verifier::external_body] fn clone(&self) -> (r: Self) { unimplemented!() } }

// allocator: only its contract is visible here (proved in the alloc unit)
struct RegisterAllocator<const N: usize> { allocations: Vec<u32>, out: RegTape }
impl<const N: usize> RegisterAllocator<N> {
    #[verifier::external_body]
    fn op(&mut self, op: SsaOp) { unimplemented!() }
    #[verifier::external_body]
    fn reset(&mut self, size: usize, tape: RegTape) { unimplemented!() }
    #[verifier::external_body]
    fn finalize(&mut self) -> RegTape { unimplemented!() }
}
struct BadChoiceSlice { actual: usize, expected: usize }
struct VmData<const N: usize> { ssa: SsaTape, asm: RegTape, vars: ArcVarMap }
struct VmWorkspace<const N: usize> {
    alloc: RegisterAllocator<N>,

    bind: Vec<u32>,

    count: u32,
}

impl<const N: usize> VmWorkspace<N> {
    fn active(&self, i: u32) -> Option<u32> {
        if self.bind[i as usize] != u32::MAX {
            Some(self.bind[i as usize])
        } else {
            None
        }
    }

    fn get_or_insert_active(&mut self, i: u32) -> u32 {
        if self.bind[i as usize] == u32::MAX {
            self.bind[i as usize] = self.count;
            self.count += 1;
        }
        self.bind[i as usize]
    }

    fn set_active(&mut self, i: u32, bind: u32) {
        self.bind[i as usize] = bind;
    }

    fn reset(&mut self, tape_len: usize, tape: RegTape) {
        self.alloc.reset(tape_len, tape);
        self.bind.fill(u32::MAX);
        self.bind.resize(tape_len, u32::MAX);
        self.count = 0;
    }
}


impl<const N: usize> VmData<N> {
    fn choice_count(&self) -> usize { self.ssa.choice_count }
    fn simplify<const M: usize>(
        &self,
        choices: &[Choice],
        workspace: &mut VmWorkspace<M>,
        mut tape: VmData<M>,
    ) -> Result<VmData<M>, BadChoiceSlice> {
        if choices.len() != self.choice_count() {
            return Err(BadChoiceSlice {
                actual: choices.len(),
                expected: self.choice_count(),
            });
        }
        tape.ssa.reset();

        workspace.reset(self.ssa.tape.len(), tape.asm);

        let mut choice_count = 0;
        let mut output_count = 0;

        let mut choice_k_: usize = choices.len();   // R-revnext: choices.iter().rev()

        let mut ops_out = tape.ssa.tape;

        let mut k_: usize = 0;
        while k_ < self.ssa.tape.len()
            invariant k_ <= self.ssa.tape.len()
            decreases self.ssa.tape.len() - k_
        {   // R-iter
            let mut op = self.ssa.tape[k_];
            k_ += 1;
            let index = match &mut op {
                SsaOp::Output(reg, _i) => {
                    *reg = workspace.get_or_insert_active(*reg);
                    workspace.alloc.op(op);
                    ops_out.push(op);
                    output_count += 1;
                    continue;
                }
                _ => op.output().unwrap(),
            };

            if workspace.active(index).is_none() {
                if op.has_choice() {
                    { assert!(choice_k_ > 0); choice_k_ -= 1; }   // R-revnext: .next().unwrap()
                }
                continue;
            }

            let new_index = workspace.active(index).unwrap();

            match &mut op {
                SsaOp::Output(..) => panic!(),
                SsaOp::Input(index, ..) => {
                    *index = new_index;
                }
                SsaOp::CopyImm(index, ..) => {
                    *index = new_index;
                }
                SsaOp::NegReg(index, arg) => {
                    *index = new_index;
                    *arg = workspace.get_or_insert_active(*arg);
                }
                SsaOp::AbsReg(index, arg) => {
                    *index = new_index;
                    *arg = workspace.get_or_insert_active(*arg);
                }
                SsaOp::RecipReg(index, arg) => {
                    *index = new_index;
                    *arg = workspace.get_or_insert_active(*arg);
                }
                SsaOp::SqrtReg(index, arg) => {
                    *index = new_index;
                    *arg = workspace.get_or_insert_active(*arg);
                }
                SsaOp::SquareReg(index, arg) => {
                    *index = new_index;
                    *arg = workspace.get_or_insert_active(*arg);
                }
                SsaOp::FloorReg(index, arg) => {
                    *index = new_index;
                    *arg = workspace.get_or_insert_active(*arg);
                }
                SsaOp::CeilReg(index, arg) => {
                    *index = new_index;
                    *arg = workspace.get_or_insert_active(*arg);
                }
                SsaOp::RoundReg(index, arg) => {
                    *index = new_index;
                    *arg = workspace.get_or_insert_active(*arg);
                }
                SsaOp::SinReg(index, arg) => {
                    *index = new_index;
                    *arg = workspace.get_or_insert_active(*arg);
                }
                SsaOp::CosReg(index, arg) => {
                    *index = new_index;
                    *arg = workspace.get_or_insert_active(*arg);
                }
                SsaOp::TanReg(index, arg) => {
                    *index = new_index;
                    *arg = workspace.get_or_insert_active(*arg);
                }
                SsaOp::AsinReg(index, arg) => {
                    *index = new_index;
                    *arg = workspace.get_or_insert_active(*arg);
                }
                SsaOp::AcosReg(index, arg) => {
                    *index = new_index;
                    *arg = workspace.get_or_insert_active(*arg);
                }
                SsaOp::AtanReg(index, arg) => {
                    *index = new_index;
                    *arg = workspace.get_or_insert_active(*arg);
                }
                SsaOp::ExpReg(index, arg) => {
                    *index = new_index;
                    *arg = workspace.get_or_insert_active(*arg);
                }
                SsaOp::LnReg(index, arg) => {
                    *index = new_index;
                    *arg = workspace.get_or_insert_active(*arg);
                }
                SsaOp::NotReg(index, arg) => {
                    *index = new_index;
                    *arg = workspace.get_or_insert_active(*arg);
                }
                SsaOp::RandReg(index, arg) => {
                    *index = new_index;
                    *arg = workspace.get_or_insert_active(*arg);
                }
                SsaOp::CopyReg(index, src) => {
                    match workspace.active(*src) {
                        Some(new_src) => {
                            *index = new_index;
                            *src = new_src;
                        }
                        None => {
                            workspace.set_active(*src, new_index);
                            continue;
                        }
                    }
                }
                SsaOp::MinRegImm(index, arg, imm) => {
                    match { assert!(choice_k_ > 0); choice_k_ -= 1; choices[choice_k_] } {   // R-revnext
                        Choice::Left => match workspace.active(*arg) {
                            Some(new_arg) => {
                                op = SsaOp::CopyReg(new_index, new_arg);
                            }
                            None => {
                                workspace.set_active(*arg, new_index);
                                continue;
                            }
                        },
                        Choice::Right => {
                            op = SsaOp::CopyImm(new_index, *imm);
                        }
                        Choice::Both => {
                            choice_count += 1;
                            *index = new_index;
                            *arg = workspace.get_or_insert_active(*arg);
                        }
                        Choice::Unknown => panic!(),
                    }
                }
                SsaOp::MaxRegImm(index, arg, imm) => {
                    match { assert!(choice_k_ > 0); choice_k_ -= 1; choices[choice_k_] } {   // R-revnext
                        Choice::Left => match workspace.active(*arg) {
                            Some(new_arg) => {
                                op = SsaOp::CopyReg(new_index, new_arg);
                            }
                            None => {
                                workspace.set_active(*arg, new_index);
                                continue;
                            }
                        },
                        Choice::Right => {
                            op = SsaOp::CopyImm(new_index, *imm);
                        }
                        Choice::Both => {
                            choice_count += 1;
                            *index = new_index;
                            *arg = workspace.get_or_insert_active(*arg);
                        }
                        Choice::Unknown => panic!(),
                    }
                }
                SsaOp::AndRegImm(index, arg, imm) => {
                    match { assert!(choice_k_ > 0); choice_k_ -= 1; choices[choice_k_] } {   // R-revnext
                        Choice::Left => match workspace.active(*arg) {
                            Some(new_arg) => {
                                op = SsaOp::CopyReg(new_index, new_arg);
                            }
                            None => {
                                workspace.set_active(*arg, new_index);
                                continue;
                            }
                        },
                        Choice::Right => {
                            op = SsaOp::CopyImm(new_index, *imm);
                        }
                        Choice::Both => {
                            choice_count += 1;
                            *index = new_index;
                            *arg = workspace.get_or_insert_active(*arg);
                        }
                        Choice::Unknown => panic!(),
                    }
                }
                SsaOp::OrRegImm(index, arg, imm) => {
                    match { assert!(choice_k_ > 0); choice_k_ -= 1; choices[choice_k_] } {   // R-revnext
                        Choice::Left => match workspace.active(*arg) {
                            Some(new_arg) => {
                                op = SsaOp::CopyReg(new_index, new_arg);
                            }
                            None => {
                                workspace.set_active(*arg, new_index);
                                continue;
                            }
                        },
                        Choice::Right => {
                            op = SsaOp::CopyImm(new_index, *imm);
                        }
                        Choice::Both => {
                            choice_count += 1;
                            *index = new_index;
                            *arg = workspace.get_or_insert_active(*arg);
                        }
                        Choice::Unknown => panic!(),
                    }
                }
                SsaOp::MinRegReg(index, lhs, rhs) => {
                    match { assert!(choice_k_ > 0); choice_k_ -= 1; choices[choice_k_] } {   // R-revnext
                        Choice::Left => match workspace.active(*lhs) {
                            Some(new_lhs) => {
                                op = SsaOp::CopyReg(new_index, new_lhs);
                            }
                            None => {
                                workspace.set_active(*lhs, new_index);
                                continue;
                            }
                        },
                        Choice::Right => match workspace.active(*rhs) {
                            Some(new_rhs) => {
                                op = SsaOp::CopyReg(new_index, new_rhs);
                            }
                            None => {
                                workspace.set_active(*rhs, new_index);
                                continue;
                            }
                        },
                        Choice::Both => {
                            choice_count += 1;
                            *index = new_index;
                            *lhs = workspace.get_or_insert_active(*lhs);
                            *rhs = workspace.get_or_insert_active(*rhs);
                        }
                        Choice::Unknown => panic!(),
                    }
                }
                SsaOp::MaxRegReg(index, lhs, rhs) => {
                    match { assert!(choice_k_ > 0); choice_k_ -= 1; choices[choice_k_] } {   // R-revnext
                        Choice::Left => match workspace.active(*lhs) {
                            Some(new_lhs) => {
                                op = SsaOp::CopyReg(new_index, new_lhs);
                            }
                            None => {
                                workspace.set_active(*lhs, new_index);
                                continue;
                            }
                        },
                        Choice::Right => match workspace.active(*rhs) {
                            Some(new_rhs) => {
                                op = SsaOp::CopyReg(new_index, new_rhs);
                            }
                            None => {
                                workspace.set_active(*rhs, new_index);
                                continue;
                            }
                        },
                        Choice::Both => {
                            choice_count += 1;
                            *index = new_index;
                            *lhs = workspace.get_or_insert_active(*lhs);
                            *rhs = workspace.get_or_insert_active(*rhs);
                        }
                        Choice::Unknown => panic!(),
                    }
                }
                SsaOp::AndRegReg(index, lhs, rhs) => {
                    match { assert!(choice_k_ > 0); choice_k_ -= 1; choices[choice_k_] } {   // R-revnext
                        Choice::Left => match workspace.active(*lhs) {
                            Some(new_lhs) => {
                                op = SsaOp::CopyReg(new_index, new_lhs);
                            }
                            None => {
                                workspace.set_active(*lhs, new_index);
                                continue;
                            }
                        },
                        Choice::Right => match workspace.active(*rhs) {
                            Some(new_rhs) => {
                                op = SsaOp::CopyReg(new_index, new_rhs);
                            }
                            None => {
                                workspace.set_active(*rhs, new_index);
                                continue;
                            }
                        },
                        Choice::Both => {
                            choice_count += 1;
                            *index = new_index;
                            *lhs = workspace.get_or_insert_active(*lhs);
                            *rhs = workspace.get_or_insert_active(*rhs);
                        }
                        Choice::Unknown => panic!(),
                    }
                }
                SsaOp::OrRegReg(index, lhs, rhs) => {
                    match { assert!(choice_k_ > 0); choice_k_ -= 1; choices[choice_k_] } {   // R-revnext
                        Choice::Left => match workspace.active(*lhs) {
                            Some(new_lhs) => {
                                op = SsaOp::CopyReg(new_index, new_lhs);
                            }
                            None => {
                                workspace.set_active(*lhs, new_index);
                                continue;
                            }
                        },
                        Choice::Right => match workspace.active(*rhs) {
                            Some(new_rhs) => {
                                op = SsaOp::CopyReg(new_index, new_rhs);
                            }
                            None => {
                                workspace.set_active(*rhs, new_index);
                                continue;
                            }
                        },
                        Choice::Both => {
                            choice_count += 1;
                            *index = new_index;
                            *lhs = workspace.get_or_insert_active(*lhs);
                            *rhs = workspace.get_or_insert_active(*rhs);
                        }
                        Choice::Unknown => panic!(),
                    }
                }
                SsaOp::AddRegReg(index, lhs, rhs) => {
                    *index = new_index;
                    *lhs = workspace.get_or_insert_active(*lhs);
                    *rhs = workspace.get_or_insert_active(*rhs);
                }
                SsaOp::MulRegReg(index, lhs, rhs) => {
                    *index = new_index;
                    *lhs = workspace.get_or_insert_active(*lhs);
                    *rhs = workspace.get_or_insert_active(*rhs);
                }
                SsaOp::SubRegReg(index, lhs, rhs) => {
                    *index = new_index;
                    *lhs = workspace.get_or_insert_active(*lhs);
                    *rhs = workspace.get_or_insert_active(*rhs);
                }
                SsaOp::DivRegReg(index, lhs, rhs) => {
                    *index = new_index;
                    *lhs = workspace.get_or_insert_active(*lhs);
                    *rhs = workspace.get_or_insert_active(*rhs);
                }
                SsaOp::AtanRegReg(index, lhs, rhs) => {
                    *index = new_index;
                    *lhs = workspace.get_or_insert_active(*lhs);
                    *rhs = workspace.get_or_insert_active(*rhs);
                }
                SsaOp::CompareRegReg(index, lhs, rhs) => {
                    *index = new_index;
                    *lhs = workspace.get_or_insert_active(*lhs);
                    *rhs = workspace.get_or_insert_active(*rhs);
                }
                SsaOp::MixRegReg(index, lhs, rhs) => {
                    *index = new_index;
                    *lhs = workspace.get_or_insert_active(*lhs);
                    *rhs = workspace.get_or_insert_active(*rhs);
                }
                SsaOp::ModRegReg(index, lhs, rhs) => {
                    *index = new_index;
                    *lhs = workspace.get_or_insert_active(*lhs);
                    *rhs = workspace.get_or_insert_active(*rhs);
                }
                SsaOp::AddRegImm(index, arg, _imm) => {
                    *index = new_index;
                    *arg = workspace.get_or_insert_active(*arg);
                }
                SsaOp::MulRegImm(index, arg, _imm) => {
                    *index = new_index;
                    *arg = workspace.get_or_insert_active(*arg);
                }
                SsaOp::SubRegImm(index, arg, _imm) => {
                    *index = new_index;
                    *arg = workspace.get_or_insert_active(*arg);
                }
                SsaOp::SubImmReg(index, arg, _imm) => {
                    *index = new_index;
                    *arg = workspace.get_or_insert_active(*arg);
                }
                SsaOp::DivRegImm(index, arg, _imm) => {
                    *index = new_index;
                    *arg = workspace.get_or_insert_active(*arg);
                }
                SsaOp::DivImmReg(index, arg, _imm) => {
                    *index = new_index;
                    *arg = workspace.get_or_insert_active(*arg);
                }
                SsaOp::AtanImmReg(index, arg, _imm) => {
                    *index = new_index;
                    *arg = workspace.get_or_insert_active(*arg);
                }
                SsaOp::AtanRegImm(index, arg, _imm) => {
                    *index = new_index;
                    *arg = workspace.get_or_insert_active(*arg);
                }
                SsaOp::CompareRegImm(index, arg, _imm) => {
                    *index = new_index;
                    *arg = workspace.get_or_insert_active(*arg);
                }
                SsaOp::CompareImmReg(index, arg, _imm) => {
                    *index = new_index;
                    *arg = workspace.get_or_insert_active(*arg);
                }
                SsaOp::MixRegImm(index, arg, _imm) => {
                    *index = new_index;
                    *arg = workspace.get_or_insert_active(*arg);
                }
                SsaOp::MixImmReg(index, arg, _imm) => {
                    *index = new_index;
                    *arg = workspace.get_or_insert_active(*arg);
                }
                SsaOp::ModRegImm(index, arg, _imm) => {
                    *index = new_index;
                    *arg = workspace.get_or_insert_active(*arg);
                }
                SsaOp::ModImmReg(index, arg, _imm) => {
                    *index = new_index;
                    *arg = workspace.get_or_insert_active(*arg);
                }
            }
            workspace.alloc.op(op);
            ops_out.push(op);
        }

        assert!(workspace.count as usize + 1 == ops_out.len());
        let asm_tape = workspace.alloc.finalize();

        Ok(VmData {
            ssa: SsaTape {
                tape: ops_out,
                choice_count,
                output_count,
            },
            asm: asm_tape,
            vars: self.vars.clone(),
        })
    }


}
} // verus!
fn main() {}
