use vstd::prelude::*;
verus! {

#[derive(Copy, Clone, Default)]
struct LruNode {
    prev: u8,
    next: u8,
}

struct Lru<const N: usize> {
    data: [LruNode; N],
    head: u8,
}

// ---- spec (would live in /verif/specs/lru.spec.rs) ----
impl<const N: usize> Lru<N> {
    /// `o` lists nodes from newest (index 0 = head) to oldest (index N-1)
    spec fn wf_with(&self, o: Seq<u8>) -> bool {
        &&& 1 <= N <= 255
        &&& o.len() == N
        &&& o[0] == self.head
        &&& forall|k: int| 0 <= k < N ==> (#[trigger] o[k] as int) < N
        &&& forall|j: int, k: int| 0 <= j < k < N ==> o[j] != o[k]
        &&& forall|v: u8| (v as int) < N ==> #[trigger] o.contains(v)
        &&& forall|k: int| 0 <= k < N - 1 ==> self.data[#[trigger] o[k] as int].next == o[k + 1]
        &&& self.data[o[N - 1] as int].next == o[0]
        &&& forall|k: int| 1 <= k < N ==> self.data[#[trigger] o[k] as int].prev == o[k - 1]
        &&& self.data[o[0] as int].prev == o[N - 1]
    }
    spec fn wf(&self) -> bool { exists|o: Seq<u8>| self.wf_with(o) }
    spec fn order(&self) -> Seq<u8> { choose|o: Seq<u8>| self.wf_with(o) }

    proof fn lemma_unique(&self, o1: Seq<u8>, o2: Seq<u8>)
        requires self.wf_with(o1), self.wf_with(o2)
        ensures o1 == o2
    {
        assert forall|k: int| 0 <= k < N implies o1[k] == o2[k] by {
            Self::lemma_unique_ind(*self, o1, o2, k);
        }
        assert(o1 =~= o2);
    }
    proof fn lemma_unique_ind(s: Self, o1: Seq<u8>, o2: Seq<u8>, k: int)
        requires s.wf_with(o1), s.wf_with(o2), 0 <= k < N
        ensures o1[k] == o2[k]
        decreases k
    {
        if k > 0 { Self::lemma_unique_ind(s, o1, o2, k - 1); }
    }
    proof fn lemma_order(&self, o: Seq<u8>)
        requires self.wf_with(o)
        ensures self.wf(), self.order() == o
    {
        self.lemma_unique(o, self.order());
    }
}

impl<const N: usize> Lru<N> {
    fn new() -> (out: Self)
        requires 1 <= N <= 255
        ensures out.wf(), out.order() == Seq::new(N as nat, |k: int| k as u8)
    {
        let mut out = Self {
            data: [LruNode::default(); N],
            head: 0,
        };
        for i in 0..N
            invariant out.head == 0, 1 <= N <= 255,
                forall|k: int| 0 <= k < i ==> (#[trigger] out.data[k]).next == ((k + 1) % (N as int)) as u8
                    && out.data[k].prev == (if k == 0 { N as int - 1 } else { k - 1 }) as u8,
        {
            out.data[i].next = ((i + 1) % N) as u8;
            out.data[i].prev = (i.checked_sub(1).unwrap_or(N - 1)) as u8;
        }
        proof {
            let o = Seq::new(N as nat, |k: int| k as u8);
            assert forall|v: u8| (v as int) < N implies #[trigger] o.contains(v) by { assert(o[v as int] == v); }
            assert forall|k: int| 0 <= k < N - 1 implies out.data[#[trigger] o[k] as int].next == o[k + 1] by {
                vstd::arithmetic::div_mod::lemma_small_mod((k + 1) as nat, N as nat);
            }
            assert(out.data[o[N as int - 1] as int].next == o[0]) by {
                vstd::arithmetic::div_mod::lemma_mod_self_0(N as int);
            }
            assert(out.wf_with(o));
            out.lemma_order(o);
        }
        out
    }
    fn pop(&mut self) -> (out: u8)
        requires old(self).wf(),
        ensures
            final(self).wf(),
            out == old(self).order()[N as int - 1],
            final(self).order() == seq![out] + old(self).order().subrange(0, N as int - 1),
    {
        let ghost o = self.order();
        let out = self.data[self.head as usize].prev;
        self.head = out; // rotate
        proof {
            let n = N as int;
            let no = seq![out] + o.subrange(0, n - 1);
            assert forall|v: u8| (v as int) < N implies #[trigger] no.contains(v) by {
                assert(o.contains(v));
                let k = choose|k: int| 0 <= k < o.len() && o[k] == v;
                if k == n - 1 { assert(no[0] == v); } else { assert(no[k + 1] == v); }
            }
            assert(self.wf_with(no));
            self.lemma_order(no);
        }
        out
    }

    /// Remove a node from the linked list
    #[inline]
    fn remove(&mut self, i: u8)
        requires (i as int) < N, 
            (old(self).data[i as int].prev as int) < N,
            (old(self).data[i as int].next as int) < N,
        ensures
            final(self).head == old(self).head,
            final(self).data@ == old(self).data@
                .update(old(self).data[i as int].prev as int, LruNode { prev: old(self).data[old(self).data[i as int].prev as int].prev, next: old(self).data[i as int].next })
                .update(old(self).data[i as int].next as int, LruNode { 
                      prev: old(self).data[i as int].prev, 
                      next: if old(self).data[i as int].next == old(self).data[i as int].prev { old(self).data[i as int].next } else { old(self).data[old(self).data[i as int].next as int].next } })
    {
        let node = self.data[i as usize];
        self.data[node.prev as usize].next = self.data[i as usize].next;
        self.data[node.next as usize].prev = self.data[i as usize].prev;
    }
}


impl<const N: usize> Lru<N> {
    /// Inserts node `i` before location `next`
    #[inline]
    fn insert_before(&mut self, i: u8, next: u8)
        requires (i as int) < N, (next as int) < N,
            (old(self).data[next as int].prev as int) < N,
        ensures
            final(self).head == old(self).head,
            final(self).data@ == old(self).data@
                .update(old(self).data[next as int].prev as int, LruNode { prev: old(self).data[old(self).data[next as int].prev as int].prev, next: i })
                .update(next as int, LruNode { prev: i, next: if old(self).data[next as int].prev == next { i } else { old(self).data[next as int].next } })
                .update(i as int, LruNode { next, prev: old(self).data[next as int].prev }),
    {
        let prev = self.data[next as usize].prev;
        self.data[prev as usize].next = i;
        self.data[next as usize].prev = i;
        self.data[i as usize] = LruNode { next, prev };
    }

    /// Mark the given node as newest
    #[inline]
    fn poke(&mut self, i: u8)
        requires old(self).wf(), (i as int) < N,
        ensures
            final(self).wf(),
            final(self).order() == poke_order(old(self).order(), i),
    {
        let ghost o = self.order();
        let ghost idx = o.index_of(i);
        proof {
            lemma_perm_contains::<N>(*self, o, i);
            assert(o.contains(i));
            assert(0 <= idx < N && o[idx] == i);
        }
        let prev_newest = self.head;
        if prev_newest == i {
            proof {
                assert(idx == 0);
                assert(poke_order(o, i) =~= o);
            }
            return;
        } else if self.data[prev_newest as usize].prev != i {
            // If this wasn't the oldest node, then remove it and reinsert it
            // right before the head of the list.
            proof { assert(0 < idx < N - 1); }
            proof {
                assert(self.data[i as int].prev == o[idx - 1]);
                assert(self.data[i as int].next == o[idx + 1]);
                assert(o[idx - 1] != o[idx + 1]);
            }
            self.remove(i);
            let ghost sa = *self;
            proof {
                assert(o[0] != o[idx + 1]);
                assert(o[0] != o[N as int - 1]);
                assert(sa.data[o[0] as int].prev == o[N as int - 1]);
                assert(sa.data[o[N as int - 1] as int].prev == if idx + 1 == N as int - 1 { o[idx - 1] } else { o[N as int - 2] });
                assert(sa.data[o[0] as int].next == if idx == 1 { o[2] } else { o[1] });
            }
            self.insert_before(i, self.head);
            proof { Self::lemma_poke_mid(*old(self), *self, o, i, idx); }
            self.head = i; // rotate the head back by one
            proof { Self::lemma_poke_fin(*old(self), *self, o, i, idx); }
        } else {
            proof { assert(idx == N - 1); assert(N >= 2); }
            self.head = i; // rotate the head back by one
            proof { Self::lemma_poke_last(*old(self), *self, o, i); }
        }
    }

    proof fn lemma_poke_last(s0: Self, s1: Self, o: Seq<u8>, i: u8)
        requires s0.wf_with(o), o[N as int - 1] == i, s1.head == i, s1.data@ == s0.data@, N >= 2,
        ensures s1.wf(), s1.order() == poke_order(o, i)
    {
        let no = poke_order(o, i);
        assert(o.contains(i)) by { assert(o[N as int - 1] == i); }
        assert(o.index_of(i) == N as int - 1);
        lemma_poke_order_contains(o, i);
        assert forall|k: int| 1 <= k < N implies #[trigger] no[k] == o[k - 1] by {}
        assert(s1.wf_with(no));
        s1.lemma_order(no);
    }

    proof fn lemma_poke_mid(s0: Self, s1: Self, o: Seq<u8>, i: u8, idx: int)
        requires s0.wf_with(o), 0 < idx < N - 1, o[idx] == i,
            s1.head == s0.head,
            s1.data@ == s0.data@
                .update(o[idx - 1] as int, LruNode { prev: s0.data[o[idx-1] as int].prev, next: o[idx + 1] })
                .update(o[idx + 1] as int, LruNode { prev: o[idx - 1], next: s0.data[o[idx+1] as int].next })
                .update(o[N - 1] as int, LruNode { prev: if idx + 1 == N - 1 { o[idx - 1] } else { o[N - 2] }, next: i })
                .update(o[0] as int, LruNode { prev: i, next: if idx == 1 { o[2] } else { o[1] } })
                .update(i as int, LruNode { next: o[0], prev: o[N - 1] }),
        ensures
            forall|k: int| 0 <= k < N && k != idx && k != idx - 1 && k != N - 1 ==> s1.data[#[trigger] o[k] as int].next == o[k + 1],
            s1.data[o[idx - 1] as int].next == o[idx + 1],
            s1.data[o[N - 1] as int].next == i,
            s1.data[i as int].next == o[0],
            forall|k: int| 1 <= k < N && k != idx && k != idx + 1 ==> s1.data[#[trigger] o[k] as int].prev == o[k - 1],
            s1.data[o[idx + 1] as int].prev == o[idx - 1],
            s1.data[o[0] as int].prev == i,
            s1.data[i as int].prev == o[N - 1],
    {
        let n = N as int;
        let a = o[idx - 1] as int; let b = o[idx + 1] as int; let l = o[n - 1] as int; let h = o[0] as int; let ii = i as int;
        // distinctness facts
        assert(a != ii && b != ii && l != ii && h != ii);
        assert(a != b);
        assert(a != l);
        assert(b != h);
        assert(l != h);
        assert((a == h) == (idx == 1));
        assert((b == l) == (idx + 1 == n - 1));
        let d0 = s0.data@;
        let d1 = d0.update(a, LruNode { prev: s0.data[a].prev, next: o[idx + 1] });
        let d2 = d1.update(b, LruNode { prev: o[idx - 1], next: s0.data[b].next });
        let d3 = d2.update(l, LruNode { prev: if idx + 1 == n - 1 { o[idx - 1] } else { o[n - 2] }, next: i });
        let d4 = d3.update(h, LruNode { prev: i, next: if idx == 1 { o[2] } else { o[1] } });
        let d5 = d4.update(ii, LruNode { next: o[0], prev: o[n - 1] });
        assert(s1.data@ == d5);
        assert forall|k: int| 0 <= k < n && k != idx && k != idx - 1 && k != n - 1 implies s1.data[#[trigger] o[k] as int].next == o[k + 1] by {
            let x = o[k] as int;
            assert(x != ii); assert(x != a); assert(x != l);
            if k == 0 { assert(x == h); if idx == 1 { assert(false); } }
            else if k == idx + 1 { assert(x == b); assert(x != h); assert(d5[x] == d2[x]); }
            else { assert(x != b); assert(x != h); assert(d5[x] == d0[x]); }
        }
        assert forall|k: int| 1 <= k < n && k != idx && k != idx + 1 implies s1.data[#[trigger] o[k] as int].prev == o[k - 1] by {
            let x = o[k] as int;
            assert(x != ii); assert(x != b); assert(x != h);
            if k == n - 1 { assert(x == l); }
            else if k == idx - 1 { assert(x == a); assert(x != l); assert(d5[x] == d1[x]); }
            else { assert(x != a); assert(x != l); assert(d5[x] == d0[x]); }
        }
    }

    proof fn lemma_poke_fin(s0: Self, s1: Self, o: Seq<u8>, i: u8, idx: int)
        requires s0.wf_with(o), 0 < idx < N - 1, o[idx] == i, s1.head == i,
            forall|k: int| 0 <= k < N && k != idx && k != idx - 1 && k != N - 1 ==> s1.data[#[trigger] o[k] as int].next == o[k + 1],
            s1.data[o[idx - 1] as int].next == o[idx + 1],
            s1.data[o[N - 1] as int].next == i,
            s1.data[i as int].next == o[0],
            forall|k: int| 1 <= k < N && k != idx && k != idx + 1 ==> s1.data[#[trigger] o[k] as int].prev == o[k - 1],
            s1.data[o[idx + 1] as int].prev == o[idx - 1],
            s1.data[o[0] as int].prev == i,
            s1.data[i as int].prev == o[N - 1],
        ensures s1.wf(), s1.order() == poke_order(o, i)
    {
        let no = poke_order(o, i);
        assert(o.index_of(i) == idx);
        assert(o.contains(i));
        lemma_poke_order_contains(o, i);
        assert(s1.wf_with(no));
        s1.lemma_order(no);
    }
}

proof fn lemma_poke_order_contains(o: Seq<u8>, i: u8)
    requires o.contains(i)
    ensures forall|v: u8| o.contains(v) ==> #[trigger] poke_order(o, i).contains(v)
{
    let idx = o.index_of(i);
    let no = poke_order(o, i);
    assert forall|v: u8| o.contains(v) implies #[trigger] no.contains(v) by {
        let k = choose|k: int| 0 <= k < o.len() && o[k] == v;
        if v == i { assert(no[0] == v); }
        else if k < idx { assert(no[k + 1] == v); }
        else { assert(k != idx); assert(no[k] == v); }
    }
}
spec fn poke_order(o: Seq<u8>, i: u8) -> Seq<u8> {
    let idx = o.index_of(i);
    Seq::new(o.len(), |k: int| if k == 0 { i } else if k - 1 < idx { o[k - 1] } else { o[k] })
}

proof fn lemma_perm_contains<const N: usize>(s: Lru<N>, o: Seq<u8>, i: u8)
    requires s.wf_with(o), (i as int) < N
    ensures o.contains(i)
{}


} // verus!
fn main() {}
