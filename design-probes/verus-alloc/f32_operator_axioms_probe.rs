use vstd::prelude::*;
use vstd::std_specs::ops::*;
use vstd::std_specs::cmp::*;
use core::cmp::Ordering;
verus! {
// ---- trusted: f32 operators are total and obey their (uninterpreted) spec functions
proof fn ax_f32_obeys()
    ensures
        <f32 as AddSpec<f32>>::obeys_add_spec(),
        forall|a: f32, b: f32| #[trigger] <f32 as AddSpec<f32>>::add_req(a, b),
        <f32 as PartialOrdSpec<f32>>::obeys_partial_cmp_spec(),
{ admit(); }

spec fn flt(a: f32, b: f32) -> bool { a.partial_cmp_spec(&b) == Some(Ordering::Less) }
spec fn fle(a: f32, b: f32) -> bool { a.partial_cmp_spec(&b) == Some(Ordering::Less) || a.partial_cmp_spec(&b) == Some(Ordering::Equal) }

fn add(a: f32, b: f32) -> (r: f32)
    ensures r == a.add_spec(b)
{ proof { ax_f32_obeys(); } a + b }
fn lt(a: f32, b: f32) -> (r: bool)
    ensures r == flt(a, b)
{ proof { ax_f32_obeys(); } a < b }
fn ge(a: f32, b: f32) -> (r: bool)
    ensures r == fle(b, a)
{ proof { ax_f32_obeys(); } a >= b }
}
fn main() {}
