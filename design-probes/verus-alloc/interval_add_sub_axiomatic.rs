use vstd::prelude::*;
use vstd::std_specs::ops::*;
use vstd::std_specs::cmp::*;
use core::cmp::Ordering;
verus! {
// =================== trusted float base (axioms, instance form) ===================
pub uninterp spec fn fnan(a: f32) -> bool;
spec fn fle(a: f32, b: f32) -> bool { a.partial_cmp_spec(&b) == Some(Ordering::Less) || a.partial_cmp_spec(&b) == Some(Ordering::Equal) }
pub assume_specification [f32::is_nan] (x: f32) -> (r: bool) ensures r == fnan(x);

proof fn ax_ops(a: f32, b: f32)
    ensures
        <f32 as AddSpec<f32>>::obeys_add_spec(), <f32 as AddSpec<f32>>::add_req(a, b),
        <f32 as SubSpec<f32>>::obeys_sub_spec(), <f32 as SubSpec<f32>>::sub_req(a, b),
        <f32 as PartialOrdSpec<f32>>::obeys_partial_cmp_spec(),
        // comparison facts for this pair
        a.partial_cmp_spec(&b) is None <==> (fnan(a) || fnan(b)),
        (a.partial_cmp_spec(&b) == Some(Ordering::Greater)) <==> (b.partial_cmp_spec(&a) == Some(Ordering::Less)),
        (a.partial_cmp_spec(&b) == Some(Ordering::Equal)) <==> (b.partial_cmp_spec(&a) == Some(Ordering::Equal)),
{ admit(); }
proof fn ax_le_trans(a: f32, b: f32, c: f32) ensures fle(a, b) && fle(b, c) ==> fle(a, c) { admit(); }
proof fn ax_add_mono(a: f32, b: f32, c: f32, d: f32)
    ensures fle(a, c) && fle(b, d) && !fnan(a.add_spec(b)) && !fnan(c.add_spec(d)) ==> fle(a.add_spec(b), c.add_spec(d))
{ admit(); }
proof fn ax_sub_mono(a: f32, b: f32, c: f32, d: f32)
    ensures fle(a, c) && fle(d, b) && !fnan(a.sub_spec(b)) && !fnan(c.sub_spec(d)) ==> fle(a.sub_spec(b), c.sub_spec(d))
{ admit(); }

// =================== extracted text (interval.rs) ===================
#[derive(Copy, Clone)]
struct Interval { lower: f32, upper: f32 }
spec fn valid(i: Interval) -> bool { fle(i.lower, i.upper) || (fnan(i.lower) && fnan(i.upper)) }
spec fn mem(x: f32, i: Interval) -> bool { fle(i.lower, x) && fle(x, i.upper) }

impl Interval {
    fn new(lower: f32, upper: f32) -> (r: Self)
        requires fle(lower, upper) || (fnan(lower) && fnan(upper))
        ensures r.lower == lower, r.upper == upper
    {
        proof { ax_ops(upper, lower); }
        assert!(
            upper >= lower || (lower.is_nan() && upper.is_nan())
        );
        Self { lower, upper }
    }
    fn add(self, rhs: Self) -> (r: Self)
        requires valid(self), valid(rhs),
            fle(self.lower.add_spec(rhs.lower), self.upper.add_spec(rhs.upper))
              || (fnan(self.lower.add_spec(rhs.lower)) && fnan(self.upper.add_spec(rhs.upper))),
        ensures forall|x: f32, y: f32| mem(x, self) && mem(y, rhs) && !fnan(#[trigger] x.add_spec(y)) && !fnan(r.lower) && !fnan(r.upper) ==> mem(x.add_spec(y), r)
    {
        proof { ax_ops(self.lower, rhs.lower); ax_ops(self.upper, rhs.upper); }
        let r = Interval::new(self.lower + rhs.lower, self.upper + rhs.upper);
        proof {
            assert forall|x: f32, y: f32| mem(x, self) && mem(y, rhs) && !fnan(#[trigger] x.add_spec(y)) && !fnan(r.lower) && !fnan(r.upper) implies mem(x.add_spec(y), r) by {
                ax_add_mono(self.lower, rhs.lower, x, y);
                ax_add_mono(x, y, self.upper, rhs.upper);
            }
        }
        r
    }
    fn sub(self, rhs: Self) -> (r: Self)
        requires valid(self), valid(rhs),
            fle(self.lower.sub_spec(rhs.upper), self.upper.sub_spec(rhs.lower))
              || (fnan(self.lower.sub_spec(rhs.upper)) && fnan(self.upper.sub_spec(rhs.lower))),
        ensures forall|x: f32, y: f32| mem(x, self) && mem(y, rhs) && !fnan(#[trigger] x.sub_spec(y)) && !fnan(r.lower) && !fnan(r.upper) ==> mem(x.sub_spec(y), r)
    {
        proof { ax_ops(self.lower, rhs.upper); ax_ops(self.upper, rhs.lower); }
        let r = Interval::new(self.lower - rhs.upper, self.upper - rhs.lower);
        proof {
            assert forall|x: f32, y: f32| mem(x, self) && mem(y, rhs) && !fnan(#[trigger] x.sub_spec(y)) && !fnan(r.lower) && !fnan(r.upper) implies mem(x.sub_spec(y), r) by {
                ax_sub_mono(self.lower, rhs.upper, x, y);
                ax_sub_mono(x, y, self.upper, rhs.lower);
            }
        }
        r
    }
}
}
fn main() {}
