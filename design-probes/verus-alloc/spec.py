# Prototype spec file for alloc.rs (design probe).  Keyed by fn name.
# Each entry: (named return or None, "requires/ensures text")

PRELUDE0 = r'''
// ---------------- spec views for RegisterAllocator ----------------
spec fn op_ok(op: RegOp, n: int, slots: int) -> bool {
    match op {
        RegOp::Load(r, m) => (r as int) < n && n <= (m as int) < slots,
        RegOp::Store(r, m) => (r as int) < n && n <= (m as int) < slots,
        RegOp::Output(r, _) => (r as int) < n,
        RegOp::Input(r, _) => (r as int) < n,
        RegOp::CopyImm(r, _) => (r as int) < n,
        RegOp::CopyReg(o, a) | RegOp::NegReg(o, a) | RegOp::AbsReg(o, a) | RegOp::RecipReg(o, a)
        | RegOp::SqrtReg(o, a) | RegOp::SquareReg(o, a) | RegOp::FloorReg(o, a) | RegOp::CeilReg(o, a)
        | RegOp::RoundReg(o, a) | RegOp::SinReg(o, a) | RegOp::CosReg(o, a) | RegOp::TanReg(o, a)
        | RegOp::AsinReg(o, a) | RegOp::AcosReg(o, a) | RegOp::AtanReg(o, a) | RegOp::ExpReg(o, a)
        | RegOp::LnReg(o, a) | RegOp::NotReg(o, a) | RegOp::RandReg(o, a) => (o as int) < n && (a as int) < n,
        RegOp::AddRegImm(o, a, _) | RegOp::MulRegImm(o, a, _) | RegOp::DivRegImm(o, a, _) | RegOp::DivImmReg(o, a, _)
        | RegOp::SubImmReg(o, a, _) | RegOp::SubRegImm(o, a, _) | RegOp::ModRegImm(o, a, _) | RegOp::AtanRegImm(o, a, _)
        | RegOp::CompareRegImm(o, a, _) | RegOp::MixRegImm(o, a, _) | RegOp::MinRegImm(o, a, _) | RegOp::MaxRegImm(o, a, _)
        | RegOp::AndRegImm(o, a, _) | RegOp::OrRegImm(o, a, _) | RegOp::ModImmReg(o, a, _) | RegOp::AtanImmReg(o, a, _)
        | RegOp::CompareImmReg(o, a, _) | RegOp::MixImmReg(o, a, _) => (o as int) < n && (a as int) < n,
        RegOp::ModRegReg(o, a, b) | RegOp::AddRegReg(o, a, b) | RegOp::MulRegReg(o, a, b) | RegOp::DivRegReg(o, a, b)
        | RegOp::SubRegReg(o, a, b) | RegOp::CompareRegReg(o, a, b) | RegOp::AtanRegReg(o, a, b) | RegOp::MixRegReg(o, a, b)
        | RegOp::MinRegReg(o, a, b) | RegOp::MaxRegReg(o, a, b) | RegOp::AndRegReg(o, a, b) | RegOp::OrRegReg(o, a, b)
            => (o as int) < n && (a as int) < n && (b as int) < n,
    }
}

impl<const N: usize> RegisterAllocator<N> {
    spec fn is_mem(a: u32) -> bool { N <= a && a != UNASSIGNED }

    spec fn link_ok(&self) -> bool {
        &&& forall|r: int| 0 <= r < N && #[trigger] self.registers[r] != UNASSIGNED ==>
              (self.registers[r] as int) < self.allocations@.len() && self.allocations@[self.registers[r] as int] == r
        &&& forall|s: int| 0 <= s < self.allocations@.len() && (#[trigger] self.allocations@[s] as int) < N ==>
              self.registers[self.allocations@[s] as int] == s
    }
    spec fn spare_ok(&self) -> bool {
        &&& forall|k: int| 0 <= k < self.spare_registers@.len() ==>
              (#[trigger] self.spare_registers@[k] as int) < N && self.registers[self.spare_registers@[k] as int] == UNASSIGNED
        &&& forall|j: int, k: int| 0 <= j < k < self.spare_registers@.len() ==> self.spare_registers@[j] != self.spare_registers@[k]
    }
    spec fn mem_ok(&self) -> bool {
        &&& forall|s: int| 0 <= s < self.allocations@.len() && Self::is_mem(#[trigger] self.allocations@[s]) ==> self.allocations@[s] < self.out.slot_count
        &&& forall|s: int, t: int| 0 <= s < t < self.allocations@.len() && Self::is_mem(#[trigger] self.allocations@[s]) && Self::is_mem(#[trigger] self.allocations@[t])
              ==> self.allocations@[s] != self.allocations@[t]
        &&& forall|k: int| 0 <= k < self.spare_memory@.len() ==> N <= #[trigger] self.spare_memory@[k] < self.out.slot_count
        &&& forall|j: int, k: int| 0 <= j < k < self.spare_memory@.len() ==> self.spare_memory@[j] != self.spare_memory@[k]
    }
    spec fn slot_ok(&self) -> bool {
        forall|r: u8| (r as int) < N && !(#[trigger] self.spare_registers@.contains(r)) ==> (r as int) < self.out.slot_count
    }
    spec fn tape_ok(&self) -> bool {
        forall|k: int| 0 <= k < self.out.tape@.len() ==> op_ok(#[trigger] self.out.tape@[k], N as int, self.out.slot_count as int)
    }
    /// invariant that holds at every program point inside an `op`
    spec fn wf_mid(&self) -> bool {
        &&& 3 <= N <= 255
        &&& self.allocations@.len() < u32::MAX
        &&& self.register_lru.wf()
        &&& self.link_ok()
        &&& self.spare_ok()
        &&& self.mem_ok()
        &&& self.slot_ok()
        &&& self.tape_ok()
    }
    /// no live slot points at a memory slot that is on the free list
    spec fn no_stale(&self) -> bool {
        forall|s: int, k: int| 0 <= s < self.allocations@.len() && 0 <= k < self.spare_memory@.len()
            ==> #[trigger] self.allocations@[s] != #[trigger] self.spare_memory@[k]
    }
    /// every unbound register is on the free list, except those in `f`
    spec fn unbound_in(&self, f: Set<int>) -> bool {
        forall|r: u8| (r as int) < N && #[trigger] self.registers[r as int] == UNASSIGNED ==> self.spare_registers@.contains(r) || f.contains(r as int)
    }
    /// boundary invariant (between two calls of `op`)
    spec fn wf(&self) -> bool {
        self.wf_mid() && self.no_stale() && self.unbound_in(Set::empty())
    }
    spec fn same_but_lru(&self, o: &Self) -> bool {
        &&& self.allocations@ == o.allocations@
        &&& self.registers@ == o.registers@
        &&& self.spare_registers@ == o.spare_registers@
        &&& self.spare_memory@ == o.spare_memory@
        &&& self.out.tape@ == o.out.tape@
        &&& self.out.slot_count == o.out.slot_count
    }
}
'''

LEMMAS = r"""
// ---------------- tape semantics (prototype: subset of opcodes) ----------------
uninterp spec fn un_sem(tag: int, a: f32) -> f32;
uninterp spec fn bin_sem(tag: int, a: f32, b: f32) -> f32;

struct St { slots: Map<int, f32>, outs: Map<int, f32> }
type Env = Map<int, f32>;
type FE = spec_fn(Env, Seq<f32>) -> Env;
type FO = spec_fn(Map<int, f32>, Env, Seq<f32>) -> Map<int, f32>;

spec fn reg_step(op: RegOp, st: St, inp: Seq<f32>) -> St {
    match op {
        RegOp::Load(r, m) => St { slots: st.slots.insert(r as int, st.slots[m as int]), outs: st.outs },
        RegOp::Store(r, m) => St { slots: st.slots.insert(m as int, st.slots[r as int]), outs: st.outs },
        RegOp::Input(r, i) => St { slots: st.slots.insert(r as int, inp[i as int]), outs: st.outs },
        RegOp::Output(r, i) => St { slots: st.slots, outs: st.outs.insert(i as int, st.slots[r as int]) },
        RegOp::CopyImm(r, c) => St { slots: st.slots.insert(r as int, c), outs: st.outs },
        RegOp::NegReg(o, a) => St { slots: st.slots.insert(o as int, un_sem(1, st.slots[a as int])), outs: st.outs },
        RegOp::AddRegReg(o, a, b) => St { slots: st.slots.insert(o as int, bin_sem(1, st.slots[a as int], st.slots[b as int])), outs: st.outs },
        _ => st,   // prototype: remaining opcodes generated mechanically in the real spec
    }
}
/// run ops[lo..hi) from hi-1 down to lo (tapes are stored in reverse evaluation order)
spec fn reg_run_rev(ops: Seq<RegOp>, lo: int, hi: int, st: St, inp: Seq<f32>) -> St
    decreases hi - lo
{
    if hi <= lo { st } else { reg_run_rev(ops, lo, hi - 1, reg_step(ops[hi - 1], st, inp), inp) }
}
spec fn agree(alloc: Seq<u32>, slots: Map<int, f32>, env: Env) -> bool {
    forall|s: int| 0 <= s < alloc.len() && #[trigger] alloc[s] != UNASSIGNED ==> slots[alloc[s] as int] == env[s]
}
#[verifier::opaque]
spec fn simf(a_new: Seq<u32>, a_old: Seq<u32>, tape: Seq<RegOp>, lo: int, hi: int, fe: FE, fo: FO) -> bool {
    forall|st: St, env: Env, inp: Seq<f32>| #[trigger] agree(a_new, st.slots, env) ==>
        agree(a_old, (#[trigger] reg_run_rev(tape, lo, hi, st, inp)).slots, fe(env, inp))
        && reg_run_rev(tape, lo, hi, st, inp).outs == fo(st.outs, env, inp)
}
spec fn id_env() -> FE { |e: Env, i: Seq<f32>| e }
spec fn id_outs() -> FO { |o: Map<int, f32>, e: Env, i: Seq<f32>| o }
spec fn sim(a_new: Seq<u32>, a_old: Seq<u32>, tape: Seq<RegOp>, lo: int, hi: int) -> bool {
    simf(a_new, a_old, tape, lo, hi, id_env(), id_outs())
}
spec fn fe_def(out: int, c: spec_fn(Seq<f32>) -> f32) -> FE { |e: Env, i: Seq<f32>| e.insert(out, c(i)) }
spec fn fe_un(out: int, arg: int, f: spec_fn(f32) -> f32) -> FE { |e: Env, i: Seq<f32>| e.insert(out, f(e[arg])) }
spec fn fo_output(k: int, arg: int) -> FO { |o: Map<int, f32>, e: Env, i: Seq<f32>| o.insert(k, e[arg]) }

spec fn shape_out<F: Fn(u8) -> RegOp>(op: F, c: spec_fn(Seq<f32>) -> f32) -> bool {
    forall|a: u8, r: RegOp, st: St, inp: Seq<f32>| #[trigger] op.ensures((a,), r) ==>
        #[trigger] reg_step(r, st, inp) == (St { slots: st.slots.insert(a as int, c(inp)), outs: st.outs })
}
spec fn shape_un<F: Fn(u8, u8) -> RegOp>(op: F, f: spec_fn(f32) -> f32) -> bool {
    forall|a: u8, b: u8, r: RegOp, st: St, inp: Seq<f32>| #[trigger] op.ensures((a, b), r) ==>
        #[trigger] reg_step(r, st, inp) == (St { slots: st.slots.insert(a as int, f(st.slots[b as int])), outs: st.outs })
}

proof fn lemma_run_split(ops: Seq<RegOp>, lo: int, mid: int, hi: int, st: St, inp: Seq<f32>)
    requires lo <= mid <= hi
    ensures reg_run_rev(ops, lo, hi, st, inp) == reg_run_rev(ops, lo, mid, reg_run_rev(ops, mid, hi, st, inp), inp)
    decreases hi - mid
{
    if hi > mid { lemma_run_split(ops, lo, mid, hi - 1, reg_step(ops[hi - 1], st, inp), inp); }
}
proof fn lemma_run_ext(a: Seq<RegOp>, b: Seq<RegOp>, lo: int, hi: int, st: St, inp: Seq<f32>)
    requires 0 <= lo <= hi <= a.len(), hi <= b.len(), forall|k: int| lo <= k < hi ==> a[k] == b[k]
    ensures reg_run_rev(a, lo, hi, st, inp) == reg_run_rev(b, lo, hi, st, inp)
    decreases hi - lo
{
    if hi > lo { lemma_run_ext(a, b, lo, hi - 1, reg_step(a[hi - 1], st, inp), inp); }
}
proof fn lemma_run_one(ops: Seq<RegOp>, k: int, st: St, inp: Seq<f32>)
    ensures reg_run_rev(ops, k, k + 1, st, inp) == reg_step(ops[k], st, inp), reg_run_rev(ops, k, k, st, inp) == st
{
    assert(reg_run_rev(ops, k, k, reg_step(ops[k], st, inp), inp) == reg_step(ops[k], st, inp));
}
proof fn lemma_sim_refl(a: Seq<u32>, tape: Seq<RegOp>, lo: int)
    ensures sim(a, a, tape, lo, lo)
{
    reveal(simf);
}
proof fn lemma_sim_ext(a1: Seq<u32>, a0: Seq<u32>, t1: Seq<RegOp>, t2: Seq<RegOp>, lo: int, hi: int, fe: FE, fo: FO)
    requires simf(a1, a0, t1, lo, hi, fe, fo), 0 <= lo <= hi <= t1.len(), hi <= t2.len(), forall|k: int| lo <= k < hi ==> t1[k] == t2[k]
    ensures simf(a1, a0, t2, lo, hi, fe, fo)
{
    reveal(simf);
    assert forall|st: St, env: Env, inp: Seq<f32>| #[trigger] agree(a1, st.slots, env) implies
        agree(a0, (#[trigger] reg_run_rev(t2, lo, hi, st, inp)).slots, fe(env, inp))
        && reg_run_rev(t2, lo, hi, st, inp).outs == fo(st.outs, env, inp) by {
        lemma_run_ext(t1, t2, lo, hi, st, inp);
        assert(agree(a0, reg_run_rev(t1, lo, hi, st, inp).slots, fe(env, inp)));
    }
}
/// the ops in [mid,hi) run first (they were pushed last); then the identity-prefix [lo,mid)
proof fn lemma_sim_then(a2: Seq<u32>, a1: Seq<u32>, a0: Seq<u32>, tape: Seq<RegOp>, lo: int, mid: int, hi: int, fe: FE, fo: FO)
    requires simf(a2, a1, tape, mid, hi, fe, fo), sim(a1, a0, tape, lo, mid), lo <= mid <= hi
    ensures simf(a2, a0, tape, lo, hi, fe, fo)
{
    reveal(simf);
    assert forall|st: St, env: Env, inp: Seq<f32>| #[trigger] agree(a2, st.slots, env) implies
        agree(a0, (#[trigger] reg_run_rev(tape, lo, hi, st, inp)).slots, fe(env, inp))
        && reg_run_rev(tape, lo, hi, st, inp).outs == fo(st.outs, env, inp) by {
        let r1 = reg_run_rev(tape, mid, hi, st, inp);
        assert(agree(a1, r1.slots, fe(env, inp)));
        lemma_run_split(tape, lo, mid, hi, st, inp);
        let r0 = reg_run_rev(tape, lo, mid, r1, inp);
        assert(agree(a0, r0.slots, id_env()(fe(env, inp), inp)));
        assert(r0.outs == id_outs()(r1.outs, fe(env, inp), inp));
    }
}
proof fn lemma_simf_fe_ext(a1: Seq<u32>, a0: Seq<u32>, tape: Seq<RegOp>, lo: int, hi: int, fe1: FE, fe2: FE, fo1: FO, fo2: FO)
    requires simf(a1, a0, tape, lo, hi, fe1, fo1),
        forall|e: Env, i: Seq<f32>| #[trigger] fe1(e, i) == fe2(e, i),
        forall|o: Map<int, f32>, e: Env, i: Seq<f32>| #[trigger] fo1(o, e, i) == fo2(o, e, i),
    ensures simf(a1, a0, tape, lo, hi, fe2, fo2)
{
    reveal(simf);
    assert forall|st: St, env: Env, inp: Seq<f32>| #[trigger] agree(a1, st.slots, env) implies
        agree(a0, (#[trigger] reg_run_rev(tape, lo, hi, st, inp)).slots, fe2(env, inp))
        && reg_run_rev(tape, lo, hi, st, inp).outs == fo2(st.outs, env, inp) by {
        assert(fe1(env, inp) == fe2(env, inp));
        assert(fo1(st.outs, env, inp) == fo2(st.outs, env, inp));
    }
}
proof fn lemma_sim_drop(a: Seq<u32>, s0: int, tape: Seq<RegOp>, k: int)
    requires 0 <= s0 < a.len()
    ensures sim(a, a.update(s0, UNASSIGNED), tape, k, k)
{
    reveal(simf);
    let a1 = a.update(s0, UNASSIGNED);
    assert forall|st: St, env: Env, inp: Seq<f32>| #[trigger] agree(a, st.slots, env) implies
        agree(a1, (#[trigger] reg_run_rev(tape, k, k, st, inp)).slots, id_env()(env, inp))
        && reg_run_rev(tape, k, k, st, inp).outs == id_outs()(st.outs, env, inp) by {
        assert forall|s: int| 0 <= s < a1.len() && #[trigger] a1[s] != UNASSIGNED implies st.slots[a1[s] as int] == env[s] by {
            assert(s != s0); assert(a[s] == a1[s]);
        }
    }
}
// ---- single-op steps (sequence-level, no allocator context) ----
proof fn lemma_step_load(a_old: Seq<u32>, tape: Seq<RegOp>, k: int, reg: u8, m: u32, e: int)
    requires 0 <= e < a_old.len(), a_old[e] == reg as u32, tape[k] == RegOp::Load(reg, m), m != UNASSIGNED,
        forall|t: int| 0 <= t < a_old.len() && t != e ==> #[trigger] a_old[t] != reg as u32,
    ensures sim(a_old.update(e, m), a_old, tape, k, k + 1)
{
    reveal(simf);
    let a_new = a_old.update(e, m);
    assert forall|st: St, env: Env, inp: Seq<f32>| #[trigger] agree(a_new, st.slots, env) implies
        agree(a_old, (#[trigger] reg_run_rev(tape, k, k + 1, st, inp)).slots, id_env()(env, inp))
        && reg_run_rev(tape, k, k + 1, st, inp).outs == id_outs()(st.outs, env, inp) by {
        lemma_run_one(tape, k, st, inp);
        let st1 = reg_step(tape[k], st, inp);
        assert forall|s: int| 0 <= s < a_old.len() && #[trigger] a_old[s] != UNASSIGNED implies st1.slots[a_old[s] as int] == env[s] by {
            if s == e { assert(a_new[e] == m); } else { assert(a_new[s] == a_old[s]); }
        }
    }
}
/// Store(r, m) followed (in allocation terms) by binding slot s to r instead of m
proof fn lemma_step_store(a_old: Seq<u32>, tape: Seq<RegOp>, k: int, r: u8, m: u32, s0: int, n: int)
    requires 0 <= s0 < a_old.len(), a_old[s0] == m, tape[k] == RegOp::Store(r, m), (r as int) < n <= m, m != UNASSIGNED,
        forall|t: int| 0 <= t < a_old.len() && t != s0 ==> #[trigger] a_old[t] != m,
    ensures sim(a_old.update(s0, r as u32), a_old, tape, k, k + 1)
{
    reveal(simf);
    let a_new = a_old.update(s0, r as u32);
    assert forall|st: St, env: Env, inp: Seq<f32>| #[trigger] agree(a_new, st.slots, env) implies
        agree(a_old, (#[trigger] reg_run_rev(tape, k, k + 1, st, inp)).slots, id_env()(env, inp))
        && reg_run_rev(tape, k, k + 1, st, inp).outs == id_outs()(st.outs, env, inp) by {
        lemma_run_one(tape, k, st, inp);
        let st1 = reg_step(tape[k], st, inp);
        assert forall|s: int| 0 <= s < a_old.len() && #[trigger] a_old[s] != UNASSIGNED implies st1.slots[a_old[s] as int] == env[s] by {
            if s == s0 { assert(a_new[s0] == r as u32); } else { assert(a_new[s] == a_old[s]); }
        }
    }
}
proof fn lemma_step_output(a: Seq<u32>, tape: Seq<RegOp>, k: int, r: u8, i: u32, s0: int)
    requires 0 <= s0 < a.len(), a[s0] == r as u32, tape[k] == RegOp::Output(r, i),
    ensures simf(a, a, tape, k, k + 1, id_env(), fo_output(i as int, s0))
{
    reveal(simf);
    assert forall|st: St, env: Env, inp: Seq<f32>| #[trigger] agree(a, st.slots, env) implies
        agree(a, (#[trigger] reg_run_rev(tape, k, k + 1, st, inp)).slots, id_env()(env, inp))
        && reg_run_rev(tape, k, k + 1, st, inp).outs == fo_output(i as int, s0)(st.outs, env, inp) by {
        lemma_run_one(tape, k, st, inp);
        assert(a[s0] != UNASSIGNED);
    }
}
/// an op that defines `out` in register rx from nothing but the inputs; afterwards (in reverse) out is dead
proof fn lemma_step_def(a_old: Seq<u32>, tape: Seq<RegOp>, k: int, rx: u8, out: int, c: spec_fn(Seq<f32>) -> f32)
    requires 0 <= out < a_old.len(), a_old[out] == rx as u32,
        forall|t: int| 0 <= t < a_old.len() && t != out ==> #[trigger] a_old[t] != rx as u32,
        forall|st: St, inp: Seq<f32>| #[trigger] reg_step(tape[k], st, inp) == (St { slots: st.slots.insert(rx as int, c(inp)), outs: st.outs }),
    ensures simf(a_old.update(out, UNASSIGNED), a_old, tape, k, k + 1, fe_def(out, c), id_outs())
{
    reveal(simf);
    let a_new = a_old.update(out, UNASSIGNED);
    assert forall|st: St, env: Env, inp: Seq<f32>| #[trigger] agree(a_new, st.slots, env) implies
        agree(a_old, (#[trigger] reg_run_rev(tape, k, k + 1, st, inp)).slots, fe_def(out, c)(env, inp))
        && reg_run_rev(tape, k, k + 1, st, inp).outs == id_outs()(st.outs, env, inp) by {
        lemma_run_one(tape, k, st, inp);
        let st1 = reg_step(tape[k], st, inp);
        assert forall|s: int| 0 <= s < a_old.len() && #[trigger] a_old[s] != UNASSIGNED implies st1.slots[a_old[s] as int] == fe_def(out, c)(env, inp)[s] by {
            if s != out { assert(a_new[s] == a_old[s]); }
        }
    }
}

impl<const N: usize> Lru<N> {
    proof fn lemma_order_props(&self)
        requires self.wf()
        ensures self.order().len() == N, 1 <= N <= 255,
            forall|k: int| 0 <= k < N ==> (#[trigger] self.order()[k] as int) < N,
            forall|j: int, k: int| 0 <= j < k < N ==> self.order()[j] != self.order()[k],
            self.order()[0] == self.head,
    {
        let o = self.order();
        assert(self.wf_with(o));
    }
}
proof fn lemma_pop_is_poke(o: Seq<u8>, n: int)
    requires o.len() == n, n >= 1, forall|j: int, k: int| 0 <= j < k < n ==> o[j] != o[k],
    ensures seq![o[n - 1]] + o.subrange(0, n - 1) == poke_order(o, o[n - 1])
{
    let i = o[n - 1];
    assert(o.index_of(i) == n - 1) by {
        let k = o.index_of(i);
        assert(o.contains(i)) by { assert(o[n-1] == i); }
    }
    assert(seq![o[n - 1]] + o.subrange(0, n - 1) =~= poke_order(o, i));
}

proof fn lemma_op_ok_mono(op: RegOp, n: int, s1: int, s2: int)
    requires op_ok(op, n, s1), s1 <= s2
    ensures op_ok(op, n, s2)
{}
proof fn lemma_drop_last_contains<T>(s: Seq<T>, x: T)
    requires s.len() > 0, s.contains(x), x != s.last()
    ensures s.drop_last().contains(x)
{
    let k = choose|k: int| 0 <= k < s.len() && s[k] == x;
    assert(k < s.len() - 1);
    assert(s.drop_last()[k] == x);
}
"""
PROOFS_BEFORE = {}
UNBOUND_AFTER_RELEASE = """            proof {
                let e: Set<int> = Set::empty();
                assert forall|r: u8| (r as int) < N && #[trigger] self.registers[r as int] == UNASSIGNED
                    implies self.spare_registers@.contains(r) || e.contains(r as int) by {
                    if r == r_x {
                        assert(self.spare_registers@.last() == r_x);
                    } else {
                        assert(PRE.registers[r as int] == UNASSIGNED);
                        assert(PRE.spare_registers@.contains(r));
                        let k = choose|k: int| 0 <= k < PRE.spare_registers@.len() && PRE.spare_registers@[k] == r;
                        assert(self.spare_registers@[k] == r);
                    }
                }
            }"""
PROOFS = {
 'get_register|self.out.push(RegOp::Load(reg, mem));': """            proof {
                let o = *old(self);
                lemma_step_load(o.allocations@, self.out.tape@, o.out.tape@.len() as int, reg, mem, prev_node as int);
            }""",
 'get_register|self.register_lru.poke(reg);#0': """            proof { lemma_sim_refl(self.allocations@, self.out.tape@, self.out.tape@.len() as int); }""",
 'get_out_reg|let r_a = self.get_register();': "                let ghost s1 = *self;",
 'get_out_reg|self.bind_register(out, r_a);': """                proof {
                    let o0 = *old(self);
                    let e: Set<int> = Set::empty();
                    assert(o0.unbound_in(e));
                    assert forall|r: u8| (r as int) < N && #[trigger] self.registers[r as int] == UNASSIGNED
                        implies self.spare_registers@.contains(r) || e.contains(r as int) by {
                        assert(self.registers@[r_a as int] == out);
                        assert(r != r_a);
                        assert(o0.registers[r as int] == UNASSIGNED);
                        assert(o0.spare_registers@.contains(r));
                    }
                    let lo = o0.out.tape@.len() as int;
                    let mid = s1.out.tape@.len() as int;
                    let hi = self.out.tape@.len() as int;
                    assert(self.out.tape@[mid] == RegOp::Store(r_a, m_x));
                    lemma_step_store(s1.allocations@, self.out.tape@, mid, r_a, m_x, out as int, N as int);
                    lemma_sim_ext(s1.allocations@, o0.allocations@, s1.out.tape@, self.out.tape@, lo, mid, id_env(), id_outs());
                    lemma_sim_then(self.allocations@, s1.allocations@, o0.allocations@, self.out.tape@, lo, mid, hi, id_env(), id_outs());
                }""",
 'get_out_reg|$TAILMATCH': """        proof {
            if (old(self).allocations@[out as int] as int) < N {
                lemma_sim_refl(self.allocations@, self.out.tape@, self.out.tape@.len() as int);
            }
        }""",
 'op_out_only|self.out.push(op(r_x));': "        let ghost s2 = *self;",
 'op_out_only|self.release_reg(r_x);': UNBOUND_AFTER_RELEASE.replace('PRE','s2') + """
            proof {
                let o0 = *old(self);
                let lo = o0.out.tape@.len() as int;
                let mid = s1.out.tape@.len() as int;
                let hi = self.out.tape@.len() as int;
                let rop = self.out.tape@[mid];
                assert(op.ensures((r_x,), rop));
                assert forall|c: spec_fn(Seq<f32>) -> f32| #[trigger] shape_out(op, c) implies
                    simf(self.allocations@, o0.allocations@, self.out.tape@, lo, hi, fe_def(out as int, c), id_outs()) by {
                    lemma_step_def(s1.allocations@, self.out.tape@, mid, r_x, out as int, c);
                    lemma_sim_ext(s1.allocations@, o0.allocations@, s1.out.tape@, self.out.tape@, lo, mid, id_env(), id_outs());
                    lemma_sim_then(self.allocations@, s1.allocations@, o0.allocations@, self.out.tape@, lo, mid, hi, fe_def(out as int, c), id_outs());
                }
            }""",
 'op_copy_imm|self.op_out_only(out, f);': """        proof { assert(shape_out(f, |i: Seq<f32>| imm)); }""",
 'op_input|self.op_out_only(out, f);': """        proof { assert(shape_out(f, |inp: Seq<f32>| inp[i as int])); }""",
 'op_output|let r_a = self.get_register();#0': "                let ghost s1 = *self;",
 'op_output|let r_a = self.get_register();#1': "                let ghost s1 = *self;",
 'op_output|self.bind_register(arg, r_a);#0': """                proof {
                    let o0 = *old(self);
                    let lo = o0.out.tape@.len() as int;
                    let mid = s1.out.tape@.len() as int;
                    let hi = self.out.tape@.len() as int;
                    let e: Set<int> = Set::empty();
                    assert(o0.unbound_in(e));
                    assert forall|r: u8| (r as int) < N && #[trigger] self.registers[r as int] == UNASSIGNED
                        implies self.spare_registers@.contains(r) || e.contains(r as int) by {
                        assert(self.registers@[r_a as int] == arg);
                        assert(r != r_a);
                        assert(o0.registers[r as int] == UNASSIGNED);
                        assert(o0.spare_registers@.contains(r));
                    }

                    assert(self.out.tape@[mid] == RegOp::Store(r_a, m_y));
                    assert(self.out.tape@[mid + 1] == RegOp::Output(r_a, i));
                    let a2 = self.allocations@;
                    lemma_step_output(a2, self.out.tape@, mid + 1, r_a, i, arg as int);
                    lemma_step_store(s1.allocations@, self.out.tape@, mid, r_a, m_y, arg as int, N as int);
                    lemma_sim_ext(s1.allocations@, o0.allocations@, s1.out.tape@, self.out.tape@, lo, mid, id_env(), id_outs());
                    lemma_sim_then(a2, s1.allocations@, o0.allocations@, self.out.tape@, lo, mid, mid + 1, id_env(), id_outs());
                    lemma_sim_then(a2, a2, o0.allocations@, self.out.tape@, lo, mid + 1, hi, id_env(), fo_output(i as int, arg as int));
                }""",
 'op_output|self.bind_register(arg, r_a);#1': """                proof {
                    let o0 = *old(self);
                    let lo = o0.out.tape@.len() as int;
                    let mid = s1.out.tape@.len() as int;
                    let hi = self.out.tape@.len() as int;
                    let e: Set<int> = Set::empty();
                    assert(o0.unbound_in(e));
                    assert forall|r: u8| (r as int) < N && #[trigger] self.registers[r as int] == UNASSIGNED
                        implies self.spare_registers@.contains(r) || e.contains(r as int) by {
                        assert(self.registers@[r_a as int] == arg);
                        assert(r != r_a);
                        assert(o0.registers[r as int] == UNASSIGNED);
                        assert(o0.spare_registers@.contains(r));
                    }

                    assert(self.out.tape@[mid] == RegOp::Output(r_a, i));
                    let a2 = self.allocations@;
                    lemma_step_output(a2, self.out.tape@, mid, r_a, i, arg as int);
                    lemma_sim_drop(a2, arg as int, self.out.tape@, mid);
                    assert(a2.update(arg as int, UNASSIGNED) =~= s1.allocations@);
                    lemma_sim_ext(s1.allocations@, o0.allocations@, s1.out.tape@, self.out.tape@, lo, mid, id_env(), id_outs());
                    lemma_sim_then(a2, s1.allocations@, o0.allocations@, self.out.tape@, lo, mid, mid, id_env(), id_outs());
                    lemma_sim_then(a2, a2, o0.allocations@, self.out.tape@, lo, mid, hi, id_env(), fo_output(i as int, arg as int));
                }""",
 'op_output|$END': """        proof {
            let o0 = *old(self);
            if (o0.allocations@[arg as int] as int) < N {
                let lo = o0.out.tape@.len() as int;
                let r_y = o0.allocations@[arg as int] as u8;
                assert(self.out.tape@[lo] == RegOp::Output(r_y, i));
                lemma_step_output(self.allocations@, self.out.tape@, lo, r_y, i, arg as int);
            }
        }""",

 'op_out_only|let r_x = self.get_out_reg(out);': "        let ghost s1 = *self;",

 'self.spare_memory.push(mem);': """        proof {
            let o = *old(self);
            assert forall|k: int| 0 <= k < self.spare_memory@.len() implies N <= #[trigger] self.spare_memory@[k] < self.out.slot_count by {
                if k < o.spare_memory@.len() { assert(self.spare_memory@[k] == o.spare_memory@[k]); }
            }
            assert forall|j: int, k: int| 0 <= j < k < self.spare_memory@.len() implies self.spare_memory@[j] != self.spare_memory@[k] by {
                if k == o.spare_memory@.len() { assert(o.spare_memory@.contains(o.spare_memory@[j])); }
            }
        }""",

 'self.register_lru.poke(reg);': """            proof {
                let o = *old(self);
                assert forall|r: u8| r != reg && #[trigger] o.spare_registers@.contains(r) implies self.spare_registers@.contains(r) by {
                    lemma_drop_last_contains(o.spare_registers@, r);
                }
            }""",

 'self.allocations[node as usize] = UNASSIGNED;': """        proof {
            let o = *old(self);
            assert(!o.spare_registers@.contains(reg)) by {
                if o.spare_registers@.contains(reg) {
                    let k = choose|k: int| 0 <= k < o.spare_registers@.len() && o.spare_registers@[k] == reg;
                    assert(o.registers[o.spare_registers@[k] as int] == UNASSIGNED);
                }
            }
            assert forall|x: u8| (x as int) < N && !(#[trigger] self.spare_registers@.contains(x)) implies (x as int) < self.out.slot_count by {
                if o.spare_registers@.contains(x) {
                    let k = choose|k: int| 0 <= k < o.spare_registers@.len() && o.spare_registers@[k] == x;
                    assert(self.spare_registers@[k] == x);
                }
            }
            assert(self.spare_ok());
            assert(self.link_ok());
            assert(self.mem_ok());
        }""",

 'let reg = self.oldest_reg();': """            proof {
                self.register_lru.lemma_order_props();
                old(self).register_lru.lemma_order_props();
                lemma_pop_is_poke(old(self).register_lru.order(), N as int);
            }""",

 'let out = self.out.slot_count;': """            proof {
                assume(self.out.slot_count < u32::MAX);   // A-ovf
                let top = (N - 1) as u8;
                assert(!self.spare_registers@.contains(top));
            }""",
 'self.out.slot_count = self.out.slot_count.max(r as u32 + 1);': """        proof {
            let old_self = *old(self);
            assert forall|k: int| 0 <= k < self.out.tape@.len() implies op_ok(#[trigger] self.out.tape@[k], N as int, self.out.slot_count as int) by {
                lemma_op_ok_mono(self.out.tape@[k], N as int, old_self.out.slot_count as int, self.out.slot_count as int);
            }
            assert forall|x: u8| (x as int) < N && !(#[trigger] self.spare_registers@.contains(x)) implies (x as int) < self.out.slot_count by {
                if x != r && old_self.spare_registers@.contains(x) {
                    lemma_drop_last_contains(old_self.spare_registers@, x);
                }
            }
        }""",
}
SPECS = {
 'op_copy_imm': (None, """
        requires old(self).wf(), (out as int) < old(self).allocations@.len(), old(self).allocations@[out as int] != UNASSIGNED,
        ensures final(self).wf(),
            final(self).allocations@.len() == old(self).allocations@.len(),
            final(self).out.tape@.len() >= old(self).out.tape@.len(),
            forall|k: int| 0 <= k < old(self).out.tape@.len() ==> #[trigger] final(self).out.tape@[k] == old(self).out.tape@[k],
            simf(final(self).allocations@, old(self).allocations@, final(self).out.tape@, old(self).out.tape@.len() as int, final(self).out.tape@.len() as int, fe_def(out as int, |i: Seq<f32>| imm), id_outs()),
"""),
 'op_input': (None, """
        requires old(self).wf(), (out as int) < old(self).allocations@.len(), old(self).allocations@[out as int] != UNASSIGNED,
        ensures final(self).wf(),
            final(self).allocations@.len() == old(self).allocations@.len(),
            final(self).out.tape@.len() >= old(self).out.tape@.len(),
            forall|k: int| 0 <= k < old(self).out.tape@.len() ==> #[trigger] final(self).out.tape@[k] == old(self).out.tape@[k],
            simf(final(self).allocations@, old(self).allocations@, final(self).out.tape@, old(self).out.tape@.len() as int, final(self).out.tape@.len() as int, fe_def(out as int, |inp: Seq<f32>| inp[i as int]), id_outs()),
"""),

 'op_output': (None, """
        requires old(self).wf(), (arg as int) < old(self).allocations@.len(),
        ensures final(self).wf(),
            final(self).allocations@.len() == old(self).allocations@.len(),
            final(self).out.tape@.len() >= old(self).out.tape@.len(),
            forall|k: int| 0 <= k < old(self).out.tape@.len() ==> #[trigger] final(self).out.tape@[k] == old(self).out.tape@[k],
            simf(final(self).allocations@, old(self).allocations@, final(self).out.tape@, old(self).out.tape@.len() as int, final(self).out.tape@.len() as int, id_env(), fo_output(i as int, arg as int)),
"""),

 'release_mem': (None, """
        requires old(self).wf_mid(), Self::is_mem(mem), mem < old(self).out.slot_count, !old(self).spare_memory@.contains(mem),
        ensures final(self).wf_mid(),
            final(self).spare_memory@ == old(self).spare_memory@.push(mem),
            final(self).allocations@ == old(self).allocations@,
            final(self).registers@ == old(self).registers@,
            final(self).spare_registers@ == old(self).spare_registers@,
            final(self).register_lru == old(self).register_lru,
            final(self).out == old(self).out,
"""),
 'push_store': (None, """
        requires old(self).wf_mid(), (reg as int) < N, Self::is_mem(mem), mem < old(self).out.slot_count, !old(self).spare_memory@.contains(mem),
        ensures final(self).wf_mid(),
            final(self).spare_memory@ == old(self).spare_memory@.push(mem),
            final(self).allocations@ == old(self).allocations@,
            final(self).registers@ == old(self).registers@,
            final(self).spare_registers@ == old(self).spare_registers@,
            final(self).register_lru == old(self).register_lru,
            final(self).out.tape@ == old(self).out.tape@.push(RegOp::Store(reg, mem)),
            final(self).out.slot_count == old(self).out.slot_count,
"""),
 'get_out_reg': ('r: u8', """
        requires old(self).wf(), (out as int) < old(self).allocations@.len(), old(self).allocations@[out as int] != UNASSIGNED,
        ensures final(self).wf(), (r as int) < N,
            final(self).allocations@[out as int] == r as u32, final(self).registers[r as int] == out,
            final(self).register_lru.order()[0] == r,
            final(self).out.tape@.len() >= old(self).out.tape@.len(),
            forall|k: int| 0 <= k < old(self).out.tape@.len() ==> #[trigger] final(self).out.tape@[k] == old(self).out.tape@[k],
            sim(final(self).allocations@, old(self).allocations@, final(self).out.tape@, old(self).out.tape@.len() as int, final(self).out.tape@.len() as int),
            final(self).allocations@.len() == old(self).allocations@.len(),
            forall|s: int| 0 <= s < old(self).allocations@.len() ==>
                (#[trigger] final(self).allocations@[s] == UNASSIGNED <==> old(self).allocations@[s] == UNASSIGNED),
"""),
 'op_out_only': (None, """
        requires old(self).wf(), (out as int) < old(self).allocations@.len(), old(self).allocations@[out as int] != UNASSIGNED,
            forall|a: u8| op.requires((a,)),
            forall|a: u8, r: RegOp, sl: int| #[trigger] op.ensures((a,), r) && (a as int) < N ==> #[trigger] op_ok(r, N as int, sl),
        ensures final(self).wf(),
            final(self).allocations@.len() == old(self).allocations@.len(),
            final(self).allocations@[out as int] == UNASSIGNED,
            final(self).out.tape@.len() >= old(self).out.tape@.len(),
            forall|k: int| 0 <= k < old(self).out.tape@.len() ==> #[trigger] final(self).out.tape@[k] == old(self).out.tape@[k],
            forall|c: spec_fn(Seq<f32>) -> f32| #[trigger] shape_out(op, c) ==>
                simf(final(self).allocations@, old(self).allocations@, final(self).out.tape@, old(self).out.tape@.len() as int, final(self).out.tape@.len() as int, fe_def(out as int, c), id_outs()),
            forall|s: int| 0 <= s < old(self).allocations@.len() && s != out ==>
                (#[trigger] final(self).allocations@[s] == UNASSIGNED <==> old(self).allocations@[s] == UNASSIGNED),
"""),

 'get_register': ('reg: u8', """
        requires old(self).wf_mid(), old(self).no_stale(),
            old(self).spare_registers@.len() == 0 ==> old(self).registers[old(self).register_lru.order()[N as int - 1] as int] != UNASSIGNED,
        ensures final(self).wf_mid(), final(self).no_stale(),
            (reg as int) < N, final(self).registers[reg as int] == UNASSIGNED, !final(self).spare_registers@.contains(reg),
            final(self).register_lru.order() == poke_order(old(self).register_lru.order(), reg),
            final(self).out.slot_count >= old(self).out.slot_count,
            forall|r: int| 0 <= r < N && r != reg ==> final(self).registers[r] == old(self).registers[r],
            forall|r: u8| r != reg && #[trigger] old(self).spare_registers@.contains(r) ==> final(self).spare_registers@.contains(r),
            sim(final(self).allocations@, old(self).allocations@, final(self).out.tape@, old(self).out.tape@.len() as int, final(self).out.tape@.len() as int),
            old(self).spare_registers@.len() > 0 ==> (
                reg == old(self).spare_registers@.last()
                && final(self).spare_registers@ == old(self).spare_registers@.drop_last()
                && final(self).allocations@ == old(self).allocations@
                && final(self).registers@ == old(self).registers@
                && final(self).spare_memory@ == old(self).spare_memory@
                && final(self).out.tape@ == old(self).out.tape@),
            old(self).spare_registers@.len() == 0 ==> ({
                let e = old(self).registers[reg as int] as int;
                let m = final(self).allocations@[e];
                &&& reg == old(self).register_lru.order()[N as int - 1]
                &&& final(self).spare_registers@ == old(self).spare_registers@
                &&& final(self).allocations@ == old(self).allocations@.update(e, m)
                &&& final(self).registers@ == old(self).registers@.update(reg as int, UNASSIGNED)
                &&& final(self).out.tape@ == old(self).out.tape@.push(RegOp::Load(reg, m))
                &&& Self::is_mem(m) && !final(self).spare_memory@.contains(m)
                &&& forall|s: int| 0 <= s < old(self).allocations@.len() ==> #[trigger] old(self).allocations@[s] != m
            }),
"""),
 'bind_register': (None, """
        requires old(self).wf_mid(), (n as int) < old(self).allocations@.len(), (reg as int) < N,
            old(self).allocations@[n as int] >= N, old(self).registers[reg as int] == UNASSIGNED,
            !old(self).spare_registers@.contains(reg),
        ensures final(self).wf_mid(),
            final(self).allocations@ == old(self).allocations@.update(n as int, reg as u32),
            final(self).registers@ == old(self).registers@.update(reg as int, n),
            final(self).spare_registers@ == old(self).spare_registers@,
            final(self).spare_memory@ == old(self).spare_memory@,
            final(self).register_lru == old(self).register_lru,
            final(self).out == old(self).out,
"""),
 'release_reg': (None, """
        requires old(self).wf_mid(), (reg as int) < N, old(self).registers[reg as int] != UNASSIGNED,
        ensures final(self).wf_mid(),
            final(self).allocations@ == old(self).allocations@.update(old(self).registers[reg as int] as int, UNASSIGNED),
            final(self).registers@ == old(self).registers@.update(reg as int, UNASSIGNED),
            final(self).spare_registers@ == old(self).spare_registers@.push(reg),
            final(self).spare_memory@ == old(self).spare_memory@,
            final(self).register_lru == old(self).register_lru,
            final(self).out == old(self).out,
"""),

 'get_memory': ('m: u32', '''
        requires old(self).wf_mid(), old(self).no_stale(), old(self).spare_registers@.len() == 0,
        ensures final(self).wf_mid(), final(self).no_stale(),
            N <= m < final(self).out.slot_count,
            !final(self).spare_memory@.contains(m),
            forall|s: int| 0 <= s < final(self).allocations@.len() ==> #[trigger] final(self).allocations@[s] != m,
            final(self).allocations@ == old(self).allocations@,
            final(self).registers@ == old(self).registers@,
            final(self).spare_registers@ == old(self).spare_registers@,
            final(self).register_lru == old(self).register_lru,
            final(self).out.tape@ == old(self).out.tape@,
            final(self).out.slot_count >= old(self).out.slot_count,
'''),
 'oldest_reg': ('r: u8', '''
        requires old(self).register_lru.wf(),
        ensures final(self).register_lru.wf(),
            r == old(self).register_lru.order()[N as int - 1],
            final(self).register_lru.order() == seq![r] + old(self).register_lru.order().subrange(0, N as int - 1),
            final(self).same_but_lru(old(self)),
'''),
 'get_allocation': ('r: Allocation', '''
        requires old(self).wf_mid(), (n as int) < old(self).allocations@.len(),
        ensures final(self).wf_mid(), final(self).same_but_lru(old(self)),
            match r {
                Allocation::Register(i) => old(self).allocations@[n as int] == i as u32 && (i as int) < N
                    && final(self).register_lru.order() == poke_order(old(self).register_lru.order(), i),
                Allocation::Memory(m) => old(self).allocations@[n as int] == m && Self::is_mem(m)
                    && final(self).register_lru == old(self).register_lru,
                Allocation::Unassigned => old(self).allocations@[n as int] == UNASSIGNED
                    && final(self).register_lru == old(self).register_lru,
            },
'''),
 'get_spare_register': ('r: Option<u8>', '''
        requires old(self).wf_mid(),
        ensures final(self).wf_mid(),
            final(self).allocations@ == old(self).allocations@,
            final(self).registers@ == old(self).registers@,
            final(self).spare_memory@ == old(self).spare_memory@,
            final(self).register_lru == old(self).register_lru,
            final(self).out.tape@ == old(self).out.tape@,
            match r {
                None => old(self).spare_registers@.len() == 0 && final(self).spare_registers@ == old(self).spare_registers@
                    && final(self).out.slot_count == old(self).out.slot_count,
                Some(reg) => old(self).spare_registers@.len() > 0 && reg == old(self).spare_registers@.last()
                    && final(self).spare_registers@ == old(self).spare_registers@.drop_last()
                    && final(self).out.slot_count >= old(self).out.slot_count
                    && (reg as int) < N && old(self).registers[reg as int] == UNASSIGNED,
            },
'''),
}

PRELUDE = PRELUDE0 + LEMMAS
