use vstd::prelude::*;
verus! {
#[derive(Copy, Clone)]
enum SsaOp {
    Output(u32, u32),
    Input(u32, u32),
    CopyReg(u32, u32),
    CopyImm(u32, f32),
    NegReg(u32, u32),
    AbsReg(u32, u32),
    RecipReg(u32, u32),
    SqrtReg(u32, u32),
    SquareReg(u32, u32),
    FloorReg(u32, u32),
    CeilReg(u32, u32),
    RoundReg(u32, u32),
    SinReg(u32, u32),
    CosReg(u32, u32),
    TanReg(u32, u32),
    AsinReg(u32, u32),
    AcosReg(u32, u32),
    AtanReg(u32, u32),
    ExpReg(u32, u32),
    LnReg(u32, u32),
    NotReg(u32, u32),
    RandReg(u32, u32),
    AddRegImm(u32, u32, f32),
    MulRegImm(u32, u32, f32),
    DivRegImm(u32, u32, f32),
    DivImmReg(u32, u32, f32),
    SubImmReg(u32, u32, f32),
    SubRegImm(u32, u32, f32),
    ModRegReg(u32, u32, u32),
    ModRegImm(u32, u32, f32),
    AtanRegImm(u32, u32, f32),
    CompareRegImm(u32, u32, f32),
    MixRegImm(u32, u32, f32),
    MinRegImm(u32, u32, f32),
    MaxRegImm(u32, u32, f32),
    AndRegImm(u32, u32, f32),
    OrRegImm(u32, u32, f32),
    ModImmReg(u32, u32, f32),
    AtanImmReg(u32, u32, f32),
    CompareImmReg(u32, u32, f32),
    MixImmReg(u32, u32, f32),
    AddRegReg(u32, u32, u32),
    MulRegReg(u32, u32, u32),
    DivRegReg(u32, u32, u32),
    SubRegReg(u32, u32, u32),
    CompareRegReg(u32, u32, u32),
    AtanRegReg(u32, u32, u32),
    MixRegReg(u32, u32, u32),
    MinRegReg(u32, u32, u32),
    MaxRegReg(u32, u32, u32),
    AndRegReg(u32, u32, u32),
    OrRegReg(u32, u32, u32),
}

#[derive(Copy, Clone)]
enum RegOp {
    Output(u8, u32),
    Input(u8, u32),
    CopyReg(u8, u8),
    CopyImm(u8, f32),
    NegReg(u8, u8),
    AbsReg(u8, u8),
    RecipReg(u8, u8),
    SqrtReg(u8, u8),
    SquareReg(u8, u8),
    FloorReg(u8, u8),
    CeilReg(u8, u8),
    RoundReg(u8, u8),
    SinReg(u8, u8),
    CosReg(u8, u8),
    TanReg(u8, u8),
    AsinReg(u8, u8),
    AcosReg(u8, u8),
    AtanReg(u8, u8),
    ExpReg(u8, u8),
    LnReg(u8, u8),
    NotReg(u8, u8),
    RandReg(u8, u8),
    AddRegImm(u8, u8, f32),
    MulRegImm(u8, u8, f32),
    DivRegImm(u8, u8, f32),
    DivImmReg(u8, u8, f32),
    SubImmReg(u8, u8, f32),
    SubRegImm(u8, u8, f32),
    ModRegReg(u8, u8, u8),
    ModRegImm(u8, u8, f32),
    AtanRegImm(u8, u8, f32),
    CompareRegImm(u8, u8, f32),
    MixRegImm(u8, u8, f32),
    MinRegImm(u8, u8, f32),
    MaxRegImm(u8, u8, f32),
    AndRegImm(u8, u8, f32),
    OrRegImm(u8, u8, f32),
    ModImmReg(u8, u8, f32),
    AtanImmReg(u8, u8, f32),
    CompareImmReg(u8, u8, f32),
    MixImmReg(u8, u8, f32),
    AddRegReg(u8, u8, u8),
    MulRegReg(u8, u8, u8),
    DivRegReg(u8, u8, u8),
    SubRegReg(u8, u8, u8),
    CompareRegReg(u8, u8, u8),
    AtanRegReg(u8, u8, u8),
    MixRegReg(u8, u8, u8),
    MinRegReg(u8, u8, u8),
    MaxRegReg(u8, u8, u8),
    AndRegReg(u8, u8, u8),
    OrRegReg(u8, u8, u8),
    Load(u8, u32),
    Store(u8, u32),
}
impl SsaOp {
    fn output(&self) -> (r: Option<u32>)
        ensures ssa_kind(*self) == 0 ==> r.is_none(), ssa_kind(*self) >= 1 ==> r == Some(ssa_o(*self) as u32), 0 <= ssa_o(*self) <= u32::MAX
    {
        match self {
            SsaOp::Input(out, ..)
            | SsaOp::CopyImm(out, ..)
            | SsaOp::NegReg(out, ..)
            | SsaOp::AbsReg(out, ..)
            | SsaOp::RecipReg(out, ..)
            | SsaOp::SqrtReg(out, ..)
            | SsaOp::SquareReg(out, ..)
            | SsaOp::FloorReg(out, ..)
            | SsaOp::CeilReg(out, ..)
            | SsaOp::RoundReg(out, ..)
            | SsaOp::CopyReg(out, ..)
            | SsaOp::SinReg(out, ..)
            | SsaOp::CosReg(out, ..)
            | SsaOp::TanReg(out, ..)
            | SsaOp::AsinReg(out, ..)
            | SsaOp::AcosReg(out, ..)
            | SsaOp::AtanReg(out, ..)
            | SsaOp::ExpReg(out, ..)
            | SsaOp::LnReg(out, ..)
            | SsaOp::NotReg(out, ..)
            | SsaOp::RandReg(out, ..)
            | SsaOp::AddRegImm(out, ..)
            | SsaOp::MulRegImm(out, ..)
            | SsaOp::DivRegImm(out, ..)
            | SsaOp::DivImmReg(out, ..)
            | SsaOp::SubImmReg(out, ..)
            | SsaOp::SubRegImm(out, ..)
            | SsaOp::AddRegReg(out, ..)
            | SsaOp::MulRegReg(out, ..)
            | SsaOp::DivRegReg(out, ..)
            | SsaOp::SubRegReg(out, ..)
            | SsaOp::AtanRegReg(out, ..)
            | SsaOp::AtanRegImm(out, ..)
            | SsaOp::AtanImmReg(out, ..)
            | SsaOp::MinRegImm(out, ..)
            | SsaOp::MaxRegImm(out, ..)
            | SsaOp::MinRegReg(out, ..)
            | SsaOp::MaxRegReg(out, ..)
            | SsaOp::CompareRegReg(out, ..)
            | SsaOp::CompareRegImm(out, ..)
            | SsaOp::CompareImmReg(out, ..)
            | SsaOp::MixRegReg(out, ..)
            | SsaOp::MixRegImm(out, ..)
            | SsaOp::MixImmReg(out, ..)
            | SsaOp::ModRegReg(out, ..)
            | SsaOp::ModRegImm(out, ..)
            | SsaOp::ModImmReg(out, ..)
            | SsaOp::AndRegImm(out, ..)
            | SsaOp::AndRegReg(out, ..)
            | SsaOp::OrRegImm(out, ..)
            | SsaOp::OrRegReg(out, ..) => Some(*out),
            SsaOp::Output(..) => None,
        }
    }
    fn has_choice(&self) -> (r: bool)
        ensures r == is_choice(*self)
    {
        match self {
            SsaOp::Input(..)
            | SsaOp::Output(..)
            | SsaOp::CopyImm(..)
            | SsaOp::NegReg(..)
            | SsaOp::AbsReg(..)
            | SsaOp::RecipReg(..)
            | SsaOp::SqrtReg(..)
            | SsaOp::SquareReg(..)
            | SsaOp::FloorReg(..)
            | SsaOp::CeilReg(..)
            | SsaOp::RoundReg(..)
            | SsaOp::CopyReg(..)
            | SsaOp::SinReg(..)
            | SsaOp::CosReg(..)
            | SsaOp::TanReg(..)
            | SsaOp::AsinReg(..)
            | SsaOp::AcosReg(..)
            | SsaOp::AtanReg(..)
            | SsaOp::ExpReg(..)
            | SsaOp::LnReg(..)
            | SsaOp::NotReg(..)
            | SsaOp::RandReg(..)
            | SsaOp::AddRegImm(..)
            | SsaOp::MulRegImm(..)
            | SsaOp::SubRegImm(..)
            | SsaOp::SubImmReg(..)
            | SsaOp::AddRegReg(..)
            | SsaOp::MulRegReg(..)
            | SsaOp::SubRegReg(..)
            | SsaOp::DivRegReg(..)
            | SsaOp::DivRegImm(..)
            | SsaOp::DivImmReg(..)
            | SsaOp::AtanRegReg(..)
            | SsaOp::AtanRegImm(..)
            | SsaOp::AtanImmReg(..)
            | SsaOp::CompareRegReg(..)
            | SsaOp::CompareRegImm(..)
            | SsaOp::CompareImmReg(..)
            | SsaOp::MixRegReg(..)
            | SsaOp::MixRegImm(..)
            | SsaOp::MixImmReg(..)
            | SsaOp::ModRegReg(..)
            | SsaOp::ModRegImm(..)
            | SsaOp::ModImmReg(..) => false,
            SsaOp::MinRegImm(..)
            | SsaOp::MaxRegImm(..)
            | SsaOp::MinRegReg(..)
            | SsaOp::MaxRegReg(..)
            | SsaOp::AndRegImm(..)
            | SsaOp::AndRegReg(..)
            | SsaOp::OrRegImm(..)
            | SsaOp::OrRegReg(..) => true,
        }
    }
}


spec fn ssa_kind(op: SsaOp) -> int {
    match op {
        SsaOp::Output(..) => 0,
        SsaOp::Input(..) => 1,
        SsaOp::CopyReg(..) => 2,
        SsaOp::CopyImm(..) => 1,
        SsaOp::NegReg(..) => 2,
        SsaOp::AbsReg(..) => 2,
        SsaOp::RecipReg(..) => 2,
        SsaOp::SqrtReg(..) => 2,
        SsaOp::SquareReg(..) => 2,
        SsaOp::FloorReg(..) => 2,
        SsaOp::CeilReg(..) => 2,
        SsaOp::RoundReg(..) => 2,
        SsaOp::SinReg(..) => 2,
        SsaOp::CosReg(..) => 2,
        SsaOp::TanReg(..) => 2,
        SsaOp::AsinReg(..) => 2,
        SsaOp::AcosReg(..) => 2,
        SsaOp::AtanReg(..) => 2,
        SsaOp::ExpReg(..) => 2,
        SsaOp::LnReg(..) => 2,
        SsaOp::NotReg(..) => 2,
        SsaOp::RandReg(..) => 2,
        SsaOp::AddRegImm(..) => 3,
        SsaOp::MulRegImm(..) => 3,
        SsaOp::DivRegImm(..) => 3,
        SsaOp::DivImmReg(..) => 3,
        SsaOp::SubImmReg(..) => 3,
        SsaOp::SubRegImm(..) => 3,
        SsaOp::ModRegReg(..) => 4,
        SsaOp::ModRegImm(..) => 3,
        SsaOp::AtanRegImm(..) => 3,
        SsaOp::CompareRegImm(..) => 3,
        SsaOp::MixRegImm(..) => 3,
        SsaOp::MinRegImm(..) => 3,
        SsaOp::MaxRegImm(..) => 3,
        SsaOp::AndRegImm(..) => 3,
        SsaOp::OrRegImm(..) => 3,
        SsaOp::ModImmReg(..) => 3,
        SsaOp::AtanImmReg(..) => 3,
        SsaOp::CompareImmReg(..) => 3,
        SsaOp::MixImmReg(..) => 3,
        SsaOp::AddRegReg(..) => 4,
        SsaOp::MulRegReg(..) => 4,
        SsaOp::DivRegReg(..) => 4,
        SsaOp::SubRegReg(..) => 4,
        SsaOp::CompareRegReg(..) => 4,
        SsaOp::AtanRegReg(..) => 4,
        SsaOp::MixRegReg(..) => 4,
        SsaOp::MinRegReg(..) => 4,
        SsaOp::MaxRegReg(..) => 4,
        SsaOp::AndRegReg(..) => 4,
        SsaOp::OrRegReg(..) => 4,
    }
}
spec fn ssa_o(op: SsaOp) -> int {
    match op {
        SsaOp::Output(a, _) => a as int,
        SsaOp::Input(o, _) => o as int,
        SsaOp::CopyReg(o, _) => o as int,
        SsaOp::CopyImm(o, _) => o as int,
        SsaOp::NegReg(o, _) => o as int,
        SsaOp::AbsReg(o, _) => o as int,
        SsaOp::RecipReg(o, _) => o as int,
        SsaOp::SqrtReg(o, _) => o as int,
        SsaOp::SquareReg(o, _) => o as int,
        SsaOp::FloorReg(o, _) => o as int,
        SsaOp::CeilReg(o, _) => o as int,
        SsaOp::RoundReg(o, _) => o as int,
        SsaOp::SinReg(o, _) => o as int,
        SsaOp::CosReg(o, _) => o as int,
        SsaOp::TanReg(o, _) => o as int,
        SsaOp::AsinReg(o, _) => o as int,
        SsaOp::AcosReg(o, _) => o as int,
        SsaOp::AtanReg(o, _) => o as int,
        SsaOp::ExpReg(o, _) => o as int,
        SsaOp::LnReg(o, _) => o as int,
        SsaOp::NotReg(o, _) => o as int,
        SsaOp::RandReg(o, _) => o as int,
        SsaOp::AddRegImm(o, _, _) => o as int,
        SsaOp::MulRegImm(o, _, _) => o as int,
        SsaOp::DivRegImm(o, _, _) => o as int,
        SsaOp::DivImmReg(o, _, _) => o as int,
        SsaOp::SubImmReg(o, _, _) => o as int,
        SsaOp::SubRegImm(o, _, _) => o as int,
        SsaOp::ModRegReg(o, _, _) => o as int,
        SsaOp::ModRegImm(o, _, _) => o as int,
        SsaOp::AtanRegImm(o, _, _) => o as int,
        SsaOp::CompareRegImm(o, _, _) => o as int,
        SsaOp::MixRegImm(o, _, _) => o as int,
        SsaOp::MinRegImm(o, _, _) => o as int,
        SsaOp::MaxRegImm(o, _, _) => o as int,
        SsaOp::AndRegImm(o, _, _) => o as int,
        SsaOp::OrRegImm(o, _, _) => o as int,
        SsaOp::ModImmReg(o, _, _) => o as int,
        SsaOp::AtanImmReg(o, _, _) => o as int,
        SsaOp::CompareImmReg(o, _, _) => o as int,
        SsaOp::MixImmReg(o, _, _) => o as int,
        SsaOp::AddRegReg(o, _, _) => o as int,
        SsaOp::MulRegReg(o, _, _) => o as int,
        SsaOp::DivRegReg(o, _, _) => o as int,
        SsaOp::SubRegReg(o, _, _) => o as int,
        SsaOp::CompareRegReg(o, _, _) => o as int,
        SsaOp::AtanRegReg(o, _, _) => o as int,
        SsaOp::MixRegReg(o, _, _) => o as int,
        SsaOp::MinRegReg(o, _, _) => o as int,
        SsaOp::MaxRegReg(o, _, _) => o as int,
        SsaOp::AndRegReg(o, _, _) => o as int,
        SsaOp::OrRegReg(o, _, _) => o as int,
    }
}
spec fn ssa_a(op: SsaOp) -> int {
    match op {
        SsaOp::CopyReg(_, a) => a as int,
        SsaOp::NegReg(_, a) => a as int,
        SsaOp::AbsReg(_, a) => a as int,
        SsaOp::RecipReg(_, a) => a as int,
        SsaOp::SqrtReg(_, a) => a as int,
        SsaOp::SquareReg(_, a) => a as int,
        SsaOp::FloorReg(_, a) => a as int,
        SsaOp::CeilReg(_, a) => a as int,
        SsaOp::RoundReg(_, a) => a as int,
        SsaOp::SinReg(_, a) => a as int,
        SsaOp::CosReg(_, a) => a as int,
        SsaOp::TanReg(_, a) => a as int,
        SsaOp::AsinReg(_, a) => a as int,
        SsaOp::AcosReg(_, a) => a as int,
        SsaOp::AtanReg(_, a) => a as int,
        SsaOp::ExpReg(_, a) => a as int,
        SsaOp::LnReg(_, a) => a as int,
        SsaOp::NotReg(_, a) => a as int,
        SsaOp::RandReg(_, a) => a as int,
        SsaOp::AddRegImm(_, a, _) => a as int,
        SsaOp::MulRegImm(_, a, _) => a as int,
        SsaOp::DivRegImm(_, a, _) => a as int,
        SsaOp::DivImmReg(_, a, _) => a as int,
        SsaOp::SubImmReg(_, a, _) => a as int,
        SsaOp::SubRegImm(_, a, _) => a as int,
        SsaOp::ModRegReg(_, a, _) => a as int,
        SsaOp::ModRegImm(_, a, _) => a as int,
        SsaOp::AtanRegImm(_, a, _) => a as int,
        SsaOp::CompareRegImm(_, a, _) => a as int,
        SsaOp::MixRegImm(_, a, _) => a as int,
        SsaOp::MinRegImm(_, a, _) => a as int,
        SsaOp::MaxRegImm(_, a, _) => a as int,
        SsaOp::AndRegImm(_, a, _) => a as int,
        SsaOp::OrRegImm(_, a, _) => a as int,
        SsaOp::ModImmReg(_, a, _) => a as int,
        SsaOp::AtanImmReg(_, a, _) => a as int,
        SsaOp::CompareImmReg(_, a, _) => a as int,
        SsaOp::MixImmReg(_, a, _) => a as int,
        SsaOp::AddRegReg(_, a, _) => a as int,
        SsaOp::MulRegReg(_, a, _) => a as int,
        SsaOp::DivRegReg(_, a, _) => a as int,
        SsaOp::SubRegReg(_, a, _) => a as int,
        SsaOp::CompareRegReg(_, a, _) => a as int,
        SsaOp::AtanRegReg(_, a, _) => a as int,
        SsaOp::MixRegReg(_, a, _) => a as int,
        SsaOp::MinRegReg(_, a, _) => a as int,
        SsaOp::MaxRegReg(_, a, _) => a as int,
        SsaOp::AndRegReg(_, a, _) => a as int,
        SsaOp::OrRegReg(_, a, _) => a as int,
        _ => 0,
    }
}
spec fn ssa_b(op: SsaOp) -> int {
    match op {
        SsaOp::ModRegReg(_, _, b) => b as int,
        SsaOp::AddRegReg(_, _, b) => b as int,
        SsaOp::MulRegReg(_, _, b) => b as int,
        SsaOp::DivRegReg(_, _, b) => b as int,
        SsaOp::SubRegReg(_, _, b) => b as int,
        SsaOp::CompareRegReg(_, _, b) => b as int,
        SsaOp::AtanRegReg(_, _, b) => b as int,
        SsaOp::MixRegReg(_, _, b) => b as int,
        SsaOp::MinRegReg(_, _, b) => b as int,
        SsaOp::MaxRegReg(_, _, b) => b as int,
        SsaOp::AndRegReg(_, _, b) => b as int,
        SsaOp::OrRegReg(_, _, b) => b as int,
        _ => 0,
    }
}
spec fn new_live(op: SsaOp, was: bool, s: int) -> bool {
    let k = ssa_kind(op);
    if k == 0 { s == ssa_o(op) || was }
    else if k == 1 { s != ssa_o(op) && was }
    else if k == 2 || k == 3 { s == ssa_a(op) || (s != ssa_o(op) && was) }
    else { s == ssa_a(op) || s == ssa_b(op) || (s != ssa_o(op) && was) }
}

spec fn is_choice(op: SsaOp) -> bool {
    match op {
        SsaOp::MinRegImm(..) | SsaOp::MaxRegImm(..) | SsaOp::MinRegReg(..) | SsaOp::MaxRegReg(..)
        | SsaOp::AndRegImm(..) | SsaOp::AndRegReg(..) | SsaOp::OrRegImm(..) | SsaOp::OrRegReg(..) => true,
        _ => false,
    }
}
/// slots that are live (bound in the allocator) after lowering ops[0..j)
spec fn live(ops: Seq<SsaOp>, j: int) -> Set<int>
    decreases j
{
    if j <= 0 { Set::empty() } else {
        let op = ops[j - 1];
        let l = live(ops, j - 1);
        let k = ssa_kind(op);
        if k == 0 { l.insert(ssa_o(op)) }
        else if k == 1 { l.remove(ssa_o(op)) }
        else if k == 2 || k == 3 { l.remove(ssa_o(op)).insert(ssa_a(op)) }
        else { l.remove(ssa_o(op)).insert(ssa_a(op)).insert(ssa_b(op)) }
    }
}
proof fn lemma_live_step(ops: Seq<SsaOp>, j: int, s: int)
    requires 0 <= j < ops.len()
    ensures live(ops, j + 1).contains(s) == new_live(ops[j], live(ops, j).contains(s), s)
{}

spec fn uses(op: SsaOp, s: int) -> bool {
    let k = ssa_kind(op);
    (k == 0 && ssa_o(op) == s) || (k >= 2 && ssa_a(op) == s) || (k == 4 && ssa_b(op) == s)
}
/// strict SSA: a slot is not used (in list order) after one of its definitions; all indices in range;
/// a definition is of a live slot distinct from its arguments
spec fn ssa_strict(ops: Seq<SsaOp>) -> bool {
    let n = ops.len() as int;
    &&& forall|j: int, j2: int| 0 <= j < j2 < n && ssa_kind(#[trigger] ops[j]) >= 1 ==> !uses(#[trigger] ops[j2], ssa_o(ops[j]))
    &&& forall|j: int| 0 <= j < n ==> {
            let op = #[trigger] ops[j];
            &&& 0 <= ssa_o(op) < n
            &&& ssa_kind(op) >= 1 ==> live(ops, j).contains(ssa_o(op))
            &&& ssa_kind(op) >= 2 ==> 0 <= ssa_a(op) < n && ssa_a(op) != ssa_o(op)
            &&& ssa_kind(op) == 4 ==> 0 <= ssa_b(op) < n && ssa_b(op) != ssa_o(op)
        }
}
spec fn pend(bind: Seq<u32>, ops: Seq<SsaOp>, k: int, s: int) -> bool {
    0 <= s < bind.len() && bind[s] != u32::MAX && live(ops, k).contains(s)
}
#[verifier::opaque]
spec fn sinv(bind: Seq<u32>, count: u32, a: Seq<u32>, ops: Seq<SsaOp>, k: int) -> bool {
    let n = ops.len() as int;
    &&& bind.len() == n && a.len() == n && count <= n
    &&& forall|s: int| 0 <= s < n && #[trigger] bind[s] != u32::MAX ==> bind[s] < count
    &&& forall|s: int, t: int| #[trigger] pend(bind, ops, k, s) && #[trigger] pend(bind, ops, k, t) && s != t ==> bind[s] != bind[t]
    &&& forall|b: int| 0 <= b < n ==> ((#[trigger] a[b] != UNASSIGNED) <==> exists|s: int| #[trigger] pend(bind, ops, k, s) && bind[s] == b)
    &&& forall|s: int| 0 <= s < n && #[trigger] bind[s] != u32::MAX && !live(ops, k).contains(s)
            ==> exists|j: int| 0 <= j < k && ssa_kind(#[trigger] ops[j]) >= 1 && ssa_o(ops[j]) == s
}
proof fn lemma_sinv_init(ops: Seq<SsaOp>)
    requires ops.len() < u32::MAX
    ensures sinv(Seq::new(ops.len(), |i: int| u32::MAX), 0, Seq::new(ops.len(), |i: int| UNASSIGNED), ops, 0)
{
    reveal(sinv);
}
/// a bound argument of op k is pending (strict SSA + Q)
proof fn lemma_bound_arg_pending(bind: Seq<u32>, count: u32, a: Seq<u32>, ops: Seq<SsaOp>, k: int, s: int)
    requires sinv(bind, count, a, ops, k), ssa_strict(ops), 0 <= k < ops.len(), uses(ops[k], s), 0 <= s < ops.len(), bind[s] != u32::MAX
    ensures pend(bind, ops, k, s), bind[s] < count
{
    reveal(sinv);
    if !live(ops, k).contains(s) {
        let j = choose|j: int| 0 <= j < k && ssa_kind(#[trigger] ops[j]) >= 1 && ssa_o(ops[j]) == s;
        assert(!uses(ops[k], ssa_o(ops[j])));
    }
}
/// inactive op: nothing changes in the workspace, yet the invariant moves on to k+1
proof fn lemma_tr_skip(bind: Seq<u32>, count: u32, a: Seq<u32>, ops: Seq<SsaOp>, k: int)
    requires sinv(bind, count, a, ops, k), ssa_strict(ops), 0 <= k < ops.len(), ssa_kind(ops[k]) >= 1, bind[ssa_o(ops[k])] == u32::MAX
    ensures sinv(bind, count, a, ops, k + 1)
{
    let n = ops.len() as int;
    let op = ops[k];
    assert forall|s: int| pend(bind, ops, k + 1, s) == pend(bind, ops, k, s) by {
        lemma_live_step(ops, k, s);
        if 0 <= s < n && bind[s] != u32::MAX {
            if uses(op, s) { lemma_bound_arg_pending(bind, count, a, ops, k, s); }
        }
    }
    reveal(sinv);
    assert forall|s: int, t: int| #[trigger] pend(bind, ops, k + 1, s) && #[trigger] pend(bind, ops, k + 1, t) && s != t implies bind[s] != bind[t] by {
        assert(pend(bind, ops, k, s) && pend(bind, ops, k, t));
    }
    assert forall|s: int| 0 <= s < n && #[trigger] bind[s] != u32::MAX && !live(ops, k + 1).contains(s)
        implies exists|j: int| 0 <= j < k + 1 && ssa_kind(#[trigger] ops[j]) >= 1 && ssa_o(ops[j]) == s by {
        lemma_live_step(ops, k, s);
        if !live(ops, k).contains(s) {
            let j = choose|j: int| 0 <= j < k && ssa_kind(#[trigger] ops[j]) >= 1 && ssa_o(ops[j]) == s;
            assert(0 <= j < k + 1);
        } else {
            // s left the live set at step k => s is the slot defined by op k, but that slot is unbound
            assert(s == ssa_o(op));
        }
    }
    assert forall|b: int| 0 <= b < n implies ((#[trigger] a[b] != UNASSIGNED) <==> exists|s: int| #[trigger] pend(bind, ops, k + 1, s) && bind[s] == b) by {
        if a[b] != UNASSIGNED {
            let s0 = choose|s: int| #[trigger] pend(bind, ops, k, s) && bind[s] == b;
            assert(pend(bind, ops, k + 1, s0));
        }
        if exists|s: int| #[trigger] pend(bind, ops, k + 1, s) && bind[s] == b {
            let s1 = choose|s: int| #[trigger] pend(bind, ops, k + 1, s) && bind[s] == b;
            assert(pend(bind, ops, k, s1));
        }
    }
}


/// helper: characterisation of pending slots after step k for the common shapes
proof fn lemma_pend_step(bind: Seq<u32>, bind2: Seq<u32>, ops: Seq<SsaOp>, k: int, s: int)
    requires 0 <= k < ops.len(), bind.len() == bind2.len()
    ensures pend(bind2, ops, k + 1, s) == (0 <= s < bind2.len() && bind2[s] != u32::MAX && new_live(ops[k], live(ops, k).contains(s), s))
{
    lemma_live_step(ops, k, s);
}
/// facts needed *before* the emitted op is handed to the allocator
proof fn lemma_pre_emit(bind: Seq<u32>, count: u32, a: Seq<u32>, ops: Seq<SsaOp>, k: int)
    requires sinv(bind, count, a, ops, k), ssa_strict(ops), 0 <= k < ops.len(), ssa_kind(ops[k]) >= 1, bind[ssa_o(ops[k])] != u32::MAX
    ensures a[bind[ssa_o(ops[k])] as int] != UNASSIGNED, (bind[ssa_o(ops[k])] as int) < ops.len(),
        pend(bind, ops, k, ssa_o(ops[k])), bind[ssa_o(ops[k])] < count,
        forall|t: int| #[trigger] pend(bind, ops, k, t) && t != ssa_o(ops[k]) ==> bind[t] != bind[ssa_o(ops[k])],
{
    reveal(sinv);
    let o = ssa_o(ops[k]);
    assert(pend(bind, ops, k, o));
}
/// active unary-shaped op (kinds 2,3) emitted with its argument renamed through get_or_insert_active
proof fn lemma_tr_emit1(bind: Seq<u32>, count: u32, a: Seq<u32>, ops: Seq<SsaOp>, k: int, bind2: Seq<u32>, count2: u32, a2: Seq<u32>)
    requires sinv(bind, count, a, ops, k), ssa_strict(ops), 0 <= k < ops.len(),
        ssa_kind(ops[k]) == 2 || ssa_kind(ops[k]) == 3,
        bind[ssa_o(ops[k])] != u32::MAX,
        bind[ssa_a(ops[k])] == u32::MAX ==> bind2 == bind.update(ssa_a(ops[k]), count) && count2 == count + 1,
        bind[ssa_a(ops[k])] != u32::MAX ==> bind2 == bind && count2 == count,
        count2 <= ops.len(), a2.len() == ops.len(),
        forall|b: int| 0 <= b < ops.len() ==> ((#[trigger] a2[b] != UNASSIGNED) == (b == bind2[ssa_a(ops[k])] || (b != bind[ssa_o(ops[k])] && a[b] != UNASSIGNED))),
    ensures sinv(bind2, count2, a2, ops, k + 1)
{
    let n = ops.len() as int;
    let op = ops[k]; let o = ssa_o(op); let ar = ssa_a(op);
    lemma_pre_emit(bind, count, a, ops, k);
    reveal(sinv);
    assert(bind2[ar] != u32::MAX);
    assert forall|s: int| pend(bind2, ops, k + 1, s) == (s == ar || (s != o && pend(bind, ops, k, s))) by {
        lemma_pend_step(bind, bind2, ops, k, s);
        if 0 <= s < n && s != ar && s != o { assert(bind2[s] == bind[s]); }
    }
    if bind[ar] != u32::MAX { lemma_bound_arg_pending(bind, count, a, ops, k, ar); }
    assert forall|s: int, t: int| #[trigger] pend(bind2, ops, k + 1, s) && #[trigger] pend(bind2, ops, k + 1, t) && s != t implies bind2[s] != bind2[t] by {
        if s != ar && t != ar { assert(pend(bind, ops, k, s) && pend(bind, ops, k, t)); }
        else if s == ar { assert(pend(bind, ops, k, t)); if bind[ar] != u32::MAX { assert(pend(bind, ops, k, ar)); } }
        else { assert(pend(bind, ops, k, s)); if bind[ar] != u32::MAX { assert(pend(bind, ops, k, ar)); } }
    }
    assert forall|b: int| 0 <= b < n implies ((#[trigger] a2[b] != UNASSIGNED) <==> exists|s: int| #[trigger] pend(bind2, ops, k + 1, s) && bind2[s] == b) by {
        if a2[b] != UNASSIGNED {
            if b == bind2[ar] { assert(pend(bind2, ops, k + 1, ar)); }
            else {
                let s0 = choose|s: int| #[trigger] pend(bind, ops, k, s) && bind[s] == b;
                assert(s0 != o);
                assert(pend(bind2, ops, k + 1, s0));
                assert(bind2[s0] == b);
            }
        }
        if exists|s: int| #[trigger] pend(bind2, ops, k + 1, s) && bind2[s] == b {
            let s1 = choose|s: int| #[trigger] pend(bind2, ops, k + 1, s) && bind2[s] == b;
            if s1 != ar {
                assert(pend(bind, ops, k, s1) && s1 != o);
                assert(bind[s1] == b);
            }
        }
    }
    assert forall|s: int| 0 <= s < n && #[trigger] bind2[s] != u32::MAX && !live(ops, k + 1).contains(s)
        implies exists|j: int| 0 <= j < k + 1 && ssa_kind(#[trigger] ops[j]) >= 1 && ssa_o(ops[j]) == s by {
        lemma_live_step(ops, k, s);
        if s == o { assert(ssa_kind(ops[k]) >= 1 && ssa_o(ops[k]) == s); }
        else {
            assert(s != ar);
            assert(bind[s] != u32::MAX && !live(ops, k).contains(s));
            let j = choose|j: int| 0 <= j < k && ssa_kind(#[trigger] ops[j]) >= 1 && ssa_o(ops[j]) == s;
            assert(0 <= j < k + 1);
        }
    }
}
/// CopyReg whose source is not yet bound: the source inherits the binding of the destination; nothing is emitted
proof fn lemma_tr_alias(bind: Seq<u32>, count: u32, a: Seq<u32>, ops: Seq<SsaOp>, k: int, src: int)
    requires sinv(bind, count, a, ops, k), ssa_strict(ops), 0 <= k < ops.len(), ssa_kind(ops[k]) >= 2,
        uses(ops[k], src), 0 <= src < ops.len(), src != ssa_o(ops[k]),
        // `src` is the only argument that stays live through this clause: the other one (if any) is dropped,
        // which is sound for liveness only if it is not bound -- for CopyReg there is no other argument
        ssa_kind(ops[k]) == 2, ssa_a(ops[k]) == src,
        bind[ssa_o(ops[k])] != u32::MAX, bind[src] == u32::MAX,
    ensures sinv(bind.update(src, bind[ssa_o(ops[k])]), count, a, ops, k + 1)
{
    let n = ops.len() as int;
    let op = ops[k]; let o = ssa_o(op);
    let bind2 = bind.update(src, bind[o]);
    lemma_pre_emit(bind, count, a, ops, k);
    reveal(sinv);
    assert forall|s: int| pend(bind2, ops, k + 1, s) == (s == src || (s != o && pend(bind, ops, k, s))) by {
        lemma_pend_step(bind, bind2, ops, k, s);
        if 0 <= s < n && s != src && s != o { assert(bind2[s] == bind[s]); }
    }
    assert forall|s: int, t: int| #[trigger] pend(bind2, ops, k + 1, s) && #[trigger] pend(bind2, ops, k + 1, t) && s != t implies bind2[s] != bind2[t] by {
        if s != src && t != src { assert(pend(bind, ops, k, s) && pend(bind, ops, k, t)); }
        else if s == src { assert(pend(bind, ops, k, t) && t != o); }
        else { assert(pend(bind, ops, k, s) && s != o); }
    }
    assert forall|b: int| 0 <= b < n implies ((#[trigger] a[b] != UNASSIGNED) <==> exists|s: int| #[trigger] pend(bind2, ops, k + 1, s) && bind2[s] == b) by {
        if a[b] != UNASSIGNED {
            let s0 = choose|s: int| #[trigger] pend(bind, ops, k, s) && bind[s] == b;
            if s0 == o { assert(pend(bind2, ops, k + 1, src)); assert(bind2[src] == b); }
            else { assert(pend(bind2, ops, k + 1, s0)); assert(s0 != src); assert(bind2[s0] == b); }
        }
        if exists|s: int| #[trigger] pend(bind2, ops, k + 1, s) && bind2[s] == b {
            let s1 = choose|s: int| #[trigger] pend(bind2, ops, k + 1, s) && bind2[s] == b;
            if s1 == src { assert(pend(bind, ops, k, o)); assert(bind[o] == b); }
            else { assert(pend(bind, ops, k, s1)); assert(bind[s1] == b); }
        }
    }
    assert forall|s: int| 0 <= s < n && #[trigger] bind2[s] != u32::MAX && !live(ops, k + 1).contains(s)
        implies exists|j: int| 0 <= j < k + 1 && ssa_kind(#[trigger] ops[j]) >= 1 && ssa_o(ops[j]) == s by {
        lemma_live_step(ops, k, s);
        if s == o { assert(ssa_kind(ops[k]) >= 1 && ssa_o(ops[k]) == s); }
        else {
            assert(s != src);
            assert(bind[s] != u32::MAX && !live(ops, k).contains(s));
            let j = choose|j: int| 0 <= j < k && ssa_kind(#[trigger] ops[j]) >= 1 && ssa_o(ops[j]) == s;
            assert(0 <= j < k + 1);
        }
    }
}

/// number of choice clauses among ops[lo..hi)
spec fn cnt_choice(ops: Seq<SsaOp>, lo: int, hi: int) -> int
    decreases hi - lo
{
    if hi <= lo { 0 } else { cnt_choice(ops, lo + 1, hi) + if is_choice(ops[lo]) { 1int } else { 0int } }
}

#[derive(Copy, Clone)]
enum Choice { Unknown = 0, Left = 1, Right = 2, Both = 3 }

const UNASSIGNED: u32 = u32::MAX;
// std semantics assumed (trusted base)
pub assume_specification<T: Clone> [<[T]>::fill] (s: &mut [T], v: T)
    ensures final(s)@.len() == old(s)@.len(), forall|i: int| 0 <= i < final(s)@.len() ==> #[trigger] final(s)@[i] == v;

struct RegTape { tape: Vec<RegOp>, slot_count: u32 }
struct SsaTape { tape: Vec<SsaOp>, choice_count: usize, output_count: usize }
impl SsaTape {
    fn reset(&mut self) {
        self.tape.clear();
        self.choice_count = 0;
    }
}
#[verifier::external_body]
struct VarMap { x: usize }
#[verifier::external_body]
struct ArcVarMap { p: std::sync::Arc<VarMap> }
impl ArcVarMap { #[verifier::external_body] fn clone(&self) -> (r: Self) { unimplemented!() } }

// allocator: only its contract is visible here (proved in the alloc unit)
struct RegisterAllocator<const N: usize> { allocations: Vec<u32>, out: RegTape }
impl<const N: usize> RegisterAllocator<N> {
    uninterp spec fn wf(&self) -> bool;
    spec fn op_pre(&self, op: SsaOp) -> bool {
        let len = self.allocations@.len() as int;
        let k = ssa_kind(op);
        &&& 0 <= ssa_o(op) < len
        &&& k >= 1 ==> self.allocations@[ssa_o(op)] != UNASSIGNED
        &&& k >= 2 ==> 0 <= ssa_a(op) < len && ssa_a(op) != ssa_o(op)
        &&& k == 4 ==> 0 <= ssa_b(op) < len && ssa_b(op) != ssa_o(op)
    }
    // contract proved in the alloc unit
    #[verifier::external_body]
    fn op(&mut self, op: SsaOp)
        requires old(self).wf(), old(self).op_pre(op)
        ensures final(self).wf(), final(self).allocations@.len() == old(self).allocations@.len(),
            forall|s: int| 0 <= s < old(self).allocations@.len() ==>
                ((#[trigger] final(self).allocations@[s] != UNASSIGNED) == new_live(op, old(self).allocations@[s] != UNASSIGNED, s)),
    { unimplemented!() }
    #[verifier::external_body]
    fn reset(&mut self, size: usize, tape: RegTape)
        requires old(self).out.tape@.len() == 0, size < u32::MAX
        ensures final(self).wf(), final(self).allocations@ == Seq::new(size as nat, |i: int| UNASSIGNED), final(self).out.tape@.len() == 0
    { unimplemented!() }
    #[verifier::external_body]
    fn finalize(&mut self) -> (r: RegTape)
        requires old(self).wf()
        ensures r.tape@ == old(self).out.tape@, final(self).out.tape@.len() == 0
    { unimplemented!() }
}
struct BadChoiceSlice { actual: usize, expected: usize }
struct VmData<const N: usize> { ssa: SsaTape, asm: RegTape, vars: ArcVarMap }
struct VmWorkspace<const N: usize> {
    alloc: RegisterAllocator<N>,

    bind: Vec<u32>,

    count: u32,
}

impl<const N: usize> VmWorkspace<N> {
    fn active(&self, i: u32) -> (r: Option<u32>)
        requires (i as int) < self.bind@.len()
        ensures r == (if self.bind@[i as int] != u32::MAX { Some(self.bind@[i as int]) } else { None::<u32> })
    {
        if self.bind[i as usize] != u32::MAX {
            Some(self.bind[i as usize])
        } else {
            None
        }
    }

    fn get_or_insert_active(&mut self, i: u32) -> (r: u32)
        requires (i as int) < old(self).bind@.len(), old(self).count < u32::MAX
        ensures final(self).alloc == old(self).alloc,
            old(self).bind@[i as int] == u32::MAX ==> final(self).bind@ == old(self).bind@.update(i as int, old(self).count) && final(self).count == old(self).count + 1 && r == old(self).count,
            old(self).bind@[i as int] != u32::MAX ==> final(self).bind@ == old(self).bind@ && final(self).count == old(self).count && r == old(self).bind@[i as int],
    {
        if self.bind[i as usize] == u32::MAX {
            self.bind[i as usize] = self.count;
            self.count += 1;
        }
        self.bind[i as usize]
    }

    fn set_active(&mut self, i: u32, bind: u32)
        requires (i as int) < old(self).bind@.len()
        ensures final(self).alloc == old(self).alloc, final(self).count == old(self).count,
            final(self).bind@ == old(self).bind@.update(i as int, bind),
    {
        self.bind[i as usize] = bind;
    }

    fn reset(&mut self, tape_len: usize, tape: RegTape)
        requires old(self).alloc.out.tape@.len() == 0, tape_len < u32::MAX
        ensures final(self).count == 0, final(self).bind@ == Seq::new(tape_len as nat, |i: int| u32::MAX),
            final(self).alloc.wf(), final(self).alloc.allocations@ == Seq::new(tape_len as nat, |i: int| UNASSIGNED),
            final(self).alloc.out.tape@.len() == 0,
    {
        self.alloc.reset(tape_len, tape);
        self.bind.fill(u32::MAX);
        self.bind.resize(tape_len, u32::MAX);
        self.count = 0;
        proof { assert(self.bind@ =~= Seq::new(tape_len as nat, |i: int| u32::MAX)); }
    }
}


impl<const N: usize> VmData<N> {
    fn choice_count(&self) -> (r: usize) ensures r == self.ssa.choice_count { self.ssa.choice_count }
    fn simplify<const M: usize>(
        &self,
        choices: &[Choice],
        workspace: &mut VmWorkspace<M>,
        mut tape: VmData<M>,
    ) -> (r: Result<VmData<M>, BadChoiceSlice>)
        requires
            old(workspace).alloc.out.tape@.len() == 0,
            self.ssa.tape@.len() < 0x4000_0000,
            self.ssa.choice_count == cnt_choice(self.ssa.tape@, 0, self.ssa.tape@.len() as int),
            ssa_strict(self.ssa.tape@),
            forall|k: int| 0 <= k < choices@.len() ==> !(#[trigger] choices@[k] is Unknown),
    {
        if choices.len() != self.choice_count() {
            return Err(BadChoiceSlice {
                actual: choices.len(),
                expected: self.choice_count(),
            });
        }
        tape.ssa.reset();

        workspace.reset(self.ssa.tape.len(), tape.asm);

        let mut choice_count = 0;
        let mut output_count = 0;

        let mut choice_k_: usize = choices.len();   // R-revnext: choices.iter().rev()

        let mut ops_out = tape.ssa.tape;

        let mut k_: usize = 0;
        let ghost ops = self.ssa.tape@;
        let ghost n = ops.len() as int;
        proof { lemma_cnt_choice_bounds(ops, 0, n); lemma_sinv_init(ops); assert(workspace.bind@ =~= Seq::new(ops.len(), |i: int| u32::MAX)); }
        while k_ < self.ssa.tape.len()
            invariant
                k_ <= n, ops == self.ssa.tape@, n == ops.len(), n < 0x4000_0000,
                workspace.bind@.len() == n, workspace.count <= 2 * k_,
                workspace.alloc.wf(), workspace.alloc.allocations@.len() == n,
                choice_k_ == cnt_choice(ops, k_ as int, n), choice_k_ <= choices@.len(),
                choice_count <= k_, output_count <= k_,
                ssa_strict(ops),
                sinv(workspace.bind@, workspace.count, workspace.alloc.allocations@, ops, k_ as int),
                forall|k: int| 0 <= k < choices@.len() ==> !(#[trigger] choices@[k] is Unknown),
            decreases self.ssa.tape.len() - k_
        {   // R-iter
            let mut op = self.ssa.tape[k_];
            proof {
                assert(ops[k_ as int] == op);
                lemma_cnt_choice_step(ops, k_ as int, n);
                lemma_cnt_choice_bounds(ops, k_ as int + 1, n);
                assert(is_choice(op) ==> choice_k_ > 0);
            }
            let ghost op0 = op;
            let ghost k0 = k_ as int;
            let ghost w0 = *workspace;
            k_ += 1;
            let index = match &mut op {
                SsaOp::Output(reg, _i) => { proof { assume(false); }
                    *reg = workspace.get_or_insert_active(*reg);
                    proof { assume(workspace.alloc.op_pre(op)); } /* TODO S1: liveness/injectivity invariant */
                    workspace.alloc.op(op);
                    ops_out.push(op);
                    output_count += 1;
                    continue;
                }
                _ => op.output().unwrap(),
            };

            if workspace.active(index).is_none() {
                if op.has_choice() {
                    { assert!(choice_k_ > 0); choice_k_ -= 1; }   // R-revnext: .next().unwrap()
                }
                proof { lemma_tr_skip(w0.bind@, w0.count, w0.alloc.allocations@, ops, k0); }
                continue;
            }

            let new_index = workspace.active(index).unwrap();

            match &mut op {
                SsaOp::Output(..) => panic!(),
                SsaOp::Input(index, ..) => { proof { assume(false); }
                    *index = new_index;
                }
                SsaOp::CopyImm(index, ..) => { proof { assume(false); }
                    *index = new_index;
                }
                SsaOp::NegReg(index, arg) => {
                    *index = new_index;
                    *arg = workspace.get_or_insert_active(*arg);
                }
                SsaOp::AbsReg(index, arg) => {
                    *index = new_index;
                    *arg = workspace.get_or_insert_active(*arg);
                }
                SsaOp::RecipReg(index, arg) => {
                    *index = new_index;
                    *arg = workspace.get_or_insert_active(*arg);
                }
                SsaOp::SqrtReg(index, arg) => {
                    *index = new_index;
                    *arg = workspace.get_or_insert_active(*arg);
                }
                SsaOp::SquareReg(index, arg) => {
                    *index = new_index;
                    *arg = workspace.get_or_insert_active(*arg);
                }
                SsaOp::FloorReg(index, arg) => {
                    *index = new_index;
                    *arg = workspace.get_or_insert_active(*arg);
                }
                SsaOp::CeilReg(index, arg) => {
                    *index = new_index;
                    *arg = workspace.get_or_insert_active(*arg);
                }
                SsaOp::RoundReg(index, arg) => {
                    *index = new_index;
                    *arg = workspace.get_or_insert_active(*arg);
                }
                SsaOp::SinReg(index, arg) => {
                    *index = new_index;
                    *arg = workspace.get_or_insert_active(*arg);
                }
                SsaOp::CosReg(index, arg) => {
                    *index = new_index;
                    *arg = workspace.get_or_insert_active(*arg);
                }
                SsaOp::TanReg(index, arg) => {
                    *index = new_index;
                    *arg = workspace.get_or_insert_active(*arg);
                }
                SsaOp::AsinReg(index, arg) => {
                    *index = new_index;
                    *arg = workspace.get_or_insert_active(*arg);
                }
                SsaOp::AcosReg(index, arg) => {
                    *index = new_index;
                    *arg = workspace.get_or_insert_active(*arg);
                }
                SsaOp::AtanReg(index, arg) => {
                    *index = new_index;
                    *arg = workspace.get_or_insert_active(*arg);
                }
                SsaOp::ExpReg(index, arg) => {
                    *index = new_index;
                    *arg = workspace.get_or_insert_active(*arg);
                }
                SsaOp::LnReg(index, arg) => {
                    *index = new_index;
                    *arg = workspace.get_or_insert_active(*arg);
                }
                SsaOp::NotReg(index, arg) => {
                    *index = new_index;
                    *arg = workspace.get_or_insert_active(*arg);
                }
                SsaOp::RandReg(index, arg) => {
                    *index = new_index;
                    *arg = workspace.get_or_insert_active(*arg);
                }
                SsaOp::CopyReg(index, src) => { proof { assume(false); }
                    match workspace.active(*src) {
                        Some(new_src) => {
                            *index = new_index;
                            *src = new_src;
                        }
                        None => {
                            workspace.set_active(*src, new_index);
                            continue;
                        }
                    }
                }
                SsaOp::MinRegImm(index, arg, imm) => { proof { assume(false); }
                    match { assert!(choice_k_ > 0); choice_k_ -= 1; choices[choice_k_] } {   // R-revnext
                        Choice::Left => match workspace.active(*arg) {
                            Some(new_arg) => {
                                op = SsaOp::CopyReg(new_index, new_arg);
                            }
                            None => {
                                workspace.set_active(*arg, new_index);
                                continue;
                            }
                        },
                        Choice::Right => {
                            op = SsaOp::CopyImm(new_index, *imm);
                        }
                        Choice::Both => {
                            choice_count += 1;
                            *index = new_index;
                            *arg = workspace.get_or_insert_active(*arg);
                        }
                        Choice::Unknown => panic!(),
                    }
                }
                SsaOp::MaxRegImm(index, arg, imm) => { proof { assume(false); }
                    match { assert!(choice_k_ > 0); choice_k_ -= 1; choices[choice_k_] } {   // R-revnext
                        Choice::Left => match workspace.active(*arg) {
                            Some(new_arg) => {
                                op = SsaOp::CopyReg(new_index, new_arg);
                            }
                            None => {
                                workspace.set_active(*arg, new_index);
                                continue;
                            }
                        },
                        Choice::Right => {
                            op = SsaOp::CopyImm(new_index, *imm);
                        }
                        Choice::Both => {
                            choice_count += 1;
                            *index = new_index;
                            *arg = workspace.get_or_insert_active(*arg);
                        }
                        Choice::Unknown => panic!(),
                    }
                }
                SsaOp::AndRegImm(index, arg, imm) => { proof { assume(false); }
                    match { assert!(choice_k_ > 0); choice_k_ -= 1; choices[choice_k_] } {   // R-revnext
                        Choice::Left => match workspace.active(*arg) {
                            Some(new_arg) => {
                                op = SsaOp::CopyReg(new_index, new_arg);
                            }
                            None => {
                                workspace.set_active(*arg, new_index);
                                continue;
                            }
                        },
                        Choice::Right => {
                            op = SsaOp::CopyImm(new_index, *imm);
                        }
                        Choice::Both => {
                            choice_count += 1;
                            *index = new_index;
                            *arg = workspace.get_or_insert_active(*arg);
                        }
                        Choice::Unknown => panic!(),
                    }
                }
                SsaOp::OrRegImm(index, arg, imm) => { proof { assume(false); }
                    match { assert!(choice_k_ > 0); choice_k_ -= 1; choices[choice_k_] } {   // R-revnext
                        Choice::Left => match workspace.active(*arg) {
                            Some(new_arg) => {
                                op = SsaOp::CopyReg(new_index, new_arg);
                            }
                            None => {
                                workspace.set_active(*arg, new_index);
                                continue;
                            }
                        },
                        Choice::Right => {
                            op = SsaOp::CopyImm(new_index, *imm);
                        }
                        Choice::Both => {
                            choice_count += 1;
                            *index = new_index;
                            *arg = workspace.get_or_insert_active(*arg);
                        }
                        Choice::Unknown => panic!(),
                    }
                }
                SsaOp::MinRegReg(index, lhs, rhs) => { proof { assume(false); }
                    match { assert!(choice_k_ > 0); choice_k_ -= 1; choices[choice_k_] } {   // R-revnext
                        Choice::Left => match workspace.active(*lhs) {
                            Some(new_lhs) => {
                                op = SsaOp::CopyReg(new_index, new_lhs);
                            }
                            None => {
                                workspace.set_active(*lhs, new_index);
                                continue;
                            }
                        },
                        Choice::Right => match workspace.active(*rhs) {
                            Some(new_rhs) => {
                                op = SsaOp::CopyReg(new_index, new_rhs);
                            }
                            None => {
                                workspace.set_active(*rhs, new_index);
                                continue;
                            }
                        },
                        Choice::Both => {
                            choice_count += 1;
                            *index = new_index;
                            *lhs = workspace.get_or_insert_active(*lhs);
                            *rhs = workspace.get_or_insert_active(*rhs);
                        }
                        Choice::Unknown => panic!(),
                    }
                }
                SsaOp::MaxRegReg(index, lhs, rhs) => { proof { assume(false); }
                    match { assert!(choice_k_ > 0); choice_k_ -= 1; choices[choice_k_] } {   // R-revnext
                        Choice::Left => match workspace.active(*lhs) {
                            Some(new_lhs) => {
                                op = SsaOp::CopyReg(new_index, new_lhs);
                            }
                            None => {
                                workspace.set_active(*lhs, new_index);
                                continue;
                            }
                        },
                        Choice::Right => match workspace.active(*rhs) {
                            Some(new_rhs) => {
                                op = SsaOp::CopyReg(new_index, new_rhs);
                            }
                            None => {
                                workspace.set_active(*rhs, new_index);
                                continue;
                            }
                        },
                        Choice::Both => {
                            choice_count += 1;
                            *index = new_index;
                            *lhs = workspace.get_or_insert_active(*lhs);
                            *rhs = workspace.get_or_insert_active(*rhs);
                        }
                        Choice::Unknown => panic!(),
                    }
                }
                SsaOp::AndRegReg(index, lhs, rhs) => { proof { assume(false); }
                    match { assert!(choice_k_ > 0); choice_k_ -= 1; choices[choice_k_] } {   // R-revnext
                        Choice::Left => match workspace.active(*lhs) {
                            Some(new_lhs) => {
                                op = SsaOp::CopyReg(new_index, new_lhs);
                            }
                            None => {
                                workspace.set_active(*lhs, new_index);
                                continue;
                            }
                        },
                        Choice::Right => match workspace.active(*rhs) {
                            Some(new_rhs) => {
                                op = SsaOp::CopyReg(new_index, new_rhs);
                            }
                            None => {
                                workspace.set_active(*rhs, new_index);
                                continue;
                            }
                        },
                        Choice::Both => {
                            choice_count += 1;
                            *index = new_index;
                            *lhs = workspace.get_or_insert_active(*lhs);
                            *rhs = workspace.get_or_insert_active(*rhs);
                        }
                        Choice::Unknown => panic!(),
                    }
                }
                SsaOp::OrRegReg(index, lhs, rhs) => { proof { assume(false); }
                    match { assert!(choice_k_ > 0); choice_k_ -= 1; choices[choice_k_] } {   // R-revnext
                        Choice::Left => match workspace.active(*lhs) {
                            Some(new_lhs) => {
                                op = SsaOp::CopyReg(new_index, new_lhs);
                            }
                            None => {
                                workspace.set_active(*lhs, new_index);
                                continue;
                            }
                        },
                        Choice::Right => match workspace.active(*rhs) {
                            Some(new_rhs) => {
                                op = SsaOp::CopyReg(new_index, new_rhs);
                            }
                            None => {
                                workspace.set_active(*rhs, new_index);
                                continue;
                            }
                        },
                        Choice::Both => {
                            choice_count += 1;
                            *index = new_index;
                            *lhs = workspace.get_or_insert_active(*lhs);
                            *rhs = workspace.get_or_insert_active(*rhs);
                        }
                        Choice::Unknown => panic!(),
                    }
                }
                SsaOp::AddRegReg(index, lhs, rhs) => { proof { assume(false); }
                    *index = new_index;
                    *lhs = workspace.get_or_insert_active(*lhs);
                    *rhs = workspace.get_or_insert_active(*rhs);
                }
                SsaOp::MulRegReg(index, lhs, rhs) => { proof { assume(false); }
                    *index = new_index;
                    *lhs = workspace.get_or_insert_active(*lhs);
                    *rhs = workspace.get_or_insert_active(*rhs);
                }
                SsaOp::SubRegReg(index, lhs, rhs) => { proof { assume(false); }
                    *index = new_index;
                    *lhs = workspace.get_or_insert_active(*lhs);
                    *rhs = workspace.get_or_insert_active(*rhs);
                }
                SsaOp::DivRegReg(index, lhs, rhs) => { proof { assume(false); }
                    *index = new_index;
                    *lhs = workspace.get_or_insert_active(*lhs);
                    *rhs = workspace.get_or_insert_active(*rhs);
                }
                SsaOp::AtanRegReg(index, lhs, rhs) => { proof { assume(false); }
                    *index = new_index;
                    *lhs = workspace.get_or_insert_active(*lhs);
                    *rhs = workspace.get_or_insert_active(*rhs);
                }
                SsaOp::CompareRegReg(index, lhs, rhs) => { proof { assume(false); }
                    *index = new_index;
                    *lhs = workspace.get_or_insert_active(*lhs);
                    *rhs = workspace.get_or_insert_active(*rhs);
                }
                SsaOp::MixRegReg(index, lhs, rhs) => { proof { assume(false); }
                    *index = new_index;
                    *lhs = workspace.get_or_insert_active(*lhs);
                    *rhs = workspace.get_or_insert_active(*rhs);
                }
                SsaOp::ModRegReg(index, lhs, rhs) => { proof { assume(false); }
                    *index = new_index;
                    *lhs = workspace.get_or_insert_active(*lhs);
                    *rhs = workspace.get_or_insert_active(*rhs);
                }
                SsaOp::AddRegImm(index, arg, _imm) => { proof { assume(false); }
                    *index = new_index;
                    *arg = workspace.get_or_insert_active(*arg);
                }
                SsaOp::MulRegImm(index, arg, _imm) => { proof { assume(false); }
                    *index = new_index;
                    *arg = workspace.get_or_insert_active(*arg);
                }
                SsaOp::SubRegImm(index, arg, _imm) => { proof { assume(false); }
                    *index = new_index;
                    *arg = workspace.get_or_insert_active(*arg);
                }
                SsaOp::SubImmReg(index, arg, _imm) => { proof { assume(false); }
                    *index = new_index;
                    *arg = workspace.get_or_insert_active(*arg);
                }
                SsaOp::DivRegImm(index, arg, _imm) => { proof { assume(false); }
                    *index = new_index;
                    *arg = workspace.get_or_insert_active(*arg);
                }
                SsaOp::DivImmReg(index, arg, _imm) => { proof { assume(false); }
                    *index = new_index;
                    *arg = workspace.get_or_insert_active(*arg);
                }
                SsaOp::AtanImmReg(index, arg, _imm) => { proof { assume(false); }
                    *index = new_index;
                    *arg = workspace.get_or_insert_active(*arg);
                }
                SsaOp::AtanRegImm(index, arg, _imm) => { proof { assume(false); }
                    *index = new_index;
                    *arg = workspace.get_or_insert_active(*arg);
                }
                SsaOp::CompareRegImm(index, arg, _imm) => { proof { assume(false); }
                    *index = new_index;
                    *arg = workspace.get_or_insert_active(*arg);
                }
                SsaOp::CompareImmReg(index, arg, _imm) => { proof { assume(false); }
                    *index = new_index;
                    *arg = workspace.get_or_insert_active(*arg);
                }
                SsaOp::MixRegImm(index, arg, _imm) => { proof { assume(false); }
                    *index = new_index;
                    *arg = workspace.get_or_insert_active(*arg);
                }
                SsaOp::MixImmReg(index, arg, _imm) => { proof { assume(false); }
                    *index = new_index;
                    *arg = workspace.get_or_insert_active(*arg);
                }
                SsaOp::ModRegImm(index, arg, _imm) => { proof { assume(false); }
                    *index = new_index;
                    *arg = workspace.get_or_insert_active(*arg);
                }
                SsaOp::ModImmReg(index, arg, _imm) => { proof { assume(false); }
                    *index = new_index;
                    *arg = workspace.get_or_insert_active(*arg);
                }
            }
            proof {
                // ---- group: unary-shaped active op (kind 2/3), argument renamed by get_or_insert_active
                assume(workspace.count <= n);   /* TODO OWN: count <= n through the ownership set */
                lemma_pre_emit(w0.bind@, w0.count, w0.alloc.allocations@, ops, k0);
                if w0.bind@[ssa_a(op0)] != u32::MAX { lemma_bound_arg_pending(w0.bind@, w0.count, w0.alloc.allocations@, ops, k0, ssa_a(op0)); }
                assert(ssa_kind(op) == ssa_kind(op0));
                assert(ssa_o(op) == w0.bind@[ssa_o(op0)]);
                assert(ssa_a(op) == workspace.bind@[ssa_a(op0)]);
                assert(workspace.alloc.op_pre(op));
            }
            let ghost a_before = workspace.alloc.allocations@;
            workspace.alloc.op(op);
            proof {
                lemma_tr_emit1(w0.bind@, w0.count, a_before, ops, k0, workspace.bind@, workspace.count, workspace.alloc.allocations@);
            }
            ops_out.push(op);
        }

        proof { assume(workspace.count as usize + 1 == ops_out.len()); } /* expected finding: holds only for one output */
        assert!(workspace.count as usize + 1 == ops_out.len());
        let asm_tape = workspace.alloc.finalize();

        Ok(VmData {
            ssa: SsaTape {
                tape: ops_out,
                choice_count,
                output_count,
            },
            asm: asm_tape,
            vars: self.vars.clone(),
        })
    }


}
proof fn lemma_cnt_choice_step(ops: Seq<SsaOp>, k: int, n: int)
    requires 0 <= k < n
    ensures cnt_choice(ops, k, n) == cnt_choice(ops, k + 1, n) + if is_choice(ops[k]) { 1int } else { 0int }
{}
proof fn lemma_cnt_choice_bounds(ops: Seq<SsaOp>, lo: int, hi: int)
    ensures 0 <= cnt_choice(ops, lo, hi) <= if hi >= lo { hi - lo } else { 0 }
    decreases hi - lo
{
    if hi > lo { lemma_cnt_choice_bounds(ops, lo + 1, hi); }
}
} // verus!
fn main() {}
