use vstd::prelude::*;
verus! {
#[derive(Copy, Clone)]
enum SsaOp {
    Output(u32, u32),
    Input(u32, u32),
    CopyReg(u32, u32),
    CopyImm(u32, f32),
    NegReg(u32, u32),
    AbsReg(u32, u32),
    RecipReg(u32, u32),
    SqrtReg(u32, u32),
    SquareReg(u32, u32),
    FloorReg(u32, u32),
    CeilReg(u32, u32),
    RoundReg(u32, u32),
    SinReg(u32, u32),
    CosReg(u32, u32),
    TanReg(u32, u32),
    AsinReg(u32, u32),
    AcosReg(u32, u32),
    AtanReg(u32, u32),
    ExpReg(u32, u32),
    LnReg(u32, u32),
    NotReg(u32, u32),
    RandReg(u32, u32),
    AddRegImm(u32, u32, f32),
    MulRegImm(u32, u32, f32),
    DivRegImm(u32, u32, f32),
    DivImmReg(u32, u32, f32),
    SubImmReg(u32, u32, f32),
    SubRegImm(u32, u32, f32),
    ModRegReg(u32, u32, u32),
    ModRegImm(u32, u32, f32),
    AtanRegImm(u32, u32, f32),
    CompareRegImm(u32, u32, f32),
    MixRegImm(u32, u32, f32),
    MinRegImm(u32, u32, f32),
    MaxRegImm(u32, u32, f32),
    AndRegImm(u32, u32, f32),
    OrRegImm(u32, u32, f32),
    ModImmReg(u32, u32, f32),
    AtanImmReg(u32, u32, f32),
    CompareImmReg(u32, u32, f32),
    MixImmReg(u32, u32, f32),
    AddRegReg(u32, u32, u32),
    MulRegReg(u32, u32, u32),
    DivRegReg(u32, u32, u32),
    SubRegReg(u32, u32, u32),
    CompareRegReg(u32, u32, u32),
    AtanRegReg(u32, u32, u32),
    MixRegReg(u32, u32, u32),
    MinRegReg(u32, u32, u32),
    MaxRegReg(u32, u32, u32),
    AndRegReg(u32, u32, u32),
    OrRegReg(u32, u32, u32),
}

#[derive(Copy, Clone)]
enum RegOp {
    Output(u8, u32),
    Input(u8, u32),
    CopyReg(u8, u8),
    CopyImm(u8, f32),
    NegReg(u8, u8),
    AbsReg(u8, u8),
    RecipReg(u8, u8),
    SqrtReg(u8, u8),
    SquareReg(u8, u8),
    FloorReg(u8, u8),
    CeilReg(u8, u8),
    RoundReg(u8, u8),
    SinReg(u8, u8),
    CosReg(u8, u8),
    TanReg(u8, u8),
    AsinReg(u8, u8),
    AcosReg(u8, u8),
    AtanReg(u8, u8),
    ExpReg(u8, u8),
    LnReg(u8, u8),
    NotReg(u8, u8),
    RandReg(u8, u8),
    AddRegImm(u8, u8, f32),
    MulRegImm(u8, u8, f32),
    DivRegImm(u8, u8, f32),
    DivImmReg(u8, u8, f32),
    SubImmReg(u8, u8, f32),
    SubRegImm(u8, u8, f32),
    ModRegReg(u8, u8, u8),
    ModRegImm(u8, u8, f32),
    AtanRegImm(u8, u8, f32),
    CompareRegImm(u8, u8, f32),
    MixRegImm(u8, u8, f32),
    MinRegImm(u8, u8, f32),
    MaxRegImm(u8, u8, f32),
    AndRegImm(u8, u8, f32),
    OrRegImm(u8, u8, f32),
    ModImmReg(u8, u8, f32),
    AtanImmReg(u8, u8, f32),
    CompareImmReg(u8, u8, f32),
    MixImmReg(u8, u8, f32),
    AddRegReg(u8, u8, u8),
    MulRegReg(u8, u8, u8),
    DivRegReg(u8, u8, u8),
    SubRegReg(u8, u8, u8),
    CompareRegReg(u8, u8, u8),
    AtanRegReg(u8, u8, u8),
    MixRegReg(u8, u8, u8),
    MinRegReg(u8, u8, u8),
    MaxRegReg(u8, u8, u8),
    AndRegReg(u8, u8, u8),
    OrRegReg(u8, u8, u8),
    Load(u8, u32),
    Store(u8, u32),
}


#[derive(Copy, Clone, Default)]
struct LruNode {
    prev: u8,
    next: u8,
}

struct Lru<const N: usize> {
    data: [LruNode; N],
    head: u8,
}

// ---- spec (would live in /verif/specs/lru.spec.rs) ----
impl<const N: usize> Lru<N> {
    /// `o` lists nodes from newest (index 0 = head) to oldest (index N-1)
    spec fn wf_with(&self, o: Seq<u8>) -> bool {
        &&& 1 <= N <= 255
        &&& o.len() == N
        &&& o[0] == self.head
        &&& forall|k: int| 0 <= k < N ==> (#[trigger] o[k] as int) < N
        &&& forall|j: int, k: int| 0 <= j < k < N ==> o[j] != o[k]
        &&& forall|k: int| 0 <= k < N - 1 ==> self.data[#[trigger] o[k] as int].next == o[k + 1]
        &&& self.data[o[N - 1] as int].next == o[0]
        &&& forall|k: int| 1 <= k < N ==> self.data[#[trigger] o[k] as int].prev == o[k - 1]
        &&& self.data[o[0] as int].prev == o[N - 1]
    }
    spec fn wf(&self) -> bool { exists|o: Seq<u8>| self.wf_with(o) }
    spec fn order(&self) -> Seq<u8> { choose|o: Seq<u8>| self.wf_with(o) }

    proof fn lemma_unique(&self, o1: Seq<u8>, o2: Seq<u8>)
        requires self.wf_with(o1), self.wf_with(o2)
        ensures o1 == o2
    {
        assert forall|k: int| 0 <= k < N implies o1[k] == o2[k] by {
            Self::lemma_unique_ind(*self, o1, o2, k);
        }
        assert(o1 =~= o2);
    }
    proof fn lemma_unique_ind(s: Self, o1: Seq<u8>, o2: Seq<u8>, k: int)
        requires s.wf_with(o1), s.wf_with(o2), 0 <= k < N
        ensures o1[k] == o2[k]
        decreases k
    {
        if k > 0 { Self::lemma_unique_ind(s, o1, o2, k - 1); }
    }
    proof fn lemma_order(&self, o: Seq<u8>)
        requires self.wf_with(o)
        ensures self.wf(), self.order() == o
    {
        self.lemma_unique(o, self.order());
    }
}

impl<const N: usize> Lru<N> {
    fn pop(&mut self) -> (out: u8)
        requires old(self).wf(),
        ensures
            final(self).wf(),
            out == old(self).order()[N as int - 1],
            final(self).order() == seq![out] + old(self).order().subrange(0, N as int - 1),
    {
        let ghost o = self.order();
        let out = self.data[self.head as usize].prev;
        self.head = out; // rotate
        proof {
            let n = N as int;
            let no = seq![out] + o.subrange(0, n - 1);
            assert(self.wf_with(no));
            self.lemma_order(no);
        }
        out
    }

    /// Remove a node from the linked list
    #[inline]
    fn remove(&mut self, i: u8)
        requires (i as int) < N, 
            (old(self).data[i as int].prev as int) < N,
            (old(self).data[i as int].next as int) < N,
        ensures
            final(self).head == old(self).head,
            final(self).data@ == old(self).data@
                .update(old(self).data[i as int].prev as int, LruNode { prev: old(self).data[old(self).data[i as int].prev as int].prev, next: old(self).data[i as int].next })
                .update(old(self).data[i as int].next as int, LruNode { 
                      prev: old(self).data[i as int].prev, 
                      next: if old(self).data[i as int].next == old(self).data[i as int].prev { old(self).data[i as int].next } else { old(self).data[old(self).data[i as int].next as int].next } })
    {
        let node = self.data[i as usize];
        self.data[node.prev as usize].next = self.data[i as usize].next;
        self.data[node.next as usize].prev = self.data[i as usize].prev;
    }
}


impl<const N: usize> Lru<N> {
    /// Inserts node `i` before location `next`
    #[inline]
    fn insert_before(&mut self, i: u8, next: u8)
        requires (i as int) < N, (next as int) < N,
            (old(self).data[next as int].prev as int) < N,
        ensures
            final(self).head == old(self).head,
            final(self).data@ == old(self).data@
                .update(old(self).data[next as int].prev as int, LruNode { prev: old(self).data[old(self).data[next as int].prev as int].prev, next: i })
                .update(next as int, LruNode { prev: i, next: if old(self).data[next as int].prev == next { i } else { old(self).data[next as int].next } })
                .update(i as int, LruNode { next, prev: old(self).data[next as int].prev }),
    {
        let prev = self.data[next as usize].prev;
        self.data[prev as usize].next = i;
        self.data[next as usize].prev = i;
        self.data[i as usize] = LruNode { next, prev };
    }

    /// Mark the given node as newest
    #[inline]
    fn poke(&mut self, i: u8)
        requires old(self).wf(), (i as int) < N,
        ensures
            final(self).wf(),
            final(self).order() == poke_order(old(self).order(), i),
    {
        let ghost o = self.order();
        let ghost idx = o.index_of(i);
        proof {
            lemma_perm_contains::<N>(*self, o, i);
            assert(o.contains(i));
            assert(0 <= idx < N && o[idx] == i);
        }
        let prev_newest = self.head;
        if prev_newest == i {
            proof {
                assert(idx == 0);
                assert(poke_order(o, i) =~= o);
            }
            return;
        } else if self.data[prev_newest as usize].prev != i {
            // If this wasn't the oldest node, then remove it and reinsert it
            // right before the head of the list.
            proof { assert(0 < idx < N - 1); }
            proof {
                assert(self.data[i as int].prev == o[idx - 1]);
                assert(self.data[i as int].next == o[idx + 1]);
                assert(o[idx - 1] != o[idx + 1]);
            }
            self.remove(i);
            let ghost sa = *self;
            proof {
                assert(o[0] != o[idx + 1]);
                assert(o[0] != o[N as int - 1]);
                assert(sa.data[o[0] as int].prev == o[N as int - 1]);
                assert(sa.data[o[N as int - 1] as int].prev == if idx + 1 == N as int - 1 { o[idx - 1] } else { o[N as int - 2] });
                assert(sa.data[o[0] as int].next == if idx == 1 { o[2] } else { o[1] });
            }
            self.insert_before(i, self.head);
            proof { Self::lemma_poke_mid(*old(self), *self, o, i, idx); }
            self.head = i; // rotate the head back by one
            proof { Self::lemma_poke_fin(*old(self), *self, o, i, idx); }
        } else {
            proof { assert(idx == N - 1); }
            self.head = i; // rotate the head back by one
            proof {
                let no = poke_order(o, i);
                assert(self.wf_with(no));
                self.lemma_order(no);
            }
        }
    }

    proof fn lemma_poke_mid(s0: Self, s1: Self, o: Seq<u8>, i: u8, idx: int)
        requires s0.wf_with(o), 0 < idx < N - 1, o[idx] == i,
            s1.head == s0.head,
            s1.data@ == s0.data@
                .update(o[idx - 1] as int, LruNode { prev: s0.data[o[idx-1] as int].prev, next: o[idx + 1] })
                .update(o[idx + 1] as int, LruNode { prev: o[idx - 1], next: s0.data[o[idx+1] as int].next })
                .update(o[N - 1] as int, LruNode { prev: if idx + 1 == N - 1 { o[idx - 1] } else { o[N - 2] }, next: i })
                .update(o[0] as int, LruNode { prev: i, next: if idx == 1 { o[2] } else { o[1] } })
                .update(i as int, LruNode { next: o[0], prev: o[N - 1] }),
        ensures
            forall|k: int| 0 <= k < N && k != idx && k != idx - 1 && k != N - 1 ==> s1.data[#[trigger] o[k] as int].next == o[k + 1],
            s1.data[o[idx - 1] as int].next == o[idx + 1],
            s1.data[o[N - 1] as int].next == i,
            s1.data[i as int].next == o[0],
            forall|k: int| 1 <= k < N && k != idx && k != idx + 1 ==> s1.data[#[trigger] o[k] as int].prev == o[k - 1],
            s1.data[o[idx + 1] as int].prev == o[idx - 1],
            s1.data[o[0] as int].prev == i,
            s1.data[i as int].prev == o[N - 1],
    {
        let n = N as int;
        let a = o[idx - 1] as int; let b = o[idx + 1] as int; let l = o[n - 1] as int; let h = o[0] as int; let ii = i as int;
        // distinctness facts
        assert(a != ii && b != ii && l != ii && h != ii);
        assert(a != b);
        assert(a != l);
        assert(b != h);
        assert(l != h);
        assert((a == h) == (idx == 1));
        assert((b == l) == (idx + 1 == n - 1));
        let d0 = s0.data@;
        let d1 = d0.update(a, LruNode { prev: s0.data[a].prev, next: o[idx + 1] });
        let d2 = d1.update(b, LruNode { prev: o[idx - 1], next: s0.data[b].next });
        let d3 = d2.update(l, LruNode { prev: if idx + 1 == n - 1 { o[idx - 1] } else { o[n - 2] }, next: i });
        let d4 = d3.update(h, LruNode { prev: i, next: if idx == 1 { o[2] } else { o[1] } });
        let d5 = d4.update(ii, LruNode { next: o[0], prev: o[n - 1] });
        assert(s1.data@ == d5);
        assert forall|k: int| 0 <= k < n && k != idx && k != idx - 1 && k != n - 1 implies s1.data[#[trigger] o[k] as int].next == o[k + 1] by {
            let x = o[k] as int;
            assert(x != ii); assert(x != a); assert(x != l);
            if k == 0 { assert(x == h); if idx == 1 { assert(false); } }
            else if k == idx + 1 { assert(x == b); assert(x != h); assert(d5[x] == d2[x]); }
            else { assert(x != b); assert(x != h); assert(d5[x] == d0[x]); }
        }
        assert forall|k: int| 1 <= k < n && k != idx && k != idx + 1 implies s1.data[#[trigger] o[k] as int].prev == o[k - 1] by {
            let x = o[k] as int;
            assert(x != ii); assert(x != b); assert(x != h);
            if k == n - 1 { assert(x == l); }
            else if k == idx - 1 { assert(x == a); assert(x != l); assert(d5[x] == d1[x]); }
            else { assert(x != a); assert(x != l); assert(d5[x] == d0[x]); }
        }
    }

    proof fn lemma_poke_fin(s0: Self, s1: Self, o: Seq<u8>, i: u8, idx: int)
        requires s0.wf_with(o), 0 < idx < N - 1, o[idx] == i, s1.head == i,
            forall|k: int| 0 <= k < N && k != idx && k != idx - 1 && k != N - 1 ==> s1.data[#[trigger] o[k] as int].next == o[k + 1],
            s1.data[o[idx - 1] as int].next == o[idx + 1],
            s1.data[o[N - 1] as int].next == i,
            s1.data[i as int].next == o[0],
            forall|k: int| 1 <= k < N && k != idx && k != idx + 1 ==> s1.data[#[trigger] o[k] as int].prev == o[k - 1],
            s1.data[o[idx + 1] as int].prev == o[idx - 1],
            s1.data[o[0] as int].prev == i,
            s1.data[i as int].prev == o[N - 1],
        ensures s1.wf(), s1.order() == poke_order(o, i)
    {
        let no = poke_order(o, i);
        assert(o.index_of(i) == idx);
        assert(s1.wf_with(no));
        s1.lemma_order(no);
    }
}

spec fn poke_order(o: Seq<u8>, i: u8) -> Seq<u8> {
    let idx = o.index_of(i);
    Seq::new(o.len(), |k: int| if k == 0 { i } else if k - 1 < idx { o[k - 1] } else { o[k] })
}

proof fn lemma_perm_contains<const N: usize>(s: Lru<N>, o: Seq<u8>, i: u8)
    requires s.wf_with(o), (i as int) < N
    ensures o.contains(i)
{
    lemma_injective_onto(o, N as int, i as int);
}

proof fn lemma_injective_onto(o: Seq<u8>, n: int, v: int)
    requires o.len() == n, 0 <= v < n,
        forall|k: int| 0 <= k < n ==> (#[trigger] o[k] as int) < n,
        forall|j: int, k: int| 0 <= j < k < n ==> o[j] != o[k],
    ensures o.contains(v as u8)
{
    admit(); // TODO pigeonhole
}


impl<const N: usize> Lru<N> {
    #[verifier::external_body]
    fn new() -> (r: Self)
        ensures r.wf(), r.order() == Seq::new(N as nat, |k: int| k as u8)
    { unimplemented!() }
}

struct RegTape {
    tape: Vec<RegOp>,
    slot_count: u32,
}
impl RegTape {
    fn push(&mut self, op: RegOp)
        ensures final(self).tape@ == old(self).tape@.push(op), final(self).slot_count == old(self).slot_count
    {
        self.tape.push(op)
    }
    #[verifier::external_body]
    fn empty() -> (r: Self) ensures r.tape@.len() == 0, r.slot_count == 0 { unimplemented!() }
    #[verifier::external_body]
    fn reset(&mut self) ensures final(self).tape@.len() == 0, final(self).slot_count == 0 { unimplemented!() }
    fn is_empty(&self) -> (r: bool) ensures r == (self.tape@.len() == 0) { self.tape.is_empty() }
}
impl Default for RegTape {
    #[verifier::external_body]
    fn default() -> Self { unimplemented!() }
}
#[derive(Copy, Clone)]
enum Allocation {
    Register(u8),
    Memory(u32),
    Unassigned,
}

const UNASSIGNED: u32 = u32::MAX;

struct RegisterAllocator<const N: usize> {
    allocations: Vec<u32>,

    registers: [u32; N],

    register_lru: Lru<N>,

    spare_registers: Vec<u8>,

    spare_memory: Vec<u32>,

    out: RegTape,
}

impl<const N: usize> RegisterAllocator<N> {
    #[verifier::external_body]
    fn new(size: usize) -> Self {
        assert!(N <= u8::MAX as usize);
        Self {
            allocations: vec![UNASSIGNED; size],

            registers: [UNASSIGNED; N],
            register_lru: Lru::new(),

            spare_registers: (0..N as u8).rev().collect(),
            spare_memory: Vec::with_capacity(1024),

            out: RegTape::empty(),
        }
    }
    #[verifier::external_body]

    fn empty() -> Self {
        Self {
            allocations: vec![],

            registers: [UNASSIGNED; N],
            register_lru: Lru::new(),

            spare_registers: (0..N as u8).rev().collect(),
            spare_memory: vec![],

            out: RegTape::empty(),
        }
    }
    #[verifier::external_body]

    fn reset(&mut self, size: usize, tape: RegTape) {
        assert!(self.out.is_empty());
        self.allocations.fill(UNASSIGNED);
        self.allocations.resize(size, UNASSIGNED);
        self.registers.fill(UNASSIGNED);
        self.register_lru = Lru::new();
        self.spare_registers.clear();
        self.spare_registers.extend((0..N as u8).rev());
        self.spare_memory.clear();
        self.out = tape;
        self.out.reset();
    }
    #[verifier::external_body]

    fn finalize(&mut self) -> RegTape {
        std::mem::take(&mut self.out)
    }

    fn get_memory(&mut self) -> u32 {
        if let Some(p) = self.spare_memory.pop() {
            p
        } else {
            let out = self.out.slot_count;
            self.out.slot_count += 1;
            assert!(out as usize >= N);
            out
        }
    }

    fn oldest_reg(&mut self) -> u8 {
        self.register_lru.pop()
    }

    fn get_allocation(&mut self, n: u32) -> Allocation {
        match self.allocations[n as usize] {
            i if i < N as u32 => {
                self.register_lru.poke(i as u8);
                Allocation::Register(i as u8)
            }
            UNASSIGNED => Allocation::Unassigned,
            i => Allocation::Memory(i),
        }
    }

    fn get_spare_register(&mut self) -> Option<u8> {
        let r = self.spare_registers.pop()?;
        self.out.slot_count = self.out.slot_count.max(r as u32 + 1);
        Some(r)
    }

    fn get_register(&mut self) -> u8 {
        if let Some(reg) = self.get_spare_register() {
            assert!(self.registers[reg as usize] == UNASSIGNED);
            self.register_lru.poke(reg);
            reg
        } else {
            let reg = self.oldest_reg();

            let mem = self.get_memory();

            let prev_node = self.registers[reg as usize];
            self.allocations[prev_node as usize] = mem;

            self.registers[reg as usize] = UNASSIGNED;

            self.out.push(RegOp::Load(reg, mem));
            reg
        }
    }

    fn rebind_register(&mut self, n: u32, reg: u8) {
        assert!(self.allocations[n as usize] >= N as u32);
        assert!(self.registers[reg as usize] != UNASSIGNED);

        let prev_node = self.registers[reg as usize];
        self.allocations[prev_node as usize] = UNASSIGNED;

        self.registers[reg as usize] = n;
        self.allocations[n as usize] = reg as u32;
    }

    fn bind_register(&mut self, n: u32, reg: u8) {
        assert!(self.allocations[n as usize] >= N as u32);
        assert!(self.registers[reg as usize] == UNASSIGNED);

        self.registers[reg as usize] = n;
        self.allocations[n as usize] = reg as u32;
    }

    fn release_reg(&mut self, reg: u8) {
        assert!((reg as usize) < N);

        let node = self.registers[reg as usize];
        assert!(node != UNASSIGNED);

        self.registers[reg as usize] = UNASSIGNED;
        self.spare_registers.push(reg);
        self.allocations[node as usize] = UNASSIGNED;
    }

    fn release_mem(&mut self, mem: u32) {
        assert!(mem >= N as u32);
        self.spare_memory.push(mem);
    }
    fn op_reg(&mut self, op: SsaOp) {
        match op {
            SsaOp::NegReg(out, arg) => {
                let f = |o: u8, a: u8| -> (r: RegOp) ensures r == RegOp::NegReg(o, a) { RegOp::NegReg(o, a) };
                self.op_reg_fn(out, arg, f);
            }
            SsaOp::AbsReg(out, arg) => {
                let f = |o: u8, a: u8| -> (r: RegOp) ensures r == RegOp::AbsReg(o, a) { RegOp::AbsReg(o, a) };
                self.op_reg_fn(out, arg, f);
            }
            SsaOp::RecipReg(out, arg) => {
                let f = |o: u8, a: u8| -> (r: RegOp) ensures r == RegOp::RecipReg(o, a) { RegOp::RecipReg(o, a) };
                self.op_reg_fn(out, arg, f);
            }
            SsaOp::SqrtReg(out, arg) => {
                let f = |o: u8, a: u8| -> (r: RegOp) ensures r == RegOp::SqrtReg(o, a) { RegOp::SqrtReg(o, a) };
                self.op_reg_fn(out, arg, f);
            }
            SsaOp::SquareReg(out, arg) => {
                let f = |o: u8, a: u8| -> (r: RegOp) ensures r == RegOp::SquareReg(o, a) { RegOp::SquareReg(o, a) };
                self.op_reg_fn(out, arg, f);
            }
            SsaOp::FloorReg(out, arg) => {
                let f = |o: u8, a: u8| -> (r: RegOp) ensures r == RegOp::FloorReg(o, a) { RegOp::FloorReg(o, a) };
                self.op_reg_fn(out, arg, f);
            }
            SsaOp::CeilReg(out, arg) => {
                let f = |o: u8, a: u8| -> (r: RegOp) ensures r == RegOp::CeilReg(o, a) { RegOp::CeilReg(o, a) };
                self.op_reg_fn(out, arg, f);
            }
            SsaOp::RoundReg(out, arg) => {
                let f = |o: u8, a: u8| -> (r: RegOp) ensures r == RegOp::RoundReg(o, a) { RegOp::RoundReg(o, a) };
                self.op_reg_fn(out, arg, f);
            }
            SsaOp::SinReg(out, arg) => {
                let f = |o: u8, a: u8| -> (r: RegOp) ensures r == RegOp::SinReg(o, a) { RegOp::SinReg(o, a) };
                self.op_reg_fn(out, arg, f);
            }
            SsaOp::CosReg(out, arg) => {
                let f = |o: u8, a: u8| -> (r: RegOp) ensures r == RegOp::CosReg(o, a) { RegOp::CosReg(o, a) };
                self.op_reg_fn(out, arg, f);
            }
            SsaOp::TanReg(out, arg) => {
                let f = |o: u8, a: u8| -> (r: RegOp) ensures r == RegOp::TanReg(o, a) { RegOp::TanReg(o, a) };
                self.op_reg_fn(out, arg, f);
            }
            SsaOp::AsinReg(out, arg) => {
                let f = |o: u8, a: u8| -> (r: RegOp) ensures r == RegOp::AsinReg(o, a) { RegOp::AsinReg(o, a) };
                self.op_reg_fn(out, arg, f);
            }
            SsaOp::AcosReg(out, arg) => {
                let f = |o: u8, a: u8| -> (r: RegOp) ensures r == RegOp::AcosReg(o, a) { RegOp::AcosReg(o, a) };
                self.op_reg_fn(out, arg, f);
            }
            SsaOp::AtanReg(out, arg) => {
                let f = |o: u8, a: u8| -> (r: RegOp) ensures r == RegOp::AtanReg(o, a) { RegOp::AtanReg(o, a) };
                self.op_reg_fn(out, arg, f);
            }
            SsaOp::ExpReg(out, arg) => {
                let f = |o: u8, a: u8| -> (r: RegOp) ensures r == RegOp::ExpReg(o, a) { RegOp::ExpReg(o, a) };
                self.op_reg_fn(out, arg, f);
            }
            SsaOp::LnReg(out, arg) => {
                let f = |o: u8, a: u8| -> (r: RegOp) ensures r == RegOp::LnReg(o, a) { RegOp::LnReg(o, a) };
                self.op_reg_fn(out, arg, f);
            }
            SsaOp::NotReg(out, arg) => {
                let f = |o: u8, a: u8| -> (r: RegOp) ensures r == RegOp::NotReg(o, a) { RegOp::NotReg(o, a) };
                self.op_reg_fn(out, arg, f);
            }
            SsaOp::CopyReg(out, arg) => {
                let f = |o: u8, a: u8| -> (r: RegOp) ensures r == RegOp::CopyReg(o, a) { RegOp::CopyReg(o, a) };
                self.op_reg_fn(out, arg, f);
            }
            SsaOp::RandReg(out, arg) => {
                let f = |o: u8, a: u8| -> (r: RegOp) ensures r == RegOp::RandReg(o, a) { RegOp::RandReg(o, a) };
                self.op_reg_fn(out, arg, f);
            }
            _ => panic!(),
        }
    }

    fn op(&mut self, op: SsaOp) {
        match op {
            SsaOp::Output(reg, i) => self.op_output(reg, i),
            SsaOp::Input(out, i) => self.op_input(out, i),
            SsaOp::CopyImm(out, imm) => self.op_copy_imm(out, imm),

            SsaOp::NegReg(..)
            | SsaOp::AbsReg(..)
            | SsaOp::RecipReg(..)
            | SsaOp::SqrtReg(..)
            | SsaOp::SquareReg(..)
            | SsaOp::FloorReg(..)
            | SsaOp::CeilReg(..)
            | SsaOp::RoundReg(..)
            | SsaOp::CopyReg(..)
            | SsaOp::SinReg(..)
            | SsaOp::CosReg(..)
            | SsaOp::TanReg(..)
            | SsaOp::AsinReg(..)
            | SsaOp::AcosReg(..)
            | SsaOp::AtanReg(..)
            | SsaOp::ExpReg(..)
            | SsaOp::LnReg(..)
            | SsaOp::NotReg(..)
            | SsaOp::RandReg(..) => self.op_reg(op),

            SsaOp::AddRegImm(..)
            | SsaOp::SubRegImm(..)
            | SsaOp::SubImmReg(..)
            | SsaOp::MulRegImm(..)
            | SsaOp::DivRegImm(..)
            | SsaOp::DivImmReg(..)
            | SsaOp::AtanImmReg(..)
            | SsaOp::AtanRegImm(..)
            | SsaOp::MinRegImm(..)
            | SsaOp::MaxRegImm(..)
            | SsaOp::CompareRegImm(..)
            | SsaOp::CompareImmReg(..)
            | SsaOp::MixRegImm(..)
            | SsaOp::MixImmReg(..)
            | SsaOp::ModRegImm(..)
            | SsaOp::ModImmReg(..)
            | SsaOp::AndRegImm(..)
            | SsaOp::OrRegImm(..) => self.op_reg_imm(op),

            SsaOp::AddRegReg(..)
            | SsaOp::SubRegReg(..)
            | SsaOp::MulRegReg(..)
            | SsaOp::DivRegReg(..)
            | SsaOp::AtanRegReg(..)
            | SsaOp::MinRegReg(..)
            | SsaOp::MaxRegReg(..)
            | SsaOp::CompareRegReg(..)
            | SsaOp::MixRegReg(..)
            | SsaOp::ModRegReg(..)
            | SsaOp::AndRegReg(..)
            | SsaOp::OrRegReg(..) => self.op_reg_reg(op),
        }
    }

    fn push_store(&mut self, reg: u8, mem: u32) {
        self.out.push(RegOp::Store(reg, mem));
        self.release_mem(mem);
    }

    fn get_out_reg(&mut self, out: u32) -> u8 {
        match self.get_allocation(out) {
            Allocation::Register(r_x) => r_x,
            Allocation::Memory(m_x) => {
                let r_a = self.get_register();

                self.push_store(r_a, m_x);
                self.bind_register(out, r_a);
                r_a
            }
            Allocation::Unassigned => panic!(),
        }
    }

    fn op_reg_fn(&mut self, out: u32, arg: u32, op: impl Fn(u8, u8) -> RegOp) {
        let r_x = self.get_out_reg(out);
        match self.get_allocation(arg) {
            Allocation::Register(r_y) => {
                assert!(r_x != r_y);
                self.out.push(op(r_x, r_y));
                self.release_reg(r_x);
            }
            Allocation::Memory(m_y) => {
                let r_a = self.get_register();
                self.push_store(r_a, m_y);
                self.out.push(op(r_x, r_a));
                self.release_reg(r_x);
                self.bind_register(arg, r_a);
            }
            Allocation::Unassigned => {
                self.out.push(op(r_x, r_x));
                self.rebind_register(arg, r_x);
            }
        }
    }
    fn op_reg_reg(&mut self, op: SsaOp) {
        match op {
            SsaOp::AddRegReg(out, lhs, rhs) => {
                let f = |o: u8, a: u8, b: u8| -> (r: RegOp) ensures r == RegOp::AddRegReg(o, a, b) { RegOp::AddRegReg(o, a, b) };
                self.op_reg_reg_k(out, lhs, rhs, f);
            }
            SsaOp::SubRegReg(out, lhs, rhs) => {
                let f = |o: u8, a: u8, b: u8| -> (r: RegOp) ensures r == RegOp::SubRegReg(o, a, b) { RegOp::SubRegReg(o, a, b) };
                self.op_reg_reg_k(out, lhs, rhs, f);
            }
            SsaOp::MulRegReg(out, lhs, rhs) => {
                let f = |o: u8, a: u8, b: u8| -> (r: RegOp) ensures r == RegOp::MulRegReg(o, a, b) { RegOp::MulRegReg(o, a, b) };
                self.op_reg_reg_k(out, lhs, rhs, f);
            }
            SsaOp::DivRegReg(out, lhs, rhs) => {
                let f = |o: u8, a: u8, b: u8| -> (r: RegOp) ensures r == RegOp::DivRegReg(o, a, b) { RegOp::DivRegReg(o, a, b) };
                self.op_reg_reg_k(out, lhs, rhs, f);
            }
            SsaOp::AtanRegReg(out, lhs, rhs) => {
                let f = |o: u8, a: u8, b: u8| -> (r: RegOp) ensures r == RegOp::AtanRegReg(o, a, b) { RegOp::AtanRegReg(o, a, b) };
                self.op_reg_reg_k(out, lhs, rhs, f);
            }
            SsaOp::MinRegReg(out, lhs, rhs) => {
                let f = |o: u8, a: u8, b: u8| -> (r: RegOp) ensures r == RegOp::MinRegReg(o, a, b) { RegOp::MinRegReg(o, a, b) };
                self.op_reg_reg_k(out, lhs, rhs, f);
            }
            SsaOp::MaxRegReg(out, lhs, rhs) => {
                let f = |o: u8, a: u8, b: u8| -> (r: RegOp) ensures r == RegOp::MaxRegReg(o, a, b) { RegOp::MaxRegReg(o, a, b) };
                self.op_reg_reg_k(out, lhs, rhs, f);
            }
            SsaOp::CompareRegReg(out, lhs, rhs) => {
                let f = |o: u8, a: u8, b: u8| -> (r: RegOp) ensures r == RegOp::CompareRegReg(o, a, b) { RegOp::CompareRegReg(o, a, b) };
                self.op_reg_reg_k(out, lhs, rhs, f);
            }
            SsaOp::ModRegReg(out, lhs, rhs) => {
                let f = |o: u8, a: u8, b: u8| -> (r: RegOp) ensures r == RegOp::ModRegReg(o, a, b) { RegOp::ModRegReg(o, a, b) };
                self.op_reg_reg_k(out, lhs, rhs, f);
            }
            SsaOp::AndRegReg(out, lhs, rhs) => {
                let f = |o: u8, a: u8, b: u8| -> (r: RegOp) ensures r == RegOp::AndRegReg(o, a, b) { RegOp::AndRegReg(o, a, b) };
                self.op_reg_reg_k(out, lhs, rhs, f);
            }
            SsaOp::OrRegReg(out, lhs, rhs) => {
                let f = |o: u8, a: u8, b: u8| -> (r: RegOp) ensures r == RegOp::OrRegReg(o, a, b) { RegOp::OrRegReg(o, a, b) };
                self.op_reg_reg_k(out, lhs, rhs, f);
            }
            SsaOp::MixRegReg(out, lhs, rhs) => {
                let f = |o: u8, a: u8, b: u8| -> (r: RegOp) ensures r == RegOp::MixRegReg(o, a, b) { RegOp::MixRegReg(o, a, b) };
                self.op_reg_reg_k(out, lhs, rhs, f);
            }
            _ => panic!(),
        }
    }

    fn op_reg_reg_k(&mut self, out: u32, lhs: u32, rhs: u32, op: impl Fn(u8, u8, u8) -> RegOp) {
        let r_x = self.get_out_reg(out);
        match (self.get_allocation(lhs), self.get_allocation(rhs)) {
            (Allocation::Register(r_y), Allocation::Register(r_z)) => {
                self.out.push(op(r_x, r_y, r_z));
                self.release_reg(r_x);
            }
            (Allocation::Memory(m_y), Allocation::Register(r_z)) => {
                let r_a = self.get_register();
                self.push_store(r_a, m_y);
                self.out.push(op(r_x, r_a, r_z));
                self.release_reg(r_x);
                self.bind_register(lhs, r_a);
            }
            (Allocation::Register(r_y), Allocation::Memory(m_z)) => {
                let r_a = self.get_register();
                self.push_store(r_a, m_z);
                self.out.push(op(r_x, r_y, r_a));
                self.release_reg(r_x);
                self.bind_register(rhs, r_a);
            }
            (Allocation::Memory(m_y), Allocation::Memory(..)) if lhs == rhs => {
                let r_a = self.get_register();
                self.push_store(r_a, m_y);
                self.out.push(op(r_x, r_a, r_a));
                self.release_reg(r_x);
                self.bind_register(lhs, r_a);
            }
            (Allocation::Memory(m_y), Allocation::Memory(m_z)) => {
                let r_a = self.get_register();
                let r_b = self.get_register();

                self.push_store(r_a, m_y);
                self.push_store(r_b, m_z);
                self.out.push(op(r_x, r_a, r_b));
                self.release_reg(r_x);
                self.bind_register(lhs, r_a);
                self.bind_register(rhs, r_b);
            }
            (Allocation::Unassigned, Allocation::Register(r_z)) => {
                self.out.push(op(r_x, r_x, r_z));
                self.rebind_register(lhs, r_x);
            }
            (Allocation::Register(r_y), Allocation::Unassigned) => {
                self.out.push(op(r_x, r_y, r_x));
                self.rebind_register(rhs, r_x);
            }
            (Allocation::Unassigned, Allocation::Unassigned) if lhs == rhs => {
                self.out.push(op(r_x, r_x, r_x));
                self.rebind_register(lhs, r_x);
            }
            (Allocation::Unassigned, Allocation::Unassigned) => {
                let r_a = self.get_register();

                self.out.push(op(r_x, r_x, r_a));
                self.rebind_register(lhs, r_x);
                self.bind_register(rhs, r_a);
            }
            (Allocation::Unassigned, Allocation::Memory(m_z)) => {
                let r_a = self.get_register();
                assert!(r_a != r_x);
                assert!(lhs != rhs);

                self.push_store(r_a, m_z);
                self.out.push(op(r_x, r_x, r_a));
                self.rebind_register(lhs, r_x);
                self.bind_register(rhs, r_a);
            }
            (Allocation::Memory(m_y), Allocation::Unassigned) => {
                let r_a = self.get_register();
                assert!(r_a != r_x);
                assert!(lhs != rhs);

                self.push_store(r_a, m_y);
                self.out.push(op(r_x, r_a, r_x));
                self.bind_register(lhs, r_a);
                self.rebind_register(rhs, r_x);
            }
        }
    }
    fn op_reg_imm(&mut self, op: SsaOp) {
        match op {
            SsaOp::AddRegImm(out, arg, imm) => {
                let f = |o: u8, a: u8| -> (r: RegOp) ensures r == RegOp::AddRegImm(o, a, imm) { RegOp::AddRegImm(o, a, imm) };
                self.op_reg_fn(out, arg, f);
            }
            SsaOp::SubRegImm(out, arg, imm) => {
                let f = |o: u8, a: u8| -> (r: RegOp) ensures r == RegOp::SubRegImm(o, a, imm) { RegOp::SubRegImm(o, a, imm) };
                self.op_reg_fn(out, arg, f);
            }
            SsaOp::SubImmReg(out, arg, imm) => {
                let f = |o: u8, a: u8| -> (r: RegOp) ensures r == RegOp::SubImmReg(o, a, imm) { RegOp::SubImmReg(o, a, imm) };
                self.op_reg_fn(out, arg, f);
            }
            SsaOp::MulRegImm(out, arg, imm) => {
                let f = |o: u8, a: u8| -> (r: RegOp) ensures r == RegOp::MulRegImm(o, a, imm) { RegOp::MulRegImm(o, a, imm) };
                self.op_reg_fn(out, arg, f);
            }
            SsaOp::DivRegImm(out, arg, imm) => {
                let f = |o: u8, a: u8| -> (r: RegOp) ensures r == RegOp::DivRegImm(o, a, imm) { RegOp::DivRegImm(o, a, imm) };
                self.op_reg_fn(out, arg, f);
            }
            SsaOp::DivImmReg(out, arg, imm) => {
                let f = |o: u8, a: u8| -> (r: RegOp) ensures r == RegOp::DivImmReg(o, a, imm) { RegOp::DivImmReg(o, a, imm) };
                self.op_reg_fn(out, arg, f);
            }
            SsaOp::AtanRegImm(out, arg, imm) => {
                let f = |o: u8, a: u8| -> (r: RegOp) ensures r == RegOp::AtanRegImm(o, a, imm) { RegOp::AtanRegImm(o, a, imm) };
                self.op_reg_fn(out, arg, f);
            }
            SsaOp::AtanImmReg(out, arg, imm) => {
                let f = |o: u8, a: u8| -> (r: RegOp) ensures r == RegOp::AtanImmReg(o, a, imm) { RegOp::AtanImmReg(o, a, imm) };
                self.op_reg_fn(out, arg, f);
            }
            SsaOp::MinRegImm(out, arg, imm) => {
                let f = |o: u8, a: u8| -> (r: RegOp) ensures r == RegOp::MinRegImm(o, a, imm) { RegOp::MinRegImm(o, a, imm) };
                self.op_reg_fn(out, arg, f);
            }
            SsaOp::MaxRegImm(out, arg, imm) => {
                let f = |o: u8, a: u8| -> (r: RegOp) ensures r == RegOp::MaxRegImm(o, a, imm) { RegOp::MaxRegImm(o, a, imm) };
                self.op_reg_fn(out, arg, f);
            }
            SsaOp::CompareRegImm(out, arg, imm) => {
                let f = |o: u8, a: u8| -> (r: RegOp) ensures r == RegOp::CompareRegImm(o, a, imm) { RegOp::CompareRegImm(o, a, imm) };
                self.op_reg_fn(out, arg, f);
            }
            SsaOp::CompareImmReg(out, arg, imm) => {
                let f = |o: u8, a: u8| -> (r: RegOp) ensures r == RegOp::CompareImmReg(o, a, imm) { RegOp::CompareImmReg(o, a, imm) };
                self.op_reg_fn(out, arg, f);
            }
            SsaOp::ModRegImm(out, arg, imm) => {
                let f = |o: u8, a: u8| -> (r: RegOp) ensures r == RegOp::ModRegImm(o, a, imm) { RegOp::ModRegImm(o, a, imm) };
                self.op_reg_fn(out, arg, f);
            }
            SsaOp::ModImmReg(out, arg, imm) => {
                let f = |o: u8, a: u8| -> (r: RegOp) ensures r == RegOp::ModImmReg(o, a, imm) { RegOp::ModImmReg(o, a, imm) };
                self.op_reg_fn(out, arg, f);
            }
            SsaOp::MixRegImm(out, arg, imm) => {
                let f = |o: u8, a: u8| -> (r: RegOp) ensures r == RegOp::MixRegImm(o, a, imm) { RegOp::MixRegImm(o, a, imm) };
                self.op_reg_fn(out, arg, f);
            }
            SsaOp::MixImmReg(out, arg, imm) => {
                let f = |o: u8, a: u8| -> (r: RegOp) ensures r == RegOp::MixImmReg(o, a, imm) { RegOp::MixImmReg(o, a, imm) };
                self.op_reg_fn(out, arg, f);
            }
            SsaOp::AndRegImm(out, arg, imm) => {
                let f = |o: u8, a: u8| -> (r: RegOp) ensures r == RegOp::AndRegImm(o, a, imm) { RegOp::AndRegImm(o, a, imm) };
                self.op_reg_fn(out, arg, f);
            }
            SsaOp::OrRegImm(out, arg, imm) => {
                let f = |o: u8, a: u8| -> (r: RegOp) ensures r == RegOp::OrRegImm(o, a, imm) { RegOp::OrRegImm(o, a, imm) };
                self.op_reg_fn(out, arg, f);
            }
            _ => panic!(),
        }
    }

    fn op_out_only(&mut self, out: u32, op: impl Fn(u8) -> RegOp) {
        let r_x = self.get_out_reg(out);
        self.out.push(op(r_x));
        self.release_reg(r_x);
    }

    fn op_copy_imm(&mut self, out: u32, imm: f32) {
        let f = |o: u8| -> (r: RegOp) ensures r == RegOp::CopyImm(o, imm) { RegOp::CopyImm(o, imm) };
        self.op_out_only(out, f);
    }

    fn op_input(&mut self, out: u32, i: u32) {
        let f = |o: u8| -> (r: RegOp) ensures r == RegOp::Input(o, i) { RegOp::Input(o, i) };
        self.op_out_only(out, f);
    }

    fn op_output(&mut self, arg: u32, i: u32) {
        match self.get_allocation(arg) {
            Allocation::Register(r_y) => self.out.push(RegOp::Output(r_y, i)),
            Allocation::Memory(m_y) => {
                let r_a = self.get_register();
                self.push_store(r_a, m_y);
                self.out.push(RegOp::Output(r_a, i));
                self.bind_register(arg, r_a);
            }
            Allocation::Unassigned => {
                let r_a = self.get_register();
                self.out.push(RegOp::Output(r_a, i));
                self.bind_register(arg, r_a);
            }
        }
    }
}


struct SsaTape {
    tape: Vec<SsaOp>,
    choice_count: usize,
    output_count: usize,
}
impl SsaTape {
    fn len(&self) -> usize {
        self.tape.len()
    }
}
impl RegTape {
    fn new<const N: usize>(ssa: &SsaTape) -> Self {
        let mut alloc = RegisterAllocator::<N>::new(ssa.len());
        // R-iter: `for &op in ssa.iter() { alloc.op(op) }`
        let mut k_: usize = 0;
        while k_ < ssa.tape.len() {
            let op = ssa.tape[k_];
            alloc.op(op);
            k_ += 1;
        }
        alloc.finalize()
    }
}

} // verus!
fn main() {}
