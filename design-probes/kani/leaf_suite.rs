#[cfg(kani)]
mod h {
    use fidget_core::types::{Interval, FloatExt};
    use fidget_core::vm::Choice;

    fn any_interval() -> Interval {
        let lo: f32 = kani::any();
        let hi: f32 = kani::any();
        kani::assume(hi >= lo || (lo.is_nan() && hi.is_nan()));
        Interval::new(lo, hi)
    }
    fn same(a: f32, b: f32) -> bool { a.to_bits() == b.to_bits() }
    fn mem(x: f32, i: Interval) -> bool { i.contains(x) }

    macro_rules! point_choice { ($name:ident, $f:ident, $left:expr, $right:expr) => {
        #[kani::proof] fn $name() {
            let a: f32 = kani::any(); let b: f32 = kani::any();
            let (v, c) = a.$f(b);
            match c {
                Choice::Left => assert!(same(v, a)),
                Choice::Right => assert!(same(v, b)),
                Choice::Both => {},
                Choice::Unknown => assert!(false),
            }
        }
    }}
    point_choice!(p_min, min_choice, 0, 0);
    point_choice!(p_max, max_choice, 0, 0);
    point_choice!(p_and, and_choice, 0, 0);
    point_choice!(p_or, or_choice, 0, 0);

    macro_rules! ival_choice { ($name:ident, $f:ident) => {
        #[kani::proof] fn $name() {
            let a = any_interval(); let b = any_interval();
            let x: f32 = kani::any(); let y: f32 = kani::any();
            kani::assume(mem(x, a) && mem(y, b));
            let (_v, c) = a.$f(b);
            let (pv, pc) = x.$f(y);
            match c {
                Choice::Left => assert!(same(pv, x) && pc != Choice::Right),
                Choice::Right => assert!(same(pv, y) && pc != Choice::Left),
                Choice::Both => {},
                Choice::Unknown => assert!(false),
            }
        }
    }}
    ival_choice!(i_min_choice, min_choice);
    ival_choice!(i_max_choice, max_choice);
    ival_choice!(i_and_choice, and_choice);
    ival_choice!(i_or_choice, or_choice);

    macro_rules! ival_sound2 { ($name:ident, $f:ident) => {
        #[kani::proof] fn $name() {
            let a = any_interval(); let b = any_interval();
            let x: f32 = kani::any(); let y: f32 = kani::any();
            kani::assume(mem(x, a) && mem(y, b));
            let (v, _c) = a.$f(b);
            let (pv, _pc) = x.$f(y);
            assert!(v.has_nan() || pv.is_nan() || v.contains(pv));
        }
    }}
    ival_sound2!(s_min, min_choice);
    ival_sound2!(s_max, max_choice);
    ival_sound2!(s_and, and_choice);
    ival_sound2!(s_or, or_choice);

    #[kani::proof] fn s_not() { let a = any_interval(); let x: f32 = kani::any(); kani::assume(mem(x,a)); let r = a.not(); let v = x.not(); assert!(r.has_nan() || r.contains(v)); }
    #[kani::proof] fn s_compare() { let a = any_interval(); let b = any_interval(); let x: f32 = kani::any(); let y: f32 = kani::any(); kani::assume(mem(x,a) && mem(y,b)); let r = Interval::compare(a, b); let v = x.compare(y); assert!(r.has_nan() || v.is_nan() || r.contains(v)); }
    #[kani::proof] fn s_abs() { let a = any_interval(); let x: f32 = kani::any(); kani::assume(mem(x,a)); assert!(a.abs().contains(x.abs())); }
    #[kani::proof] fn s_neg() { let a = any_interval(); let x: f32 = kani::any(); kani::assume(mem(x,a)); assert!((-a).contains(-x)); }
    // totality with NaN-interval and infinities for comparison-only ops
    #[kani::proof] fn t_misc() { let a = any_interval(); let b = any_interval(); let _ = a.abs(); let _ = -a; let _ = a.min_choice(b); let _ = a.max_choice(b); let _ = a.and_choice(b); let _ = a.or_choice(b); let _ = a.not(); let _ = Interval::compare(a,b); }
    #[kani::proof] fn t_mul_f32() { let a = any_interval(); let k: f32 = kani::any(); let _ = a * k; }
    #[kani::proof] fn t_sub() { let a = any_interval(); let b = any_interval(); let _ = a - b; }
    #[kani::proof] fn t_recip() { let a = any_interval(); let _ = a.recip(); }
    #[kani::proof] fn t_sqrt() { let a = any_interval(); let _ = a.sqrt(); }
    #[kani::proof] fn t_floor() { let a = any_interval(); let _ = a.floor(); let _ = a.ceil(); let _ = a.round(); }
    #[kani::proof] fn t_square() { let a = any_interval(); let _ = a.square(); }
}
