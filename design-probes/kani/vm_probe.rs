#[cfg(kani)]
mod h {
    use fidget_core::compiler::RegOp;
    use fidget_core::vm::{VmData, GenericVmFunction};
    use fidget_core::eval::{Function, TracingEvaluator};
    use fidget_core::var::{Var, VarMap};
    use fidget_core::context::BinaryOpcode;

    fn same(a: f32, b: f32) -> bool { a.to_bits() == b.to_bits() || (a.is_nan() && b.is_nan()) }

    #[kani::proof]
    #[kani::unwind(6)]
    fn vm_point_sub2() {
        let ops = vec![RegOp::Output(0, 0), RegOp::SubRegReg(0, 0, 1), RegOp::Input(1, 1), RegOp::Input(0, 0)];
        let mut vars = VarMap::new();
        vars.insert(Var::X);
        vars.insert(Var::Y);
        let data = VmData::<3>::verif_from_asm(ops, 2, 0, 1, vars);
        let f = GenericVmFunction::<3>::from(data);
        let tape = f.point_tape(Default::default());
        let mut eval = GenericVmFunction::<3>::new_point_eval();
        let x: f32 = kani::any();
        let y: f32 = kani::any();
        let (out, _trace) = eval.eval(&tape, &[x, y]).unwrap();
        assert!(out.len() == 1);
        assert!(same(out[0], BinaryOpcode::Sub.eval(x, y)));
    }
}
