use fidget_core::{Context, eval::{Function, MathFunction, TracingEvaluator}, vm::VmFunction};
fn main() {
    let mut ctx = Context::new();
    let x = ctx.x();
    let y = ctx.y();
    let a = ctx.min(x, y).unwrap();
    let b = ctx.max(x, y).unwrap();
    let vm = VmFunction::new(&ctx, &[a, b]).unwrap();
    let vt = vm.point_tape(Default::default());
    let mut ve = VmFunction::new_point_eval();
    let nvars = vm.vars().len();
    let args = vec![1.0f32; nvars].iter().enumerate().map(|(i,_)| i as f32 + 1.0).collect::<Vec<_>>();
    let (vo, vtr) = ve.eval(&vt, &args).unwrap();
    println!("vm out={:?} trace={:?}", vo, vtr.map(|t| t.as_slice().to_vec()));
    let t = vtr.unwrap().clone();
    let r = std::panic::catch_unwind(|| vm.simplify(&t, Default::default(), &mut Default::default()).map(|f| (f.size(), f.output_count())));
    println!("simplify 2-output: {:?}", r.map(|r| r.map_err(|_| ())));
}
