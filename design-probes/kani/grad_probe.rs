#[cfg(kani)]
mod h {
    use fidget_core::types::Grad;
    fn same(a: f32, b: f32) -> bool { a.to_bits() == b.to_bits() || (a.is_nan() && b.is_nan()) }
    fn any_grad() -> Grad { Grad::new(kani::any(), kani::any(), kani::any(), kani::any()) }
    fn perm(g: Grad) -> Grad { Grad::new(g.v, g.dy, g.dz, g.dx) }
    fn same_g(a: Grad, b: Grad) -> bool { same(a.v,b.v) && same(a.dx,b.dx) && same(a.dy,b.dy) && same(a.dz,b.dz) }

    #[kani::proof] fn g_mul_value() { let a = any_grad(); let b = any_grad(); assert!(same((a*b).v, a.v*b.v)); }
    #[kani::proof] fn g_mul_lanes() { let a = any_grad(); let b = any_grad(); assert!(same_g(perm(a*b), perm(a)*perm(b))); }
    #[kani::proof] fn g_div_lanes() { let a = any_grad(); let b = any_grad(); assert!(same_g(perm(a/b), perm(a)/perm(b))); }
    #[kani::proof] fn g_min_value() { let a = any_grad(); let b = any_grad(); let r = a.min(b); 
        use fidget_core::types::FloatExt; assert!(same(r.v, a.v.min_choice(b.v).0)); }
    #[kani::proof] fn g_abs_lanes() { let a = any_grad(); assert!(same_g(perm(a.abs()), perm(a).abs())); }
}
