#[cfg(kani)]
mod h {
    use fidget_gui::{View2, View3};
    use nalgebra::{Vector2, Vector3, Point3};

    #[kani::proof]
    fn view2_zoom_flag() {
        let c = Vector2::new(kani::any::<f32>(), kani::any::<f32>());
        let s: f32 = kani::any();
        let mut v = View2::from_center_and_scale(c, s);
        let amount: f32 = kani::any();
        let changed = v.zoom(amount, None);
        let (c2, s2) = v.components();
        let same = c2.x.to_bits() == c.x.to_bits() && c2.y.to_bits() == c.y.to_bits() && s2.to_bits() == s.to_bits();
        assert!(!(same && changed));
    }

    #[kani::proof]
    fn view3_rotate_frame_and_range() {
        let c = Vector3::new(kani::any::<f32>(), kani::any::<f32>(), kani::any::<f32>());
        let s: f32 = kani::any();
        let yaw: f32 = kani::any();
        let pitch: f32 = kani::any();
        let mut v = View3::from_components(c, s, yaw, pitch);
        let start = Point3::new(kani::any::<f32>(), kani::any::<f32>(), kani::any::<f32>());
        let pos = Point3::new(kani::any::<f32>(), kani::any::<f32>(), kani::any::<f32>());
        kani::assume(start.x.is_finite() && start.y.is_finite() && pos.x.is_finite() && pos.y.is_finite() && yaw.is_finite() && pitch.is_finite());
        let h = v.begin_rotate(start);
        let _ = v.rotate(&h, pos);
        let (c2, s2, yaw2, pitch2) = v.components();
        assert!(c2.x.to_bits() == c.x.to_bits() && c2.y.to_bits() == c.y.to_bits() && c2.z.to_bits() == c.z.to_bits());
        assert!(s2.to_bits() == s.to_bits());
        assert!(pitch2.is_nan() || (pitch2 >= 0.0 && pitch2 <= std::f32::consts::PI));
        assert!(yaw2.is_nan() || (yaw2 > -std::f32::consts::TAU && yaw2 < std::f32::consts::TAU));
    }
}
