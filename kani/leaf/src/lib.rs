//! E-kani leaf suite: complete (full input domain, loop-free) contracts of the comparison/select
//! functions that carry the `trace_ok` hypothesis (C04, C20), local interval enclosure (C03),
//! totality of interval operations (C11), gradient select ops (C05) and view frame conditions (C18).
//!
//! A harness *is* the contract of the function it calls: assume(pre); r = f(any()); assert(post).
//! Every harness body is generic over the source of its inputs: under Kani the source is
//! `kani::any()` (all values); natively (`cargo run --bin replay`) it is the counterexample vector
//! Kani printed, so a reported failure is re-executed against the real crate before it is believed.
//! Harness names are `<module>::<property tags>__<function>__<clause>::check`.
#![allow(clippy::all)]
#![allow(unused_variables, unused_mut, dead_code, unused_imports, non_snake_case)]

pub trait Src {
    fn f32(&mut self) -> f32;
    fn u8(&mut self) -> u8;
    fn assume(&mut self, c: bool);
}

#[cfg(kani)]
pub struct KaniSrc;
#[cfg(kani)]
impl Src for KaniSrc {
    fn f32(&mut self) -> f32 {
        kani::any()
    }
    fn u8(&mut self) -> u8 {
        kani::any()
    }
    fn assume(&mut self, c: bool) {
        kani::assume(c)
    }
}

/// native source: values recorded by Kani's concrete playback, consumed in order
pub struct Native {
    pub vals: Vec<Vec<u8>>,
    pub pos: usize,
    pub assumption_violated: bool,
}
impl Native {
    fn next(&mut self, n: usize) -> Vec<u8> {
        let v = self.vals.get(self.pos).cloned().unwrap_or_else(|| vec![0; n]);
        self.pos += 1;
        let mut v = v;
        v.resize(n, 0);
        v
    }
}
impl Src for Native {
    fn f32(&mut self) -> f32 {
        let b = self.next(4);
        f32::from_le_bytes([b[0], b[1], b[2], b[3]])
    }
    fn u8(&mut self) -> u8 {
        self.next(1)[0]
    }
    fn assume(&mut self, c: bool) {
        if !c {
            self.assumption_violated = true;
        }
    }
}

/// defines `pub mod NAME { pub fn body<S: Src>(s) {..}  #[kani::proof] fn check() }`
#[macro_export]
macro_rules! h {
    ($name:ident, |$s:ident| $body:block) => {
        pub mod $name {
            #[allow(unused_imports)]
            use super::*;
            pub fn body<S: $crate::Src>($s: &mut S) $body
            #[cfg(kani)]
            #[kani::proof]
            fn check() {
                body(&mut $crate::KaniSrc)
            }
        }
    };
}

pub mod choice;
pub mod grad;
pub mod interval;
pub mod total;
pub mod view;
pub mod ctxax;
pub mod registry;
