use crate::Src;
use crate::choice::{any_interval, mem};
use fidget_core::types::{FloatExt, Interval};

// ---- local enclosure: for valid A,B and points a in A, b in B: OP(A,B) is NaN, or op(a,b) is NaN, or op(a,b) in OP(A,B)
macro_rules! ival_sound2 {
    ($name:ident, $f:ident) => {
        h!($name, |s| {
            let a = any_interval(s);
            let b = any_interval(s);
            let x: f32 = s.f32();
            let y: f32 = s.f32();
            s.assume(mem(x, a) && mem(y, b));
            let (v, _c) = a.$f(b);
            let (pv, _pc) = x.$f(y);
            assert!(v.has_nan() || pv.is_nan() || v.contains(pv));
        });
    };
}
ival_sound2!(c03__interval_min__encloses, min_choice);
ival_sound2!(c03__interval_max__encloses, max_choice);
ival_sound2!(c03__interval_and__encloses, and_choice);
ival_sound2!(c03__interval_or__encloses, or_choice);

h!(c03__interval_not__encloses, |s| {
    let a = any_interval(s);
    let x: f32 = s.f32();
    s.assume(mem(x, a));
    let r = a.not();
    let v = x.not();
    assert!(r.has_nan() || r.contains(v));
});
h!(c03__interval_compare__encloses, |s| {
    let a = any_interval(s);
    let b = any_interval(s);
    let x: f32 = s.f32();
    let y: f32 = s.f32();
    s.assume(mem(x, a) && mem(y, b));
    let r = Interval::compare(a, b);
    let v = x.compare(y);
    assert!(r.has_nan() || v.is_nan() || r.contains(v));
});
h!(c03__interval_abs__encloses, |s| {
    let a = any_interval(s);
    let x: f32 = s.f32();
    s.assume(mem(x, a));
    assert!(a.abs().contains(x.abs()));
});
h!(c03__interval_neg__encloses, |s| {
    let a = any_interval(s);
    let x: f32 = s.f32();
    s.assume(mem(x, a));
    assert!((-a).contains(-x));
});
// NaN-interval convention: a NaN operand gives the NaN interval (or a sound one) for the comparison ops
h!(c03__interval_nan_in__nan_or_sound_out, |s| {
    let b = any_interval(s);
    let n = Interval::from(f32::NAN);
    assert!(n.min_choice(b).0.has_nan() && b.min_choice(n).0.has_nan());
    assert!(n.max_choice(b).0.has_nan() && b.max_choice(n).0.has_nan());
    assert!(n.and_choice(b).0.has_nan() && n.or_choice(b).0.has_nan());
    assert!(Interval::compare(n, b).has_nan() && Interval::compare(b, n).has_nan());
    assert!(n.abs().has_nan() && (-n).has_nan());
    // `not` of an unknown value is [0,1], which encloses both possible results
    assert!(n.not().contains(0.0) && n.not().contains(1.0));
});
h!(c03__interval_contains_has_nan__meaning, |s| {
    let a = any_interval(s);
    let x: f32 = s.f32();
    assert!(a.contains(x) == (x >= a.lower() && x <= a.upper()));
    assert!(a.has_nan() == (a.lower().is_nan() || a.upper().is_nan()));
    if a.has_nan() { assert!(!a.contains(x)); }
});
