//! AX-ctx: the float identities the `Context` constructor rewrites rely on (unit `context`, axiom `ax_ctx`), each for
//! ALL f32 bit patterns.  `fin(x)` of the axiom is `x.is_finite()`; `fz(x)` is `x == 0.0`; `approx(x, y)` is
//! bit equality or both zero.
use crate::Src;
use fidget_core::types::FloatExt;

fn fz(x: f32) -> bool {
    x == 0.0
}
fn approx(x: f32, y: f32) -> bool {
    x.to_bits() == y.to_bits() || (fz(x) && fz(y))
}

h!(c12__ctxax_one_unique, |s| {
    let c: f32 = s.f32();
    if c == 1.0 {
        assert!(c.to_bits() == 1.0f32.to_bits());
    }
});
h!(c12__ctxax_add_zero, |s| {
    let x: f32 = s.f32();
    let z: f32 = s.f32();
    s.assume(x.is_finite() && fz(z));
    assert!(approx(x + z, x));
    assert!(approx(z + x, x));
});
h!(c12__ctxax_add_self, |s| {
    let x: f32 = s.f32();
    s.assume(x.is_finite());
    assert!((x + x).to_bits() == (x * 2.0).to_bits());
});
h!(c12__ctxax_comm_add, |s| {
    let x: f32 = s.f32();
    let y: f32 = s.f32();
    s.assume(x.is_finite() && y.is_finite());
    assert!((x + y).to_bits() == (y + x).to_bits());
});
h!(c12__ctxax_comm_mul, |s| {
    let x: f32 = s.f32();
    let y: f32 = s.f32();
    s.assume(x.is_finite() && y.is_finite());
    assert!((x * y).to_bits() == (y * x).to_bits());
});
h!(c12__ctxax_mul_one, |s| {
    let x: f32 = s.f32();
    s.assume(x.is_finite());
    assert!((x * 1.0).to_bits() == x.to_bits());
    assert!((1.0 * x).to_bits() == x.to_bits());
});
h!(c12__ctxax_mul_zero, |s| {
    let x: f32 = s.f32();
    let z: f32 = s.f32();
    s.assume(x.is_finite() && fz(z));
    assert!(fz(x * z));
    assert!(fz(z * x));
});
h!(c12__ctxax_sub_zero, |s| {
    let x: f32 = s.f32();
    let z: f32 = s.f32();
    s.assume(x.is_finite() && fz(z));
    assert!(approx(x - z, x));
    assert!(approx(z - x, -x));
});
h!(c12__ctxax_zero_div, |s| {
    let x: f32 = s.f32();
    let z: f32 = s.f32();
    s.assume(fz(z));
    let q = z / x;
    if q.is_finite() {
        assert!(fz(q));
    }
});
h!(c12__ctxax_div_one, |s| {
    let x: f32 = s.f32();
    s.assume(x.is_finite());
    assert!((x / 1.0).to_bits() == x.to_bits());
});
h!(c12__ctxax_minmax_self, |s| {
    let x: f32 = s.f32();
    s.assume(x.is_finite());
    assert!(x.min_choice(x).0.to_bits() == x.to_bits());
    assert!(x.max_choice(x).0.to_bits() == x.to_bits());
});
h!(c12__ctxax_minmax_comm, |s| {
    let x: f32 = s.f32();
    let y: f32 = s.f32();
    s.assume(x.is_finite() && y.is_finite());
    assert!(approx(x.min_choice(y).0, y.min_choice(x).0));
    assert!(approx(x.max_choice(y).0, y.max_choice(x).0));
});
h!(c12__ctxax_and_or, |s| {
    let x: f32 = s.f32();
    let y: f32 = s.f32();
    let a = x.and_choice(y).0;
    let o = x.or_choice(y).0;
    assert!(a.to_bits() == (if fz(x) { x } else { y }).to_bits());
    assert!(o.to_bits() == (if !fz(x) { x } else { y }).to_bits());
});
h!(c12__ctxax_fin_consts, |s| {
    assert!(0.0f32.is_finite() && 1.0f32.is_finite() && 2.0f32.is_finite());
    assert!(!fz(1.0) && !fz(2.0));
});
h!(c12__ctxax_fin_not_nan, |s| {
    let x: f32 = s.f32();
    if x.is_finite() {
        assert!(!x.is_nan());
    }
});
h!(c12__ctxax_zero_props, |s| {
    let x: f32 = s.f32();
    if fz(x) {
        assert!(fz(-x));
        assert!(x.is_finite());
    }
});
h!(c12__ctxax_not, |s| {
    let x: f32 = s.f32();
    assert!(x.not().to_bits() == (if fz(x) { 1.0f32 } else { 0.0f32 }).to_bits());
    assert!(fz(0.0));
});
