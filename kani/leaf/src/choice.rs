use crate::Src;
use fidget_core::types::{FloatExt, Interval};
use fidget_core::vm::Choice;

pub fn any_interval<S: Src>(s: &mut S) -> Interval {
    let lo: f32 = s.f32();
    let hi: f32 = s.f32();
    let valid = hi >= lo || (lo.is_nan() && hi.is_nan());
    s.assume(valid);
    if !valid {
        return Interval::from(0.0); // only reachable in a native replay of an invalid vector
    }
    Interval::new(lo, hi)
}
pub fn same(a: f32, b: f32) -> bool {
    a.to_bits() == b.to_bits()
}
pub fn mem(x: f32, i: Interval) -> bool {
    i.contains(x)
}

// ---- f32::*_choice: Left => value is the left operand bit for bit, Right => the right one; never Unknown
macro_rules! point_choice {
    ($name:ident, $f:ident) => {
        h!($name, |s| {
            let a: f32 = s.f32();
            let b: f32 = s.f32();
            let (v, c) = a.$f(b);
            match c {
                Choice::Left => assert!(same(v, a)),
                Choice::Right => assert!(same(v, b)),
                Choice::Both => {}
                Choice::Unknown => assert!(false),
            }
        });
    };
}
point_choice!(c04_c20__f32_min_choice__selected_operand, min_choice);
point_choice!(c04_c20__f32_max_choice__selected_operand, max_choice);
point_choice!(c04_c20__f32_and_choice__selected_operand, and_choice);
point_choice!(c04_c20__f32_or_choice__selected_operand, or_choice);

// ---- Both for min/max iff operands compare equal or one is NaN; and/or never Both for points
h!(c20__f32_min_choice__both_iff_tie_or_nan, |s| {
    let a: f32 = s.f32();
    let b: f32 = s.f32();
    let (v, c) = a.min_choice(b);
    assert!((c == Choice::Both) == (a == b || a.is_nan() || b.is_nan()));
    assert!((c == Choice::Left) == (a < b));
    assert!((c == Choice::Right) == (b < a));
    if a.is_nan() || b.is_nan() { assert!(v.is_nan()); }
});
h!(c20__f32_max_choice__both_iff_tie_or_nan, |s| {
    let a: f32 = s.f32();
    let b: f32 = s.f32();
    let (v, c) = a.max_choice(b);
    assert!((c == Choice::Both) == (a == b || a.is_nan() || b.is_nan()));
    assert!((c == Choice::Left) == (a > b));
    assert!((c == Choice::Right) == (b > a));
    if a.is_nan() || b.is_nan() { assert!(v.is_nan()); }
});
h!(c20__f32_and_or_choice__never_both, |s| {
    let a: f32 = s.f32();
    let b: f32 = s.f32();
    let (_, c) = a.and_choice(b);
    assert!((c == Choice::Left) == (a == 0.0));
    assert!((c == Choice::Right) == (a != 0.0));
    let (_, c) = a.or_choice(b);
    assert!((c == Choice::Left) == (a != 0.0));
    assert!((c == Choice::Right) == (a == 0.0));
});

fn any_choice<S: Src>(s: &mut S) -> Choice {
    let k: u8 = s.u8();
    s.assume(k < 4);
    match k { 0 => Choice::Unknown, 1 => Choice::Left, 2 => Choice::Right, _ => Choice::Both }
}
// ---- OR-ing a clause's choice into a cleared slot records exactly that choice; bit-field algebra
h!(c20__choice_bitor_assign__record_into_cleared_slot, |s| {
    let c = any_choice(s);
    let mut slot = Choice::Unknown;
    slot |= c;
    assert!(slot == c);
    let d = any_choice(s);
    let mut s2 = c;
    s2 |= d;
    assert!(s2 as u8 == (c as u8 | d as u8));
});

// ---- Interval::*_choice: a decided interval choice is valid at every point of the box
macro_rules! ival_choice {
    ($name:ident, $f:ident) => {
        h!($name, |s| {
            let a = any_interval(s);
            let b = any_interval(s);
            let x: f32 = s.f32();
            let y: f32 = s.f32();
            s.assume(mem(x, a) && mem(y, b));
            let (_v, c) = a.$f(b);
            let (pv, pc) = x.$f(y);
            match c {
                Choice::Left => assert!(same(pv, x) && pc != Choice::Right),
                Choice::Right => assert!(same(pv, y) && pc != Choice::Left),
                Choice::Both => {}
                Choice::Unknown => assert!(false),
            }
        });
    };
}
ival_choice!(c04_c20__interval_min_choice__valid_at_every_point, min_choice);
ival_choice!(c04_c20__interval_max_choice__valid_at_every_point, max_choice);
ival_choice!(c04_c20__interval_and_choice__valid_at_every_point, and_choice);
ival_choice!(c04_c20__interval_or_choice__valid_at_every_point, or_choice);
