use crate::Src;
use crate::choice::any_interval;
use fidget_core::types::Interval;

// ---- totality: every Interval operation returns normally on all valid inputs incl. +-inf and the NaN interval
h!(c11__interval_select_ops__total, |s| {
    let a = any_interval(s);
    let b = any_interval(s);
    let _ = a.abs();
    let _ = -a;
    let _ = a.min_choice(b);
    let _ = a.max_choice(b);
    let _ = a.and_choice(b);
    let _ = a.or_choice(b);
    let _ = a.not();
    let _ = Interval::compare(a, b);
});
h!(c11__interval_add__total, |s| {
    let a = any_interval(s);
    let b = any_interval(s);
    let _ = a + b;
});
h!(c11__interval_sub__total, |s| {
    let a = any_interval(s);
    let b = any_interval(s);
    let _ = a - b;
});
h!(c11__interval_mul_f32__total, |s| {
    let a = any_interval(s);
    let k: f32 = s.f32();
    let _ = a * k;
});
h!(c11__interval_floor_ceil_round__total, |s| {
    let a = any_interval(s);
    let _ = a.floor();
    let _ = a.ceil();
    let _ = a.round();
});
h!(c11__interval_from_f32__total, |s| {
    let x: f32 = s.f32();
    let i = Interval::from(x);
    assert!(i.lower().to_bits() == x.to_bits() && i.upper().to_bits() == x.to_bits());
});

