//! native replay of a Kani counterexample: `replay <harness> <json file with concrete_values>`
//! exit 0: the contract holds on that input (counterexample spurious / assumption violated)
//! exit 1 (or panic, 101): the contract fails natively on the real crate
use verif_kani_leaf::{Native, registry};
fn main() {
    let a: Vec<String> = std::env::args().collect();
    let name = &a[1];
    let vals: Vec<Vec<u8>> = a[2].split(';').filter(|s| !s.is_empty())
        .map(|v| v.split(',').filter(|x| !x.is_empty()).map(|x| x.trim().parse().unwrap()).collect()).collect();
    let mut src = Native { vals, pos: 0, assumption_violated: false };
    let Some(f) = registry::lookup(name) else {
        eprintln!("unknown harness {name}");
        std::process::exit(2);
    };
    f(&mut src);
    if src.assumption_violated {
        println!("replay: an assumption of the harness does not hold for these values (not a valid counterexample)");
        std::process::exit(3);
    }
    println!("replay: contract holds natively on this input");
}
