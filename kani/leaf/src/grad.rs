use crate::Src;
use fidget_core::types::{FloatExt, Grad};
// the property asks for a value *equal* to the point evaluator's (not bit-identical): -0.0 == 0.0
fn same(a: f32, b: f32) -> bool {
    a == b || (a.is_nan() && b.is_nan())
}
fn any_grad<S: Src>(s: &mut S) -> Grad {
    Grad::new(s.f32(), s.f32(), s.f32(), s.f32())
}
fn perm(g: Grad) -> Grad {
    Grad::new(g.v, g.dy, g.dz, g.dx)
}
fn same_g(a: Grad, b: Grad) -> bool {
    same(a.v, b.v) && same(a.dx, b.dx) && same(a.dy, b.dy) && same(a.dz, b.dz)
}

// value lane == point op on the value lanes, for arbitrary seed lanes; lanes are treated uniformly
h!(c05__grad_min__value_is_point_value_and_lanes_uniform, |s| {
    let a = any_grad(s);
    let b = any_grad(s);
    let r = a.min(b);
    assert!(same(r.v, a.v.min_choice(b.v).0));
    assert!(same_g(perm(r), perm(a).min(perm(b))));
    // derivative lanes are those of the selected operand (or NaN lanes when the value is NaN)
    if a.v < b.v { assert!(same_g(r, a)); }
    if b.v < a.v { assert!(same_g(r, b)); }
});
h!(c05__grad_max__value_is_point_value_and_lanes_uniform, |s| {
    let a = any_grad(s);
    let b = any_grad(s);
    let r = a.max(b);
    assert!(same(r.v, a.v.max_choice(b.v).0));
    assert!(same_g(perm(r), perm(a).max(perm(b))));
    if a.v > b.v { assert!(same_g(r, a)); }
    if b.v > a.v { assert!(same_g(r, b)); }
});
h!(c05__grad_abs_neg__value_and_lanes, |s| {
    let a = any_grad(s);
    let r = a.abs();
    assert!(same(r.v, a.v.abs()));
    assert!(same_g(perm(r), perm(a).abs()));
    if a.v > 0.0 { assert!(same_g(r, a)); }
    if a.v < 0.0 { assert!(same_g(r, -a)); }
    let n = -a;
    assert!(same(n.v, -a.v) && same(n.dx, -a.dx) && same(n.dy, -a.dy) && same(n.dz, -a.dz));
});
