use crate::Src;
use fidget_gui::{View2, View3};
use nalgebra::{Point2, Point3, Vector2, Vector3};

fn bits2(a: Vector2<f32>, b: Vector2<f32>) -> bool {
    a.x.to_bits() == b.x.to_bits() && a.y.to_bits() == b.y.to_bits()
}
fn bits3(a: Vector3<f32>, b: Vector3<f32>) -> bool {
    a.x.to_bits() == b.x.to_bits() && a.y.to_bits() == b.y.to_bits() && a.z.to_bits() == b.z.to_bits()
}

// 'changed' is false whenever the view is bit-identical to before
h!(c18__view2_zoom_no_cursor__flag_false_when_unchanged_and_frame, |s| {
    let c = Vector2::new(s.f32(), s.f32());
    let sc: f32 = s.f32();
    let mut v = View2::from_center_and_scale(c, sc);
    let amount: f32 = s.f32();
    let changed = v.zoom(amount, None);
    let (c2, s2) = v.components();
    // frame: zoom without a cursor position leaves the centre alone
    assert!(bits2(c2, c));
    let same = s2.to_bits() == sc.to_bits();
    assert!(!(same && changed));
});
h!(c18__view3_zoom_no_cursor__flag_false_when_unchanged_and_frame, |s| {
    let c = Vector3::new(s.f32(), s.f32(), s.f32());
    let sc: f32 = s.f32();
    let yaw: f32 = s.f32();
    let pitch: f32 = s.f32();
    let mut v = View3::from_components(c, sc, yaw, pitch);
    let amount: f32 = s.f32();
    let changed = v.zoom(amount, None);
    let (c2, s2, yaw2, pitch2) = v.components();
    assert!(bits3(c2, c) && yaw2.to_bits() == yaw.to_bits() && pitch2.to_bits() == pitch.to_bits());
    let same = s2.to_bits() == sc.to_bits();
    assert!(!(same && changed));
});
// rotating changes neither centre nor scale and keeps pitch within [0, pi]
h!(c18__view3_rotate__frame_and_pitch_range, |s| {
    let c = Vector3::new(s.f32(), s.f32(), s.f32());
    let sc: f32 = s.f32();
    let yaw: f32 = s.f32();
    let pitch: f32 = s.f32();
    let mut v = View3::from_components(c, sc, yaw, pitch);
    let start = Point3::new(s.f32(), s.f32(), s.f32());
    let pos = Point3::new(s.f32(), s.f32(), s.f32());
    let h = v.begin_rotate(start);
    let changed = v.rotate(&h, pos);
    let (c2, s2, yaw2, pitch2) = v.components();
    assert!(bits3(c2, c));
    assert!(s2.to_bits() == sc.to_bits());
    assert!(pitch2.is_nan() || (pitch2 >= 0.0 && pitch2 <= std::f32::consts::PI));
    let same = yaw2.to_bits() == yaw.to_bits() && pitch2.to_bits() == pitch.to_bits();
    assert!(!(same && changed));
});
// panning changes neither scale nor angles
h!(c18__view2_translate__frame_and_flag, |s| {
    let c = Vector2::new(s.f32(), s.f32());
    let sc: f32 = s.f32();
    let mut v = View2::from_center_and_scale(c, sc);
    let start = Point2::new(s.f32(), s.f32());
    let pos = Point2::new(s.f32(), s.f32());
    let h = v.begin_translate(start);
    let changed = v.translate(&h, pos);
    let (c2, s2) = v.components();
    assert!(s2.to_bits() == sc.to_bits());
    assert!(!(bits2(c2, c) && changed));
});
