//! Helpers shared by the JIT / trace / simplify / reuse / bytecode / totality contracts.
//!
//! `JN` is the register budget of the native evaluators.  `fidget_jit::REGISTER_LIMIT` is private;
//! `JitFunction: From<GenericVmFunction<REGISTER_LIMIT>>` is the only conversion, so the line
//! `JitFunction::from(GenericVmFunction::<JN>::from(..))` below compiles only when `JN` is that limit
//! (12 on x86_64).
use crate::common::*;
use fidget_core::compiler::{RegOp, RegTape, SsaOp, SsaTape};
use fidget_core::context::{BinaryOpcode as B, UnaryOpcode as U};
use fidget_core::types::{FloatExt, Interval};
use fidget_core::var::{Var, VarMap};
use fidget_core::vm::{Choice, GenericVmFunction, VmData};
use fidget_jit::JitFunction;

pub const JN: usize = 12;
pub type JVm = GenericVmFunction<JN>;
/// lanes per call of the native float-slice evaluator
pub const SIMD: usize = <f32 as fidget_jit::SimdSize>::SIMD_SIZE;
/// lanes per call of the native grad-slice evaluator
pub const SIMD_GRAD: usize = <fidget_core::types::Grad as fidget_jit::SimdSize>::SIMD_SIZE;

/// i-th variable: X, Y, Z, then `Var::V(i)` (built through serde: `VarIndex` has a private field)
pub fn var_n(i: usize) -> Var {
    match i {
        0 => Var::X,
        1 => Var::Y,
        2 => Var::Z,
        _ => serde_json::from_str::<Var>(&format!("{{\"V\":{i}}}")).expect("Var::V through serde"),
    }
}

pub fn varmap(n: usize) -> VarMap {
    let mut m = VarMap::new();
    for i in 0..n {
        m.insert(var_n(i));
    }
    m
}

/// (VM function, JIT function) sharing one `VmData<JN>` built from an evaluation-order op list
pub fn pair_from_ops(mut ev: Vec<RegOp>, slot_count: u32, n_vars: usize, choice_count: usize, output_count: usize) -> (JVm, JitFunction) {
    ev.reverse();
    let asm = RegTape::verif_from_ops(ev, slot_count);
    let ssa = SsaTape { tape: vec![], choice_count, output_count };
    let data = VmData::<JN>::verif_from_parts(ssa, asm, varmap(n_vars));
    let vm = JVm::from(data);
    let jit = JitFunction::from(vm.clone());
    (vm, jit)
}

/// (VM function, JIT function) for a well-formed SSA tape, register-allocated with the JIT's budget
pub fn pair_from_ssa(ssa: &SsaTape, n_in: usize) -> (JVm, JitFunction) {
    let rt = RegTape::new::<JN>(ssa);
    let data = VmData::<JN>::verif_from_parts(ssa.clone(), rt, varmap(n_in));
    let vm = JVm::from(data);
    let jit = JitFunction::from(vm.clone());
    (vm, jit)
}

#[derive(Copy, Clone, Debug)]
pub enum Place {
    /// operands and result directly in registers (out, a, b)
    Direct(u8, u8, u8),
    /// operands come from memory slots via Load, result goes through Store/Load (out, a, b); none of them is 5
    Spilled(u8, u8, u8),
}

/// register placements valid for the JIT budget (registers 0..JN, memory from JN)
pub fn jit_placements(thorough: bool) -> Vec<Place> {
    let top = (JN - 1) as u8;
    let mut v = vec![
        Place::Direct(0, 1, 2),
        Place::Direct(0, 0, 1),
        Place::Direct(1, 0, 1),
        Place::Direct(0, 1, 0),
        Place::Direct(0, 0, 0),
        Place::Direct(top, top - 1, top - 2),
        Place::Spilled(3, 1, 2),
        Place::Spilled(0, 0, 1),
    ];
    if thorough {
        v.extend([Place::Direct(2, top, 0), Place::Direct(7, 7, 9), Place::Spilled(top, top - 1, top), Place::Spilled(1, 1, 1)]);
    }
    v
}

/// one-op tape in evaluation order: returns (ops, slot_count, two_inputs).  Outputs: 0 = result,
/// 1 = register `a` after the op, 2 = register `b` (or `a`) after the op.
pub fn one_op_ops(case: &OpCase, place: Place, imm: f32, n_out: usize) -> (Vec<RegOp>, u32, bool) {
    let two = case.kind == Kind::RegReg;
    let mut ev: Vec<RegOp> = vec![];
    let slot_count;
    let two_inputs;
    let m0 = JN as u32;
    match place {
        Place::Direct(o, a, b) => {
            two_inputs = two && a != b;
            ev.push(RegOp::Input(a, 0));
            if two_inputs {
                ev.push(RegOp::Input(b, 1));
            }
            ev.push((case.mk_reg)(o, a, if two { b } else { 0 }, imm));
            ev.push(RegOp::Output(o, 0));
            if n_out > 1 {
                ev.push(RegOp::Output(a, 1));
            }
            if n_out > 2 {
                ev.push(RegOp::Output(if two_inputs { b } else { a }, 2));
            }
            slot_count = JN as u32;
        }
        Place::Spilled(o, a, b) => {
            two_inputs = two && a != b;
            ev.push(RegOp::Input(0, 0));
            ev.push(RegOp::Store(0, m0));
            if two_inputs {
                ev.push(RegOp::Input(0, 1));
                ev.push(RegOp::Store(0, m0 + 1));
            }
            ev.push(RegOp::Load(a, m0));
            if two_inputs {
                ev.push(RegOp::Load(b, m0 + 1));
            }
            ev.push((case.mk_reg)(o, a, if two { b } else { 0 }, imm));
            ev.push(RegOp::Store(o, m0 + 2));
            ev.push(RegOp::Load(5, m0 + 2));
            ev.push(RegOp::Output(5, 0));
            if n_out > 1 {
                ev.push(RegOp::Output(a, 1));
            }
            if n_out > 2 {
                ev.push(RegOp::Output(if two_inputs { b } else { a }, 2));
            }
            slot_count = m0 + 3;
        }
    }
    (ev, slot_count, two_inputs)
}

pub fn one_op_pair(case: &OpCase, place: Place, imm: f32, n_out: usize) -> (JVm, JitFunction, bool) {
    let (ev, sc, two_inputs) = one_op_ops(case, place, imm, n_out);
    let (vm, jit) = pair_from_ops(ev, sc, if two_inputs { 2 } else { 1 }, if case.choice { 1 } else { 0 }, n_out);
    (vm, jit, two_inputs)
}

/// the (lhs, rhs)-in-table-order operands of the op under test
pub fn operands(case: &OpCase, two_inputs: bool, x: f32, y: f32, imm: f32) -> (f32, f32) {
    match case.kind {
        Kind::Reg => (x, 0.0),
        Kind::RegImm | Kind::ImmReg => (x, imm),
        Kind::RegReg => (x, if two_inputs { y } else { x }),
    }
}

pub fn imms_for(case: &OpCase, g: &[f32]) -> Vec<f32> {
    if matches!(case.kind, Kind::RegImm | Kind::ImmReg) { g.to_vec() } else { vec![0.0] }
}

pub fn is_minmax(case: &OpCase) -> bool {
    matches!(case.reference, Ref::Bin(B::Min) | Ref::Bin(B::Max))
}

/// C02's equality: bit-identical; NaN matches NaN; and where `zero_ok` (a Min/Max whose operands are
/// both zeros) the sign of a zero result may differ
pub fn c02_eq(jit: f32, vm: f32, zero_ok: bool) -> bool {
    bits_eq(jit, vm) || (zero_ok && jit == 0.0 && vm == 0.0)
}

/// all ordered pairs of the grid, flattened into two parallel lane vectors
pub fn pair_lanes(g: &[f32]) -> (Vec<f32>, Vec<f32>) {
    let mut px = vec![];
    let mut py = vec![];
    for &x in g {
        for &y in g {
            px.push(x);
            py.push(y);
        }
    }
    (px, py)
}

/// Facts about the reference run of an SSA tape at one input, used to state the domains of the
/// value-comparison contracts precisely.
#[derive(Copy, Clone, Debug, Default)]
pub struct Scan {
    /// a Min/Max clause sees two zeros of opposite sign (C02 allows either zero as the result)
    pub minmax_zero_tie: bool,
    /// a Rand/Mix op (which consumes raw bits) sees a NaN operand (NaN payload/sign is not part of any property's equality)
    pub nan_into_bits: bool,
    /// a Rand/Mix op sees a zero operand (the sign of zero changes its result)
    pub zero_into_bits: bool,
    /// an atan2 sees two zero arguments (excluded by C03's statement)
    pub atan2_zero_zero: bool,
    /// some slot (input, intermediate, result) is NaN
    pub has_nan: bool,
}

pub fn scan(tape: &[SsaOp], inp: &[f32]) -> Scan {
    let mut sc = Scan::default();
    let mut env = vec![0.0f32; tape.len() + 1];
    let get = |env: &[f32], a: Arg| match a {
        Arg::Slot(s) => env[s as usize],
        Arg::Imm(c) => c,
    };
    for &op in tape.iter().rev() {
        let (o, v) = match ssa_decode(op) {
            Dec::Output(..) => continue,
            Dec::Input(o, i) => (o, inp[i as usize]),
            Dec::Copy(o, a) => (o, get(&env, a)),
            Dec::Un(o, u, a) => {
                let v = env[a as usize];
                if u == U::Rand {
                    sc.nan_into_bits |= v.is_nan();
                    sc.zero_into_bits |= v == 0.0;
                }
                (o, u.eval(v))
            }
            Dec::Bin(o, b, l, r) => {
                let (l, r) = (get(&env, l), get(&env, r));
                match b {
                    B::Min | B::Max => sc.minmax_zero_tie |= l == 0.0 && r == 0.0 && l.to_bits() != r.to_bits(),
                    B::Mix => {
                        sc.nan_into_bits |= l.is_nan() || r.is_nan();
                        sc.zero_into_bits |= l == 0.0 || r == 0.0;
                    }
                    B::Atan => sc.atan2_zero_zero |= l == 0.0 && r == 0.0,
                    _ => {}
                }
                (o, b.eval(l, r))
            }
            Dec::Load(..) | Dec::Store(..) => unreachable!(),
        };
        sc.has_nan |= v.is_nan();
        env[o as usize] = v;
    }
    sc
}

/// JIT/VM bit-equality is meaningless for the *whole tape* at this input: (a) a Min/Max clause sees two
/// zeros of opposite sign (the property allows either zero, and a later op such as 1/x amplifies the
/// sign), or (b) a Rand/Mix op sees a NaN operand.
pub fn bit_ambiguous(tape: &[SsaOp], inp: &[f32]) -> bool {
    let sc = scan(tape, inp);
    sc.minmax_zero_tie || sc.nan_into_bits
}

/// One choice clause seen by the reference machine
#[derive(Clone, Debug)]
pub struct Clause<T> {
    pub op: B,
    pub lhs: T,
    pub rhs: T,
    pub choice: Choice,
}

/// Reference run of an SSA tape on f32: outputs and, in evaluation order, every choice clause with its
/// operand values and the choice `f32::*_choice` assigns to them.
pub fn ref_clauses_f32(tape: &[SsaOp], n_out: usize, inp: &[f32]) -> (Vec<f32>, Vec<Clause<f32>>) {
    let mut env = vec![f32::from_bits(0x7fc0_dead); tape.len() + 1];
    let mut outs = vec![f32::from_bits(0x7fc0_beef); n_out];
    let mut clauses = vec![];
    let get = |env: &[f32], a: Arg| match a {
        Arg::Slot(s) => env[s as usize],
        Arg::Imm(c) => c,
    };
    for &op in tape.iter().rev() {
        match ssa_decode(op) {
            Dec::Output(r, i) => outs[i as usize] = env[r as usize],
            Dec::Input(o, i) => env[o as usize] = inp[i as usize],
            Dec::Copy(o, a) => env[o as usize] = get(&env, a),
            Dec::Un(o, u, a) => env[o as usize] = u.eval(env[a as usize]),
            Dec::Bin(o, b, l, r) => {
                let (l, r) = (get(&env, l), get(&env, r));
                let c = match b {
                    B::Min => Some(l.min_choice(r).1),
                    B::Max => Some(l.max_choice(r).1),
                    B::And => Some(l.and_choice(r).1),
                    B::Or => Some(l.or_choice(r).1),
                    _ => None,
                };
                if let Some(choice) = c {
                    clauses.push(Clause { op: b, lhs: l, rhs: r, choice });
                }
                env[o as usize] = b.eval(l, r);
            }
            Dec::Load(..) | Dec::Store(..) => unreachable!(),
        }
    }
    (outs, clauses)
}

/// Reference run of a *choice-only* SSA tape (Input, CopyImm, CopyReg, Output, Min/Max/And/Or) on
/// intervals; any other op is an error (the trace contracts only build such tapes).
pub fn ref_clauses_interval(tape: &[SsaOp], n_out: usize, inp: &[Interval]) -> Result<(Vec<Interval>, Vec<Clause<Interval>>), String> {
    let nan = Interval::from(f32::NAN);
    let mut env = vec![nan; tape.len() + 1];
    let mut outs = vec![nan; n_out];
    let mut clauses = vec![];
    let get = |env: &[Interval], a: Arg| match a {
        Arg::Slot(s) => env[s as usize],
        Arg::Imm(c) => Interval::from(c),
    };
    for &op in tape.iter().rev() {
        match ssa_decode(op) {
            Dec::Output(r, i) => outs[i as usize] = env[r as usize],
            Dec::Input(o, i) => env[o as usize] = inp[i as usize],
            Dec::Copy(o, a) => env[o as usize] = get(&env, a),
            Dec::Bin(o, b, l, r) => {
                let (l, r) = (get(&env, l), get(&env, r));
                let (v, choice) = match b {
                    B::Min => l.min_choice(r),
                    B::Max => l.max_choice(r),
                    B::And => l.and_choice(r),
                    B::Or => l.or_choice(r),
                    _ => return Err(format!("non-choice op {op:?} in a choice-only tape")),
                };
                clauses.push(Clause { op: b, lhs: l, rhs: r, choice });
                env[o as usize] = v;
            }
            Dec::Un(..) => return Err(format!("non-choice op {op:?} in a choice-only tape")),
            Dec::Load(..) | Dec::Store(..) => unreachable!(),
        }
    }
    Ok((outs, clauses))
}

/// same small-value lists as `c_interp::interp_interval` (private there)
pub fn interval_values(thorough: bool) -> Vec<f32> {
    if thorough {
        vec![0.0, -0.0, 1.0, -1.0, 0.5, -2.5, 3.0, std::f32::consts::PI, -std::f32::consts::PI, 1.0e20, -1.0e20, f32::INFINITY, f32::NEG_INFINITY, 1.0e-40, f32::MAX, f32::MIN]
    } else {
        vec![0.0, -0.0, 1.0, -1.0, 0.5, -2.5, 3.0, std::f32::consts::PI, 1.0e20, f32::INFINITY, f32::NEG_INFINITY, f32::MAX]
    }
}

/// the NaN interval plus every [lo, hi] with lo <= hi over the given values (same construction as
/// `c_interp::interval_grid`)
pub fn interval_grid(vals: &[f32]) -> Vec<Interval> {
    let mut out = vec![Interval::from(f32::NAN)];
    let mut fin: Vec<f32> = vals.iter().cloned().filter(|v| !v.is_nan()).collect();
    fin.sort_by(|a, b| a.partial_cmp(b).unwrap());
    for i in 0..fin.len() {
        for j in i..fin.len() {
            if fin[i] <= fin[j] {
                out.push(Interval::new(fin[i], fin[j]));
            }
        }
    }
    out
}

pub fn iv_bits(i: Interval) -> [u32; 2] {
    [i.lower().to_bits(), i.upper().to_bits()]
}

pub fn iv_from_bits(v: &serde_json::Value) -> Interval {
    let lo = f32::from_bits(v[0].as_u64().unwrap_or(0) as u32);
    let hi = f32::from_bits(v[1].as_u64().unwrap_or(0) as u32);
    if lo.is_nan() || hi.is_nan() { Interval::from(f32::NAN) } else { Interval::new(lo, hi) }
}

/// distance in units in the last place between two finite-or-infinite floats of the same sign class
pub fn ulp_dist(a: f32, b: f32) -> u64 {
    fn key(v: f32) -> i64 {
        let b = v.to_bits() as i64;
        if b & 0x8000_0000 != 0 { -(b & 0x7fff_ffff) } else { b }
    }
    (key(a) - key(b)).unsigned_abs()
}

/// sample points of a box side: corners, midpoint, grid values strictly inside
pub fn points_of(i: Interval, vals: &[f32]) -> Vec<f32> {
    if i.has_nan() {
        return vec![];
    }
    let (lo, hi) = (i.lower(), i.upper());
    let mut p = vec![lo];
    if hi.to_bits() != lo.to_bits() {
        p.push(hi);
    }
    let mid = lo / 2.0 + hi / 2.0;
    if mid.is_finite() && mid > lo && mid < hi {
        p.push(mid);
    }
    for &v in vals {
        if v > lo && v < hi {
            p.push(v);
        }
    }
    p
}

/// merges per-thread partial reports into one (counts add up; the first 25 failures are kept)
pub fn merge(into: &mut Report, part: Report) {
    into.cases += part.cases;
    into.distinct += part.distinct;
    for f in part.failures {
        if into.failures.len() < 25 {
            into.failures.push(f);
        }
    }
    for n in part.notes {
        into.notes.push(n);
    }
}

/// runs `f` over the items on up to 16 threads; each call gets its own partial report
pub fn par_map<T: Sync, F: Fn(&T, &mut Report) + Sync>(items: &[T], contract: &str, f: F) -> Report {
    let n_threads = std::thread::available_parallelism().map(|n| n.get()).unwrap_or(4).min(16).min(items.len().max(1));
    let next = std::sync::atomic::AtomicUsize::new(0);
    let parts: Vec<(usize, Report)> = std::thread::scope(|s| {
        let hs: Vec<_> = (0..n_threads)
            .map(|_| {
                s.spawn(|| {
                    let mut out = vec![];
                    loop {
                        let i = next.fetch_add(1, std::sync::atomic::Ordering::Relaxed);
                        if i >= items.len() {
                            break;
                        }
                        let mut r = Report::new(contract);
                        f(&items[i], &mut r);
                        out.push((i, r));
                    }
                    out
                })
            })
            .collect();
        let mut all = vec![];
        for h in hs {
            match h.join() {
                Ok(v) => all.extend(v),
                Err(_) => {
                    let mut r = Report::new(contract);
                    r.fail("worker-thread".into(), "a worker thread of the runner panicked outside catch_unwind".into(), serde_json::json!({"contract": contract}));
                    all.push((usize::MAX, r));
                }
            }
        }
        all
    });
    let mut parts = parts;
    parts.sort_by_key(|p| p.0);
    let mut total = Report::new(contract);
    for (_, p) in parts {
        merge(&mut total, p);
    }
    total
}

/// failure classes (the report keeps only the first 25 failures; the classes say how many cases of
/// each kind there were, with the first signature of each)
#[derive(Default)]
pub struct Classes(pub std::sync::Mutex<std::collections::BTreeMap<String, (u64, String)>>);
impl Classes {
    /// counts the case; returns true for the first two cases of a class (those are recorded as failures)
    pub fn hit(&self, class: String, sig: &str) -> bool {
        let mut m = self.0.lock().unwrap();
        let e = m.entry(class).or_insert((0, sig.to_string()));
        e.0 += 1;
        e.0 <= 2
    }
    /// count + record (first two of each class) in one call
    pub fn fail(&self, r: &mut Report, class: String, sig: String, what: String, replay: serde_json::Value) {
        if self.hit(class.clone(), &sig) {
            r.fail(sig, format!("[{class}] {what}"), replay);
        }
    }
    /// count + record only the first case of the class
    pub fn fail_first(&self, r: &mut Report, class: String, sig: String, what: String, replay: serde_json::Value) {
        let first = {
            let mut m = self.0.lock().unwrap();
            let e = m.entry(class.clone()).or_insert((0, sig.clone()));
            e.0 += 1;
            e.0 == 1
        };
        if first {
            r.fail(sig, format!("[{class}] {what}"), replay);
        }
    }
    pub fn notes(&self, r: &mut Report) {
        let m = self.0.lock().unwrap();
        for (k, (n, first)) in m.iter() {
            r.notes.push(format!("failure class [{k}]: {n} cases; first: {first}"));
        }
    }
}

// ------------------------------------------------------------------------------------------------
// random expressions through the public `Context` API

#[derive(Copy, Clone, Debug)]
pub struct ExprCfg {
    pub max_vars: usize,
    pub max_steps: usize,
    /// percentage of steps that are min/max/and/or
    pub choice_pct: usize,
    pub max_out: usize,
    /// bias towards mul/square/exp/div chains (intermediate overflow) instead of the uniform opcode mix
    pub overflow: bool,
}

pub struct Expr {
    pub ctx: fidget_core::Context,
    pub roots: Vec<fidget_core::context::Node>,
    pub n_vars: usize,
    /// human-readable program: one line per step
    pub text: Vec<String>,
}

const EXPR_IMMS: [f32; 10] = [0.0, -0.0, 1.0, -1.0, 0.5, 2.0, -2.5, 3.0, 1.0e20, 0.25];

/// deterministic in `rng`: a straight-line program over variables and constants with shared
/// subexpressions, 1..=max_out roots
pub fn gen_expr(rng: &mut Rng, cfg: ExprCfg) -> Expr {
    use crate::c_flatten::{apply_bin, apply_un, BINS, UNS};
    let mut ctx = fidget_core::Context::new();
    let n_vars = 1 + rng.below(cfg.max_vars);
    let mut vals = vec![];
    let mut names = vec![];
    let mut text = vec![];
    for i in 0..n_vars {
        vals.push(ctx.var(var_n(i)));
        names.push(format!("v{i}"));
    }
    let steps = 1 + rng.below(cfg.max_steps);
    let choice_bins = [B::Min, B::Max, B::And, B::Or];
    let plain_bins: Vec<B> = BINS.iter().cloned().filter(|b| !is_choice(*b)).collect();
    let ovf_bins = [B::Mul, B::Mul, B::Div, B::Add, B::Sub];
    let ovf_uns = [U::Square, U::Exp, U::Square, U::Recip, U::Neg, U::Sqrt, U::Ln, U::Abs, U::Tan];
    for s in 0..steps {
        let k = vals.len();
        let pick = |rng: &mut Rng| -> usize {
            // favour recent values so that chains get deep, but reach back as well (sharing)
            if rng.below(3) == 0 { rng.below(k) } else { k - 1 - rng.below(k.min(4)) }
        };
        let roll = rng.below(100);
        let name = format!("t{s}");
        let node;
        if roll < cfg.choice_pct {
            let b = choice_bins[rng.below(4)];
            let a = pick(rng);
            if rng.below(3) == 0 {
                let c = EXPR_IMMS[rng.below(EXPR_IMMS.len())];
                let cn = ctx.constant(c);
                node = if rng.below(4) == 0 { apply_bin(&mut ctx, b, cn, vals[a]) } else { apply_bin(&mut ctx, b, vals[a], cn) };
                text.push(format!("{name} = {b:?}({}, {c:?}) [or swapped]", names[a]));
            } else {
                let c = pick(rng);
                node = apply_bin(&mut ctx, b, vals[a], vals[c]);
                text.push(format!("{name} = {b:?}({}, {})", names[a], names[c]));
            }
        } else if rng.below(2) == 0 {
            let u = if cfg.overflow { ovf_uns[rng.below(ovf_uns.len())] } else { UNS[rng.below(UNS.len())] };
            let a = pick(rng);
            node = apply_un(&mut ctx, u, vals[a]);
            text.push(format!("{name} = {u:?}({})", names[a]));
        } else {
            let b = if cfg.overflow { ovf_bins[rng.below(ovf_bins.len())] } else { plain_bins[rng.below(plain_bins.len())] };
            let a = pick(rng);
            match rng.below(4) {
                0 => {
                    let c = EXPR_IMMS[rng.below(EXPR_IMMS.len())];
                    let cn = ctx.constant(c);
                    node = apply_bin(&mut ctx, b, vals[a], cn);
                    text.push(format!("{name} = {b:?}({}, {c:?})", names[a]));
                }
                1 => {
                    let c = EXPR_IMMS[rng.below(EXPR_IMMS.len())];
                    let cn = ctx.constant(c);
                    node = apply_bin(&mut ctx, b, cn, vals[a]);
                    text.push(format!("{name} = {b:?}({c:?}, {})", names[a]));
                }
                _ => {
                    let c = pick(rng);
                    node = apply_bin(&mut ctx, b, vals[a], vals[c]);
                    text.push(format!("{name} = {b:?}({}, {})", names[a], names[c]));
                }
            }
        }
        vals.push(node);
        names.push(name);
    }
    let n_out = 1 + rng.below(cfg.max_out);
    let mut roots = vec![*vals.last().unwrap()];
    let mut root_names = vec![names.last().unwrap().clone()];
    for _ in 1..n_out {
        let k = n_vars + rng.below(vals.len() - n_vars);
        roots.push(vals[k]);
        root_names.push(names[k].clone());
    }
    text.push(format!("outputs = {root_names:?}"));
    Expr { ctx, roots, n_vars, text }
}

/// positions of the generator's variables `var_n(k)` in a function's input vector (None if folded away)
pub fn var_positions<F: fidget_core::eval::Function>(f: &F, n_vars: usize) -> Vec<Option<usize>> {
    (0..n_vars).map(|k| f.vars().get(&var_n(k))).collect()
}

pub fn place_inputs<T: Copy>(pos: &[Option<usize>], n_inputs: usize, vals: &[T], fill: T) -> Vec<T> {
    let mut inp = vec![fill; n_inputs];
    for (k, p) in pos.iter().enumerate() {
        if let Some(p) = p {
            inp[*p] = vals[k];
        }
    }
    inp
}

// ------------------------------------------------------------------------------------------------
// wide SSA tapes: `w` values are computed first and all consumed later, so that `w` values are live
// at once (w > JN forces stack spills in the native code)

#[derive(Copy, Clone, Debug, PartialEq)]
pub enum WideOps {
    /// every opcode form of the table
    All,
    /// add/sub/neg/abs/min/max and multiplication by small immediates: exact in every evaluator on small finite inputs
    BenignInterval,
    /// add/sub/neg and multiplication by small immediates (no ties for derivatives)
    BenignGrad,
    /// benign arithmetic plus the two-argument call-outs (atan2, mod) so that they happen under full register pressure
    CallInterval,
}

pub fn gen_wide(rng: &mut Rng, n_in: usize, w: usize, n_out: usize, ops: WideOps) -> SsaTape {
    let table = op_table();
    let by_name = |n: &str| table.iter().find(|c| c.name == n).cloned().unwrap();
    let (phase1, phase2, between): (Vec<OpCase>, Vec<OpCase>, Vec<OpCase>) = match ops {
        WideOps::All => (
            table.iter().filter(|c| c.kind != Kind::RegReg).cloned().collect(),
            table.iter().filter(|c| c.kind == Kind::RegReg).cloned().collect(),
            ["SinReg", "ExpReg", "AtanReg", "CosReg", "LnReg", "SqrtReg", "TanReg", "AtanRegImm", "ModRegImm"].iter().map(|n| by_name(n)).collect(),
        ),
        WideOps::BenignInterval => (
            ["AddRegImm", "SubRegImm", "SubImmReg", "MulRegImm", "NegReg", "AbsReg", "MinRegImm", "MaxRegImm"].iter().map(|n| by_name(n)).collect(),
            ["AddRegReg", "SubRegReg", "MinRegReg", "MaxRegReg"].iter().map(|n| by_name(n)).collect(),
            ["NegReg", "AbsReg"].iter().map(|n| by_name(n)).collect(),
        ),
        WideOps::CallInterval => (
            ["AddRegImm", "SubRegImm", "SubImmReg", "MulRegImm", "NegReg", "AbsReg"].iter().map(|n| by_name(n)).collect(),
            ["AddRegReg", "SubRegReg", "AtanRegReg", "ModRegReg", "AtanRegReg", "MinRegReg", "MaxRegReg"].iter().map(|n| by_name(n)).collect(),
            ["AtanRegImm", "ModRegImm", "AtanImmReg", "NegReg"].iter().map(|n| by_name(n)).collect(),
        ),
        WideOps::BenignGrad => (
            ["AddRegImm", "SubRegImm", "SubImmReg", "MulRegImm", "NegReg"].iter().map(|n| by_name(n)).collect(),
            ["AddRegReg", "SubRegReg"].iter().map(|n| by_name(n)).collect(),
            ["NegReg"].iter().map(|n| by_name(n)).collect(),
        ),
    };
    let imms: &[f32] = if ops == WideOps::All { &GRID[1..] } else { &[0.5, 2.0, -1.0, 1.0, 0.25, 3.0, -0.5] };
    let mut ev: Vec<SsaOp> = vec![]; // evaluation order; value k is defined by ev[k]
    for i in 0..n_in {
        ev.push(SsaOp::Input(i as u32, i as u32));
    }
    // phase 1: w values, each from an input or an earlier wide value
    let mut wide: Vec<u32> = vec![];
    let mut used = vec![false; n_in];
    for j in 0..w {
        let src = if j < n_in {
            j as u32 // make sure every input is used
        } else if rng.below(2) == 0 {
            rng.below(n_in) as u32
        } else {
            wide[rng.below(wide.len())]
        };
        if (src as usize) < n_in {
            used[src as usize] = true;
        }
        let c = phase1[rng.below(phase1.len())];
        let o = ev.len() as u32;
        ev.push((c.mk_ssa)(o, src, 0, imms[rng.below(imms.len())]));
        wide.push(o);
    }
    // phase 2: fold all wide values in a random order, with out-of-line calls in between
    for i in (1..wide.len()).rev() {
        let j = rng.below(i + 1);
        wide.swap(i, j);
    }
    let mut acc = wide[0];
    for &v in &wide[1..] {
        let c = phase2[rng.below(phase2.len())];
        let o = ev.len() as u32;
        ev.push(if rng.below(2) == 0 { (c.mk_ssa)(o, acc, v, 0.0) } else { (c.mk_ssa)(o, v, acc, 0.0) });
        acc = o;
        if rng.below(4) == 0 {
            let c = between[rng.below(between.len())];
            let o = ev.len() as u32;
            ev.push((c.mk_ssa)(o, acc, 0, imms[rng.below(imms.len())]));
            acc = o;
        }
    }
    ev.push(SsaOp::Output(acc, 0));
    for k in 1..n_out {
        // extra outputs: wide values (they are defined before the fold, so they stay live to the end)
        ev.push(SsaOp::Output(wide[rng.below(wide.len())], k as u32));
    }
    ev.reverse();
    let choice_count = ev.iter().filter(|o| o.has_choice()).count();
    SsaTape { tape: ev, choice_count, output_count: n_out }
}
