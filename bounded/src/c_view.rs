//! C18, exact clauses only (bounded companion of the Kani view harnesses): frame conditions and the
//! `changed` flag of View2/View3 and of Canvas2/Canvas3 event sequences on a special-value grid.
//!   - zoom without a cursor position leaves centre (and yaw, pitch) bit-identical
//!   - rotate leaves centre and scale bit-identical, pitch in [0, pi] (or NaN)
//!   - translate leaves scale, yaw, pitch bit-identical
//!   - whenever the view is bit-identical before and after an operation, the reported flag is false
use crate::common::*;
use fidget_core::render::{ImageSize, VoxelSize};
use fidget_gui::{Canvas2, Canvas3, CursorState, DragMode, View2, View3};
use nalgebra::{Point2, Point3, Vector2, Vector3};
use serde_json::json;

fn b2(v: &View2) -> [u32; 3] {
    let (c, s) = v.components();
    [c.x.to_bits(), c.y.to_bits(), s.to_bits()]
}
fn b3(v: &View3) -> [u32; 6] {
    let (c, s, y, p) = v.components();
    [c.x.to_bits(), c.y.to_bits(), c.z.to_bits(), s.to_bits(), y.to_bits(), p.to_bits()]
}
fn pitch_ok(p: f32) -> bool {
    p.is_nan() || (p >= 0.0 && p <= std::f32::consts::PI)
}

pub fn view(thorough: bool) -> Report {
    let mut r = Report::new("view");
    let scales: Vec<f32> = vec![1.0, 0.5, 3.0, 0.0, -0.0, f32::INFINITY, f32::NEG_INFINITY, f32::NAN, 1.0e-40, 3.0e38, -2.0];
    let comps: Vec<f32> = if thorough { vec![0.0, -0.0, 1.5, -2.5, f32::INFINITY, f32::NAN, 1.0e30, 1.0e-40] } else { vec![0.0, -0.0, 1.5, f32::INFINITY, f32::NAN] };
    let amounts: Vec<f32> = vec![1.0, 0.99999994, 1.0000001, 2.0, 0.5, 0.0, -1.0, f32::INFINITY, f32::NAN, 1.0e-30, 1.0e30];
    let angles: Vec<f32> = vec![0.0, -0.0, 0.36, 1.0, 3.0, std::f32::consts::PI, std::f32::consts::FRAC_PI_2, -1.0, 7.0, f32::INFINITY, f32::NAN];
    let pts: Vec<f32> = vec![0.0, 0.25, -0.75, 1.0, -1.0, 100.0, f32::INFINITY, f32::NAN];

    // ---- View2 / View3: zoom
    for &s in &scales { for &cx in &comps { for &cy in &comps { for &am in &amounts {
        let mut poss: Vec<Option<Point2<f32>>> = vec![None];
        for &px in &pts[..4] { poss.push(Some(Point2::new(px, -px))); }
        for pos in poss {
            r.cases += 1;
            let mut v = View2::from_center_and_scale(Vector2::new(cx, cy), s);
            let before = b2(&v);
            let changed = v.zoom(am, pos);
            let after = b2(&v);
            let sig = format!("View2::zoom scale={} centre=({},{}) amount={} pos={:?}", fmt_f(s), fmt_f(cx), fmt_f(cy), fmt_f(am), pos);
            if pos.is_none() && (after[0] != before[0] || after[1] != before[1]) {
                r.fail(sig.clone(), "[frame:view2-zoom-no-cursor] zoom without a cursor position changed the centre".into(), json!({"contract":"view"}));
            }
            if after == before && changed {
                r.fail(sig.clone(), "[flag:view2-zoom] changed == true although the view is bit-identical".into(), json!({"contract":"view"}));
            }
            if let Some(pw) = pos {
                let tame = s.is_finite() && s.abs() >= 0.5 && s.abs() <= 3.0 && cx.is_finite() && cy.is_finite() && cx.abs() <= 3.0 && cy.abs() <= 3.0 && am.is_finite() && am >= 0.5 && am <= 2.0;
                if tame {
                    let v0 = View2::from_center_and_scale(Vector2::new(cx, cy), s);
                    let (m0, m1) = (v0.world_to_model().transform_point(&pw), v.world_to_model().transform_point(&pw));
                    if (m1 - m0).norm() > 1.0e-4 * (1.0 + m0.coords.norm()) {
                        r.fail(sig, format!("[zoom:view2] the model point under the zoom position moved from ({}, {}) to ({}, {})", m0.x, m0.y, m1.x, m1.y), json!({"contract":"view"}));
                    }
                }
            }
        }
    }}}}
    for &s in &scales { for &cx in &comps { for &cz in &comps { for &am in &amounts { for &yaw in &angles[..5] {
        let mut poss: Vec<Option<Point3<f32>>> = vec![None];
        for &px in &pts[..3] { poss.push(Some(Point3::new(px, -px, 0.5))); }
        for pos in poss {
            r.cases += 1;
            let mut v = View3::from_components(Vector3::new(cx, 0.25, cz), s, yaw, 0.36);
            let before = b3(&v);
            let changed = v.zoom(am, pos);
            let after = b3(&v);
            let sig = format!("View3::zoom scale={} centre=({},0.25,{}) yaw={} amount={} pos={:?}", fmt_f(s), fmt_f(cx), fmt_f(cz), fmt_f(yaw), fmt_f(am), pos);
            if pos.is_none() && (after[0..3] != before[0..3] || after[4..6] != before[4..6]) {
                r.fail(sig.clone(), "[frame:view3-zoom-no-cursor] zoom without a cursor position changed centre, yaw or pitch".into(), json!({"contract":"view"}));
            }
            if after[4..6] != before[4..6] {
                r.fail(sig.clone(), "[frame:view3-zoom] zoom changed yaw or pitch".into(), json!({"contract":"view"}));
            }
            if after == before && changed {
                r.fail(sig.clone(), "[flag:view3-zoom] changed == true although the view is bit-identical".into(), json!({"contract":"view"}));
            }
            // the zoom clause (approximate): the model point under the zoom position stays where it was (moderate, finite values only)
            if let Some(pw) = pos {
                let tame = s.is_finite() && s.abs() >= 0.5 && s.abs() <= 3.0 && cx.is_finite() && cz.is_finite() && cx.abs() <= 3.0 && cz.abs() <= 3.0 && am.is_finite() && am >= 0.5 && am <= 2.0 && yaw.is_finite();
                if tame {
                    let v0 = View3::from_components(Vector3::new(cx, 0.25, cz), s, yaw, 0.36);
                    let (m0, m1) = (v0.world_to_model().transform_point(&pw), v.world_to_model().transform_point(&pw));
                    if (m1 - m0).norm() > 1.0e-4 * (1.0 + m0.coords.norm()) {
                        r.fail(sig, format!("[zoom:view3] the model point under the zoom position moved from ({}, {}, {}) to ({}, {}, {})", m0.x, m0.y, m0.z, m1.x, m1.y, m1.z), json!({"contract":"view"}));
                    }
                }
            }
        }
    }}}}}
    // ---- View3 rotate / translate, View2 translate
    for &s in &scales[..6] { for &yaw in &angles { for &pitch in &angles { for &sx in &pts { for &ex in &pts {
        r.cases += 1;
        let mut v = View3::from_components(Vector3::new(0.5, -0.0, 2.0), s, yaw, pitch);
        let before = b3(&v);
        let h = v.begin_rotate(Point3::new(sx, -sx, 0.0));
        let changed = v.rotate(&h, Point3::new(ex, 0.3 + ex, 0.0));
        let after = b3(&v);
        let sig = format!("View3::rotate scale={} yaw={} pitch={} start={} end={}", fmt_f(s), fmt_f(yaw), fmt_f(pitch), fmt_f(sx), fmt_f(ex));
        if after[0..4] != before[0..4] {
            r.fail(sig.clone(), "[frame:view3-rotate] rotate changed centre or scale".into(), json!({"contract":"view"}));
        }
        if !pitch_ok(f32::from_bits(after[5])) {
            r.fail(sig.clone(), format!("[range:view3-pitch] pitch {} outside [0, pi]", fmt_f(f32::from_bits(after[5]))), json!({"contract":"view"}));
        }
        let yaw_after = f32::from_bits(after[4]);
        if yaw_after.is_finite() && !(yaw_after.abs() < std::f32::consts::TAU) {
            r.fail(sig.clone(), format!("[range:view3-yaw] yaw {} outside one turn after a rotate", fmt_f(yaw_after)), json!({"contract":"view"}));
        }
        if after == before && changed {
            r.fail(sig, "[flag:view3-rotate] changed == true although the view is bit-identical".into(), json!({"contract":"view"}));
        }
        // translate
        r.cases += 1;
        let mut v = View3::from_components(Vector3::new(0.5, -0.0, 2.0), s, yaw, pitch);
        let before = b3(&v);
        let h = v.begin_translate(Point3::new(sx, -sx, 0.0));
        let changed = v.translate(&h, Point3::new(ex, 0.3 + ex, 0.0));
        let after = b3(&v);
        let sig = format!("View3::translate scale={} yaw={} pitch={} start={} end={}", fmt_f(s), fmt_f(yaw), fmt_f(pitch), fmt_f(sx), fmt_f(ex));
        if after[3..6] != before[3..6] {
            r.fail(sig.clone(), "[frame:view3-translate] translate changed scale, yaw or pitch".into(), json!({"contract":"view"}));
        }
        if after == before && changed {
            r.fail(sig, "[flag:view3-translate] changed == true although the view is bit-identical".into(), json!({"contract":"view"}));
        }
    }}}}}
    for &s in &scales { for &cx in &comps { for &sx in &pts { for &ex in &pts {
        r.cases += 1;
        let mut v = View2::from_center_and_scale(Vector2::new(cx, 0.5), s);
        let before = b2(&v);
        let h = v.begin_translate(Point2::new(sx, -sx));
        let changed = v.translate(&h, Point2::new(ex, 0.3 + ex));
        let after = b2(&v);
        let sig = format!("View2::translate scale={} cx={} start={} end={}", fmt_f(s), fmt_f(cx), fmt_f(sx), fmt_f(ex));
        if after[2] != before[2] {
            r.fail(sig.clone(), "[frame:view2-translate] translate changed the scale".into(), json!({"contract":"view"}));
        }
        if after == before && changed {
            r.fail(sig, "[flag:view2-translate] changed == true although the view is bit-identical".into(), json!({"contract":"view"}));
        }
    }}}}
    // ---- Canvas2 / Canvas3 event sequences (length 1..=3)
    let sizes2 = [ImageSize::new(300, 300), ImageSize::new(256, 100)];
    let scrolls: [f32; 7] = [0.0, 1.0e-6, -3.0, 50.0, 20000.0, -20000.0, f32::NAN];
    let spos = [Point2::new(150, 150), Point2::new(0, 0), Point2::new(295, 5), Point2::new(-40, 700)];
    #[derive(Copy, Clone, Debug)]
    enum Ev { Interact(usize, Option<(usize, u8)>, usize), Zoom(usize, Option<usize>), Begin(usize, u8), Drag(usize), End, Resize(usize) }
    let mut evs: Vec<Ev> = vec![Ev::End];
    for sz in 0..2 { evs.push(Ev::Resize(sz)); }
    for sc in 0..scrolls.len() { evs.push(Ev::Zoom(sc, None)); evs.push(Ev::Zoom(sc, Some(2))); }
    for p in 0..spos.len() { evs.push(Ev::Begin(p, 0)); evs.push(Ev::Begin(p, 1)); evs.push(Ev::Drag(p)); }
    for sz in 0..2 { for sc in [0usize, 1, 3, 4] { evs.push(Ev::Interact(sz, None, sc)); for p in [0usize, 2] { for d in 0..3u8 { evs.push(Ev::Interact(sz, Some((p, d)), sc)); } } } }
    let n = evs.len();
    let depth = if thorough { 3 } else { 2 };
    let mut seqs: Vec<Vec<usize>> = (0..n).map(|i| vec![i]).collect();
    for _ in 1..depth {
        let mut nx = vec![];
        for s in &seqs { if s.len() == seqs.last().map(|l| l.len()).unwrap_or(1) { for e in 0..n { let mut t = s.clone(); t.push(e); nx.push(t); } } }
        seqs.extend(nx);
    }
    let sig_of = |seq: &Vec<usize>, evs: &Vec<Ev>, step: usize| format!("canvas sequence {:?} step {step}", seq.iter().map(|&i| evs[i]).collect::<Vec<_>>());
    for seq in &seqs {
        r.cases += 1;
        let mut c2 = Canvas2::new(sizes2[0]);
        let mut c3 = Canvas3::new(VoxelSize::new(300, 300, 300));
        let mut mode3: Option<u8> = None;   // 0 none, 1 pan, 2 rotate (mode of the drag in progress)
        // the pan clause: the model point grabbed when the drag started stays under the cursor (checked while every scroll of the sequence
        // is moderate and every cursor position known; sizes are fixed during a drag)
        let mut grab2: Option<nalgebra::Point2<f32>> = None;
        let mut grab3: Option<nalgebra::Point3<f32>> = None;
        let mut size2 = sizes2[0];
        let size3 = VoxelSize::new(300, 300, 300);
        let mut tame = true;
        for (step, &ei) in seq.iter().enumerate() {
            let ev = evs[ei];
            let before2 = b2(&c2.view());
            let before3 = b3(&c3.view());
            let (mut ch2, mut ch3): (Option<bool>, Option<bool>) = (None, None);
            let mut rotating = false;
            let mut panning = false;
            match ev {
                Ev::End => { c2.end_drag(); c3.end_drag(); mode3 = None; }
                Ev::Resize(sz) => { c2.resize(sizes2[sz]); }
                Ev::Zoom(sc, p) => { ch2 = Some(c2.zoom(scrolls[sc], p.map(|i| spos[i]))); ch3 = Some(c3.zoom(scrolls[sc], p.map(|i| spos[i]))); }
                Ev::Begin(p, m) => {
                    c2.begin_drag(spos[p]);
                    if mode3.is_none() { mode3 = Some(if m == 0 { 1 } else { 2 }); }
                    c3.begin_drag(spos[p], if m == 0 { DragMode::Pan } else { DragMode::Rotate });
                }
                Ev::Drag(p) => { ch2 = Some(c2.drag(spos[p])); ch3 = Some(c3.drag(spos[p])); rotating = mode3 == Some(2); panning = mode3 == Some(1); }
                Ev::Interact(sz, cs, sc) => {
                    let st2 = cs.map(|(p, d)| CursorState { screen_pos: spos[p], drag: d != 0 });
                    ch2 = Some(c2.interact(sizes2[sz], st2, scrolls[sc]));
                    let st3 = cs.map(|(p, d)| CursorState { screen_pos: spos[p], drag: match d { 0 => None, 1 => Some(DragMode::Pan), _ => Some(DragMode::Rotate) } });
                    ch3 = Some(c3.interact(VoxelSize::new(300, 300, 300), st3, scrolls[sc]));
                    match cs { Some((_, d)) if d != 0 => { if mode3.is_none() { mode3 = Some(d); } } _ => { mode3 = None; } }
                }
            }
            // ---- pan clause bookkeeping
            let cursor: Option<Point2<i32>> = match ev {
                Ev::End => { grab2 = None; grab3 = None; None }
                Ev::Resize(sz) => { size2 = sizes2[sz]; None }   // the handle works in world space: after a resize the next drag step must put the grabbed point under the cursor again
                Ev::Zoom(sc, p) => { if !(scrolls[sc].abs() <= 50.0) { tame = false; } if p.is_none() { grab2 = None; grab3 = None; } p.map(|i| spos[i]) }
                Ev::Begin(p, _) | Ev::Drag(p) => Some(spos[p]),
                Ev::Interact(sz, cs, sc) => {
                    if !(scrolls[sc].abs() <= 50.0) { tame = false; }
                    size2 = sizes2[sz];
                    match cs { Some((p, d)) if d != 0 => Some(spos[p]), _ => { grab2 = None; grab3 = None; None } }
                }
            };
            if let Some(cp) = cursor {
                let dragging2 = matches!(ev, Ev::Begin(..) | Ev::Drag(..) | Ev::Interact(..) | Ev::Zoom(..));
                let m2 = c2.view().world_to_model().transform_point(&size2.transform_point(cp));
                let m3 = c3.view().world_to_model().transform_point(&size3.transform_point(nalgebra::Point3::new(cp.x, cp.y, 0)));
                // only a drag step puts the grabbed point under the cursor (begin_drag is idempotent and does not move the view; a zoom is about its own position)
                let moved = matches!(ev, Ev::Drag(..)) || matches!(ev, Ev::Interact(_, Some((_, d)), _) if d != 0);
                let started = matches!(ev, Ev::Begin(..)) || matches!(ev, Ev::Interact(_, Some((_, d)), _) if d != 0);
                if tame && dragging2 {
                    match grab2 {
                        None => { if started { grab2 = Some(m2); } }
                        Some(g) => {
                            // a zoom event at another position than the drag is a different cursor: only drag / interact / zoom-at-the-cursor steps are compared
                            let tol = 2.0e-3 * (1.0 + g.coords.norm() + m2.coords.norm());
                            if (m2 - g).norm() > tol && m2.coords.iter().all(|c| c.is_finite()) && moved {
                                r.fail(sig_of(seq, &evs, step), format!("[pan:canvas2] the model point grabbed at the start of the drag was ({}, {}); after this step the point under the cursor is ({}, {})", g.x, g.y, m2.x, m2.y), json!({"contract":"view"}));
                            }
                        }
                    }
                    if mode3 == Some(1) {
                        match grab3 {
                            None => { if started { grab3 = Some(m3); } }
                            Some(g) => {
                                let tol = 2.0e-3 * (1.0 + g.coords.norm() + m3.coords.norm());
                                if (m3 - g).norm() > tol && m3.coords.iter().all(|c| c.is_finite()) && moved {
                                    r.fail(sig_of(seq, &evs, step), format!("[pan:canvas3] the model point grabbed at the start of the pan was ({}, {}, {}); after this step the point under the cursor is ({}, {}, {})", g.x, g.y, g.z, m3.x, m3.y, m3.z), json!({"contract":"view"}));
                                }
                            }
                        }
                    }
                }
            }
            let after2 = b2(&c2.view());
            let after3 = b3(&c3.view());
            let sig = format!("canvas sequence {:?} step {step}", seq.iter().map(|&i| evs[i]).collect::<Vec<_>>());
            if ch2 == Some(true) && after2 == before2 {
                r.fail(sig.clone(), "[flag:canvas2] changed == true although the 2D view is bit-identical".into(), json!({"contract":"view"}));
            }
            if ch3 == Some(true) && after3 == before3 {
                r.fail(sig.clone(), "[flag:canvas3] changed == true although the 3D view is bit-identical".into(), json!({"contract":"view"}));
            }
            let yaw_now = f32::from_bits(after3[4]);
            if yaw_now.is_finite() && !(yaw_now.abs() < std::f32::consts::TAU) {
                r.fail(sig.clone(), format!("[range:canvas3-yaw] yaw {} outside one turn", fmt_f(yaw_now)), json!({"contract":"view"}));
            }
            if !pitch_ok(f32::from_bits(after3[5])) {
                r.fail(sig.clone(), format!("[range:canvas3-pitch] pitch {} outside [0, pi]", fmt_f(f32::from_bits(after3[5]))), json!({"contract":"view"}));
            }
            if rotating && after3[0..4] != before3[0..4] {
                r.fail(sig.clone(), "[frame:canvas3-rotate] a rotate drag changed centre or scale".into(), json!({"contract":"view"}));
            }
            if panning && after3[3..6] != before3[3..6] {
                r.fail(sig.clone(), "[frame:canvas3-pan] a pan drag changed scale, yaw or pitch".into(), json!({"contract":"view"}));
            }
            if matches!(ev, Ev::Zoom(_, None)) && (after3[0..3] != before3[0..3] || after2[0..2] != before2[0..2]) {
                r.fail(sig.clone(), "[frame:canvas-zoom-no-cursor] a zoom without cursor position changed the centre".into(), json!({"contract":"view"}));
            }
        }
    }
    r.space = format!(
        "View2/View3 zoom, rotate, translate on the cross product of scales {:?}, centre components {:?}, zoom amounts {:?}, angles {:?}, cursor coordinates {:?} (with and without cursor position); plus all Canvas2/Canvas3 event sequences of length <= {depth} over an alphabet of {n} events (end_drag, resize to 2 sizes, zoom with 7 scroll amounts incl. 1e-6, +-20000, NaN with/without cursor, begin_drag pan/rotate and drag at 4 screen positions, interact in 28 configurations), each step checked for the frame conditions and the changed flag; complete enumeration of that space",
        scales, comps, amounts, angles, pts);
    r.distinct = r.cases;
    r.exhaustive = true;
    r.sample(json!({"event sequence": "[Interact(size0, cursor (150,150) dragging rotate, scroll 0), Zoom(20000, None), Drag((295,5))]"}));
    r
}
