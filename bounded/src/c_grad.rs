//! C05 (bounded): the VM gradient evaluator, per RegOp variant, returns (a) a value lane equal to the point
//! operation on the value lanes and (b) derivative lanes equal to the textbook rule (sum, product, quotient,
//! chain with the outer derivative written here in f64, selected operand for min/max/and/or, zero for
//! floor/ceil/round/compare/not/rand/mix), for arbitrary (non-unit) input seeds, at differentiable points.
use crate::c_interp::{build, placements, Place};
use crate::common::*;
use fidget_core::context::{BinaryOpcode as B, UnaryOpcode as U};
use fidget_core::eval::{BulkEvaluator, Function};
use fidget_core::types::Grad;
use fidget_core::vm::VmFunction;
use serde_json::json;

/// partial derivatives (d/da, d/db) of the reference meaning, in f64, or None where the rule is undefined
fn partials(r: Ref, kind: Kind, a: f64, b: f64) -> Option<(f64, f64)> {
    Some(match r {
        Ref::Id => (1.0, 0.0),
        Ref::Un(u) => (match u {
            U::Neg => -1.0,
            U::Abs => { if a == 0.0 { return None; } a.signum() }
            U::Recip => -1.0 / (a * a),
            U::Sqrt => { if a <= 0.0 { return None; } 0.5 / a.sqrt() }
            U::Square => 2.0 * a,
            U::Floor | U::Ceil | U::Round => { if a.fract() == 0.0 || (a.fract().abs() - 0.5).abs() < 1e-9 { return None; } 0.0 }
            U::Sin => a.cos(),
            U::Cos => -a.sin(),
            U::Tan => 1.0 / (a.cos() * a.cos()),
            U::Asin => { if a.abs() >= 1.0 { return None; } 1.0 / (1.0 - a * a).sqrt() }
            U::Acos => { if a.abs() >= 1.0 { return None; } -1.0 / (1.0 - a * a).sqrt() }
            U::Atan => 1.0 / (1.0 + a * a),
            U::Exp => a.exp(),
            U::Ln => { if a <= 0.0 { return None; } 1.0 / a }
            U::Not | U::Rand => 0.0,
        }, 0.0),
        Ref::Bin(op) => {
            // (a, b) are the operands in the opcode's own order (lhs, rhs)
            let _ = kind;
            match op {
                B::Add => (1.0, 1.0),
                B::Sub => (1.0, -1.0),
                B::Mul => (b, a),
                B::Div => (1.0 / b, -a / (b * b)),
                B::Atan => { let d = a * a + b * b; if d == 0.0 { return None; } (b / d, -a / d) }
                B::Min => { if a == b { return None; } if a < b { (1.0, 0.0) } else { (0.0, 1.0) } }
                B::Max => { if a == b { return None; } if a > b { (1.0, 0.0) } else { (0.0, 1.0) } }
                B::Compare | B::Mix => (0.0, 0.0),
                B::Mod => { if b == 0.0 { return None; } let q = a / b; if (q - q.round()).abs() < 1e-6 { return None; } (1.0, -(a as f32).div_euclid(b as f32) as f64) }
                B::And => { if a == 0.0 { (1.0, 0.0) } else { (0.0, 1.0) } }
                B::Or => { if a != 0.0 { (1.0, 0.0) } else { (0.0, 1.0) } }
            }
        }
    })
}

fn close(got: f32, want: f64) -> bool {
    if !want.is_finite() { return true; }
    let g = got as f64;
    (g - want).abs() <= 1e-4 + 1e-3 * want.abs()
}

pub fn grad_rules(thorough: bool) -> Report {
    let mut r = Report::new("grad_rules");
    let xs: Vec<f32> = if thorough { vec![0.3, -0.7, 1.9, -2.4, 0.55, 3.3, -0.15, 7.25] } else { vec![0.3, -0.7, 1.9, -2.4, 0.55] };
    let ys: Vec<f32> = if thorough { vec![0.45, -1.3, 2.2, 0.8, -3.6, 5.5] } else { vec![0.45, -1.3, 2.2, 0.8] };
    let seeds: [([f32; 3], [f32; 3]); 3] = [([1.0, 0.0, 0.0], [0.0, 1.0, 0.0]), ([0.5, -2.0, 3.0], [1.5, 0.25, -1.0]), ([0.0, 0.0, 0.0], [0.0, 0.0, 2.0])];
    let mut eval = VmFunction::new_grad_slice_eval();
    let places = if thorough { placements(true) } else { vec![Place::Direct(0, 1, 2), Place::Direct(0, 0, 1), Place::Spilled(3, 1, 2)] };
    for case in op_table() {
        for &place in &places {
            let imms: Vec<f32> = if matches!(case.kind, Kind::RegImm | Kind::ImmReg) { ys.clone() } else { vec![0.0] };
            for &imm in &imms {
                let (data, two_inputs) = build(&case, place, imm);
                let f = VmFunction::from(data);
                let tape = f.grad_slice_tape(Default::default());
                for &x in &xs { for &y in &ys { for (sx, sy) in &seeds {
                    if !two_inputs && y != ys[0] { continue; }
                    r.cases += 1;
                    let gx = [Grad::new(x, sx[0], sx[1], sx[2])];
                    let gy = [Grad::new(y, sy[0], sy[1], sy[2])];
                    let out = match eval.eval(&tape, &[&gx[..], &gy[..]]) {
                        Ok(o) => o[0][0],
                        Err(e) => { r.fail(format!("{}:{place:?}", case.name), format!("[grad-eval-error] {e:?}"), json!({"contract":"grad_rules","op":case.name})); continue; }
                    };
                    // operands in the opcode's own order
                    let (a, b, da, db): (f32, f32, [f32; 3], [f32; 3]) = match case.kind {
                        Kind::Reg => (x, 0.0, *sx, [0.0; 3]),
                        Kind::RegImm => (x, imm, *sx, [0.0; 3]),
                        Kind::ImmReg => (imm, x, [0.0; 3], *sx),
                        Kind::RegReg => if two_inputs { (x, y, *sx, *sy) } else { (x, x, *sx, *sx) },
                    };
                    let want_v = match case.kind { Kind::ImmReg => ref_eval(case.reference, case.kind, x, imm), _ => ref_eval(case.reference, case.kind, a, b) };
                    let sig = format!("{}:{place:?}:x={x},y={y},imm={imm},seeds={sx:?}/{sy:?}", case.name);
                    let rep = json!({"contract":"grad_rules","op":case.name,"place":format!("{place:?}"),"x":x.to_bits(),"y":y.to_bits(),"imm":imm.to_bits()});
                    if !(out.v == want_v || (out.v.is_nan() && want_v.is_nan())) {
                        r.fail(sig, format!("[grad-value:{}] value lane {} != point value {}", case.name, fmt_f(out.v), fmt_f(want_v)), rep);
                        continue;
                    }
                    if !want_v.is_finite() { continue; }
                    let Some((fa, fb)) = partials(case.reference, case.kind, a as f64, b as f64) else { continue };
                    let got = [out.dx, out.dy, out.dz];
                    for l in 0..3 {
                        let want = fa * da[l] as f64 + fb * db[l] as f64;
                        if !close(got[l], want) {
                            r.fail(sig.clone(), format!("[grad-rule:{}] derivative lane {l}: {} but the rule gives {want} (partials {fa}, {fb})", case.name, got[l]), rep.clone());
                            break;
                        }
                    }
                }}}
            }
        }
    }
    r.space = format!("every RegOp variant ({}) x {} placements x operands x in {:?}, y / immediates in {:?} (non-integer, no ties, |.|<1 values included for asin/acos; points where the rule is undefined are skipped) x 3 seed configurations (unit axes, arbitrary non-unit, zero); VmGradSliceEval on one-op tapes: value lane == reference point value (numerically equal, NaN=NaN), derivative lanes == fa*da + fb*db with the textbook partials computed in f64 (tolerance 1e-4 + 1e-3 relative)", op_table().len(), places.len(), xs, ys);
    r.distinct = r.cases;
    r.exhaustive = true;
    r.sample(json!({"op":"DivRegReg","x":1.9,"y":0.45,"seeds":"(0.5,-2,3)/(1.5,0.25,-1)","rule":"(1/b, -a/b^2)"}));
    r
}
