//! C14, binding clause (bounded companion of the Verus unit `shape`): Shape-level tracing evaluators bind X, Y, Z and free
//! variables by identity, whatever the order in which the variables were first encountered when the function was built or
//! in which their values are supplied; extra supplied variables are ignored, a missing one is the MissingVar error; with
//! a transform matrix the axes are the transformed position.
use crate::common::*;
use fidget_core::context::Tree;
use fidget_core::shape::{EzShape, ShapeVars};
use fidget_core::var::Var;
use fidget_core::vm::VmShape;
use fidget_jit::JitShape;
use nalgebra::{Matrix4, Vector3};
use serde_json::json;

/// f = 1000*w0 + 100*w1 + 10*w2 + ... over a permutation of the operand list (first-encounter order follows the permutation)
fn build(order: &[usize], leaves: &[Tree]) -> Tree {
    let w = [1000.0f32, 100.0, 10.0, 1.0, 0.1, 0.01];
    let mut acc: Option<Tree> = None;
    for &k in order {
        let term = leaves[k].clone() * w[k];
        acc = Some(match acc { None => term, Some(a) => a + term });
    }
    acc.unwrap()
}

fn want(order: &[usize], vals: &[f32]) -> f32 {
    let w = [1000.0f32, 100.0, 10.0, 1.0, 0.1, 0.01];
    let mut acc: Option<f32> = None;
    for &k in order {
        let t = vals[k] * w[k];
        acc = Some(match acc { None => t, Some(a) => a + t });
    }
    acc.unwrap()
}

pub fn shape_bind(thorough: bool) -> Report {
    let mut r = Report::new("shape_bind");
    let vars: Vec<Var> = (0..3).map(|_| Var::new()).collect();
    let leaves: Vec<Tree> = vec![Tree::x(), Tree::y(), Tree::z(), Tree::from(vars[0]), Tree::from(vars[1]), Tree::from(vars[2])];
    // permutations of subsets of the 6 leaves (first-encounter orders)
    let mut orders: Vec<Vec<usize>> = vec![];
    let base: Vec<Vec<usize>> = vec![vec![0, 1, 2, 3, 4, 5], vec![5, 4, 3, 2, 1, 0], vec![3, 0, 4, 1, 5, 2], vec![2, 5, 0], vec![4, 1], vec![3], vec![1, 3, 5], vec![5, 3, 4], vec![0, 2], vec![4, 5, 3, 2]];
    orders.extend(base);
    if thorough {
        for a in 0..6 { for b in 0..6 { for c in 0..6 { if a != b && b != c && a != c { orders.push(vec![a, b, c]); } } } }
    }
    let pos = [(1.0f32, 2.0f32, 3.0f32), (-0.5, 0.25, 4.0), (0.0, -7.0, 1.5)];
    let vv = [0.5f32, -2.0, 8.0];
    let extra = Var::new();
    let mats: Vec<Option<Matrix4<f32>>> = vec![None, Some(Matrix4::new_translation(&Vector3::new(1.0, -2.0, 0.5))), Some(Matrix4::new_nonuniform_scaling(&Vector3::new(2.0, 0.5, -1.0)))];
    for order in &orders {
        let tree = build(order, &leaves);
        let vm = VmShape::from(tree.clone());
        let jit = JitShape::from(tree.clone());
        // supply orders of the variable values: forward, backward, with an extra variable first
        for supply in 0..3 {
            for &(x, y, z) in &pos {
                for m in &mats {
                    let mut sv = ShapeVars::new();
                    let idx: Vec<usize> = match supply { 0 => vec![0, 1, 2], 1 => vec![2, 1, 0], _ => vec![1, 0, 2] };
                    if supply == 2 { sv.insert(extra.index().unwrap(), 12345.0f32); }
                    for &k in &idx { sv.insert(vars[k].index().unwrap(), vv[k]); }
                    let (tx, ty, tz) = match m { None => (x, y, z), Some(m) => { let p = m.transform_point(&nalgebra::Point3::new(x, y, z)); (p.x, p.y, p.z) } };
                    let expect = want(order, &[tx, ty, tz, vv[0], vv[1], vv[2]]);
                    for backend in 0..2 {
                        r.cases += 1;
                        let got = if backend == 0 {
                            let t = vm.ez_point_tape();
                            let mut e = VmShape::new_point_eval();
                            match m { None => e.eval_with_vars(&t, x, y, z, &sv).map(|v| v.0), Some(m) => e.eval_with_transform_and_vars(&t, x, y, z, m, &sv).map(|v| v.0) }
                        } else {
                            let t = jit.ez_point_tape();
                            let mut e = JitShape::new_point_eval();
                            match m { None => e.eval_with_vars(&t, x, y, z, &sv).map(|v| v.0), Some(m) => e.eval_with_transform_and_vars(&t, x, y, z, m, &sv).map(|v| v.0) }
                        };
                        match got {
                            Ok(v) if v.to_bits() == expect.to_bits() => {}
                            Ok(v) => r.fail(format!("bind:{order:?}:supply{supply}:backend{backend}:{x},{y},{z}:{}", m.is_some()),
                                            format!("[binding] shape over leaves {order:?} evaluates to {} but the variables bound by identity give {}", fmt_f(v), fmt_f(expect)),
                                            json!({"contract":"shape_bind"})),
                            Err(e) => r.fail(format!("bind-err:{order:?}:supply{supply}:backend{backend}"), format!("[binding] unexpected error {e:?}"), json!({"contract":"shape_bind"})),
                        }
                    }
                }
            }
        }
        // many-point evaluators: one value per variable (eval_with_vars) and one array per variable (eval_with_var_arrays)
        for supply in 0..3 {
            for m in &mats {
                let idx: Vec<usize> = match supply { 0 => vec![0, 1, 2], 1 => vec![2, 1, 0], _ => vec![1, 0, 2] };
                let mut sv = ShapeVars::new();
                let mut sa: ShapeVars<Vec<f32>> = ShapeVars::new();
                if supply == 2 { sv.insert(extra.index().unwrap(), 12345.0f32); sa.insert(extra.index().unwrap(), vec![7.0f32; pos.len()]); }
                for &k in &idx {
                    sv.insert(vars[k].index().unwrap(), vv[k]);
                    sa.insert(vars[k].index().unwrap(), (0..pos.len()).map(|q| vv[k] + q as f32).collect());
                }
                let xs: Vec<f32> = pos.iter().map(|p| p.0).collect();
                let ys: Vec<f32> = pos.iter().map(|p| p.1).collect();
                let zs: Vec<f32> = pos.iter().map(|p| p.2).collect();
                let tp: Vec<(f32, f32, f32)> = pos.iter().map(|&(x, y, z)| match m { None => (x, y, z), Some(m) => { let p = m.transform_point(&nalgebra::Point3::new(x, y, z)); (p.x, p.y, p.z) } }).collect();
                let expect_v: Vec<f32> = tp.iter().map(|&(tx, ty, tz)| want(order, &[tx, ty, tz, vv[0], vv[1], vv[2]])).collect();
                let expect_a: Vec<f32> = tp.iter().enumerate().map(|(q, &(tx, ty, tz))| want(order, &[tx, ty, tz, vv[0] + q as f32, vv[1] + q as f32, vv[2] + q as f32])).collect();
                for backend in 0..2 {
                    r.cases += 2;
                    let (got_v, got_a): (Result<Vec<f32>, String>, Result<Vec<f32>, String>) = if backend == 0 {
                        let t = vm.ez_float_slice_tape();
                        let mut e = VmShape::new_float_slice_eval();
                        let a = match m { None => e.eval_with_vars(&t, &xs, &ys, &zs, &sv).map(|v| v.to_vec()), Some(m) => e.eval_with_transform_and_vars(&t, &xs, &ys, &zs, m, &sv).map(|v| v.to_vec()) }.map_err(|e| format!("{e:?}"));
                        let b = match m { None => e.eval_with_var_arrays(&t, &xs, &ys, &zs, &sa).map(|v| v.to_vec()), Some(m) => e.eval_with_transform_and_var_arrays(&t, &xs, &ys, &zs, m, &sa).map(|v| v.to_vec()) }.map_err(|e| format!("{e:?}"));
                        (a, b)
                    } else {
                        let t = jit.ez_float_slice_tape();
                        let mut e = JitShape::new_float_slice_eval();
                        let a = match m { None => e.eval_with_vars(&t, &xs, &ys, &zs, &sv).map(|v| v.to_vec()), Some(m) => e.eval_with_transform_and_vars(&t, &xs, &ys, &zs, m, &sv).map(|v| v.to_vec()) }.map_err(|e| format!("{e:?}"));
                        let b = match m { None => e.eval_with_var_arrays(&t, &xs, &ys, &zs, &sa).map(|v| v.to_vec()), Some(m) => e.eval_with_transform_and_var_arrays(&t, &xs, &ys, &zs, m, &sa).map(|v| v.to_vec()) }.map_err(|e| format!("{e:?}"));
                        (a, b)
                    };
                    for (kind, got, expect) in [("eval_with_vars", &got_v, &expect_v), ("eval_with_var_arrays", &got_a, &expect_a)] {
                        let ok = matches!(got, Ok(g) if g.len() == expect.len() && g.iter().zip(expect.iter()).all(|(a, b)| a.to_bits() == b.to_bits()));
                        if !ok {
                            r.fail(format!("bind-bulk:{kind}:{order:?}:supply{supply}:backend{backend}:{}", m.is_some()),
                                   format!("[binding] many-point {kind} of the shape over leaves {order:?} (supply order {supply}, transform {}) on back end {backend} gives {:?}, the variables bound by identity give {:?}", m.is_some(), got, expect),
                                   json!({"contract":"shape_bind"}));
                        }
                    }
                }
            }
        }
        // a missing variable is an error (when the shape uses a free variable)
        if let Some(&k) = order.iter().find(|&&k| k >= 3) {
            r.cases += 1;
            let mut sv = ShapeVars::new();
            for j in 0..3 { if j != k - 3 { sv.insert(vars[j].index().unwrap(), vv[j]); } }
            let t = vm.ez_point_tape();
            let mut e = VmShape::new_point_eval();
            if e.eval_with_vars(&t, 1.0f32, 2.0, 3.0, &sv).is_ok() {
                r.fail(format!("missing:{order:?}"), format!("[binding] variable {} is not supplied but evaluation succeeded", k - 3), json!({"contract":"shape_bind"}));
            }
            r.cases += 1;
            let tb = vm.ez_float_slice_tape();
            let mut eb = VmShape::new_float_slice_eval();
            if eb.eval_with_vars(&tb, &[1.0f32, 2.0], &[2.0f32, 3.0], &[3.0f32, 4.0], &sv).is_ok() {
                r.fail(format!("missing-bulk:{order:?}"), format!("[binding] variable {} is not supplied but many-point evaluation succeeded", k - 3), json!({"contract":"shape_bind"}));
            }
        }
    }
    r.space = format!("{} shapes over subsets/permutations of {{x, y, z, v0, v1, v2}} (weighted sums, first-encounter order = permutation) x 3 supply orders of the variable values (one with an extra unused variable) x 3 positions x {{no transform, translation, non-uniform scaling}} x {{VM, JIT}} point evaluators, and the same shapes through the many-point evaluators with one value per variable (eval_with_vars) and one array per variable (eval_with_var_arrays): bit-identical to the weighted sum of the identically named values at the transformed position; a missing variable is an error", orders.len());
    r.distinct = r.cases;
    r.exhaustive = true;
    r.sample(json!({"leaves":"[v2, x, v0]","supply":"v1 first","expected":"0.01*v2 + 1000*x + 1*v0"}));
    r
}

pub fn replay(v: &serde_json::Value) -> bool {
    let _ = v;
    !shape_bind(false).failures.is_empty()
}

// ---------------------------------------------------------------------------------------------------------------------
// C14, transform clause for all four evaluator kinds

/// test functions as (tree, f64 reference); smooth and well conditioned on the sampled region
fn tfuncs() -> Vec<(&'static str, Tree, fn(f64, f64, f64) -> f64)> {
    let (x, y, z) = (Tree::x(), Tree::y(), Tree::z());
    vec![
        ("x+2y+3z", x.clone() + y.clone() * 2.0 + z.clone() * 3.0, |x, y, z| x + 2.0 * y + 3.0 * z),
        ("x*y+z", x.clone() * y.clone() + z.clone(), |x, y, z| x * y + z),
        ("sqrt(x2+y2+z2)-1", (x.clone().square() + y.clone().square() + z.clone().square()).sqrt() - 1.0, |x, y, z| (x * x + y * y + z * z).sqrt() - 1.0),
        ("z-only", z.clone() * 0.5 + 1.0, |_x, _y, z| z * 0.5 + 1.0),
        ("x*x-y", x.clone().square() - y.clone(), |x, y, _z| x * x - y),
    ]
}

fn tmats() -> Vec<(&'static str, Matrix4<f32>)> {
    let mut v: Vec<(&'static str, Matrix4<f32>)> = vec![
        ("identity", Matrix4::identity()),
        ("translation", Matrix4::new_translation(&Vector3::new(1.0, -2.0, 0.5))),
        ("scaling", Matrix4::new_nonuniform_scaling(&Vector3::new(2.0, 0.5, -1.0))),
        ("rotation", Matrix4::from_euler_angles(0.3, -0.7, 1.1)),
    ];
    // projective: bottom row not (0,0,0,1)
    let mut p = Matrix4::identity(); p[(3, 2)] = 0.3; v.push(("perspective-z (bottom-right 1)", p));
    let mut p = Matrix4::new_translation(&Vector3::new(0.5, 0.25, -0.5)); p[(3, 0)] = 0.1; p[(3, 1)] = -0.2; v.push(("perspective-xy (bottom-right 1)", p));
    let mut p = Matrix4::from_euler_angles(0.2, 0.1, -0.4); p[(3, 3)] = 2.0; v.push(("uniform w=2", p));
    let mut p = Matrix4::new_nonuniform_scaling(&Vector3::new(1.5, 1.0, 0.75)); p[(3, 0)] = 0.05; p[(3, 2)] = -0.1; p[(3, 3)] = 1.5; p[(0, 3)] = 0.3; v.push(("general projective", p));
    v
}

fn tmap(m: &Matrix4<f32>, x: f64, y: f64, z: f64) -> (f64, f64, f64) {
    let r = |i: usize| m[(i, 0)] as f64 * x + m[(i, 1)] as f64 * y + m[(i, 2)] as f64 * z + m[(i, 3)] as f64;
    let w = r(3);
    (r(0) / w, r(1) / w, r(2) / w)
}

fn close(got: f32, want: f64, scale: f64) -> bool {
    let g = got as f64;
    (g - want).abs() <= 2e-4 * (1.0 + want.abs() + scale)
}

pub fn shape_transform(thorough: bool) -> Report {
    use fidget_core::types::{Grad, Interval};
    let mut r = Report::new("shape_transform");
    let mut pts: Vec<(f32, f32, f32)> = vec![(1.0, 2.0, 3.0), (-0.5, 0.25, 1.5), (0.75, -1.25, -0.5), (0.0, 0.0, 0.0), (2.0, 1.0, -1.0)];
    if thorough {
        for i in 0..4 { for j in 0..4 { for k in 0..4 { pts.push((i as f32 * 0.6 - 0.9, j as f32 * 0.7 - 1.0, k as f32 * 0.5 - 0.8)); } } }
    }
    let funcs = tfuncs();
    let mats = tmats();
    for (fname, tree, fref) in &funcs {
        let vm = VmShape::from(tree.clone());
        let jit = JitShape::from(tree.clone());
        for (mname, m) in &mats {
            // reference values, gradient by central differences of f∘T in f64
            let want: Vec<(f64, [f64; 3])> = pts.iter().map(|&(x, y, z)| {
                let g = |x: f64, y: f64, z: f64| { let (a, b, c) = tmap(m, x, y, z); fref(a, b, c) };
                let (x, y, z) = (x as f64, y as f64, z as f64);
                let h = 1e-5;
                (g(x, y, z), [(g(x + h, y, z) - g(x - h, y, z)) / (2.0 * h), (g(x, y + h, z) - g(x, y - h, z)) / (2.0 * h), (g(x, y, z + h) - g(x, y, z - h)) / (2.0 * h)])
            }).collect();
            let xs: Vec<f32> = pts.iter().map(|p| p.0).collect();
            let ys: Vec<f32> = pts.iter().map(|p| p.1).collect();
            let zs: Vec<f32> = pts.iter().map(|p| p.2).collect();
            for backend in 0..2 {
                let bn = if backend == 0 { "vm" } else { "jit" };
                let sig = |kind: &str, i: usize| format!("transform:{kind}:{bn}:{fname}:{mname}:{i}");
                // --- point
                for (i, &(x, y, z)) in pts.iter().enumerate() {
                    r.cases += 1;
                    let got = if backend == 0 { let t = vm.ez_point_tape(); let mut e = VmShape::new_point_eval(); e.eval_with_transform(&t, x, y, z, m).map(|v| v.0).ok() }
                              else { let t = jit.ez_point_tape(); let mut e = JitShape::new_point_eval(); e.eval_with_transform(&t, x, y, z, m).map(|v| v.0).ok() };
                    match got {
                        Some(v) if close(v, want[i].0, 0.0) => {}
                        other => r.fail(sig("point", i), format!("[transform:point] {fname} with transform `{mname}` at ({x}, {y}, {z}) on the {bn} point evaluator gives {:?}, the function at the transformed position is {}", other, want[i].0), json!({"contract":"shape_transform"})),
                    }
                }
                // --- interval: degenerate boxes must be close to the value; small boxes must contain the value at their corners and centre
                for (i, &(x, y, z)) in pts.iter().enumerate() {
                    for half in [0.0f32, 0.05] {
                        r.cases += 1;
                        let (ix, iy, iz) = (Interval::new(x - half, x + half), Interval::new(y - half, y + half), Interval::new(z - half, z + half));
                        let got = if backend == 0 { let t = vm.ez_interval_tape(); let mut e = VmShape::new_interval_eval(); e.eval_with_transform(&t, ix, iy, iz, m).map(|v| v.0).ok() }
                                  else { let t = jit.ez_interval_tape(); let mut e = JitShape::new_interval_eval(); e.eval_with_transform(&t, ix, iy, iz, m).map(|v| v.0).ok() };
                        let Some(iv) = got else { r.fail(sig("interval", i), format!("[transform:interval] unexpected error"), json!({"contract":"shape_transform"})); continue; };
                        if iv.lower().is_nan() || iv.upper().is_nan() { continue; } // NaN = whole line: encloses everything
                        let slack = 2e-4 * (1.0 + want[i].0.abs());
                        let mut ok = true;
                        for (sx, sy, sz) in [(0.0f32, 0.0f32, 0.0f32), (1.0, 1.0, 1.0), (-1.0, -1.0, -1.0), (1.0, -1.0, 1.0), (-1.0, 1.0, -1.0)] {
                            let (a, b, c) = tmap(m, (x + sx * half) as f64, (y + sy * half) as f64, (z + sz * half) as f64);
                            let v = fref(a, b, c);
                            if !(iv.lower() as f64 - slack <= v && v <= iv.upper() as f64 + slack) { ok = false; }
                        }
                        if half == 0.0 && !(close(iv.lower(), want[i].0, 0.0) && close(iv.upper(), want[i].0, 0.0)) { ok = false; }
                        if !ok {
                            r.fail(sig("interval", i), format!("[transform:interval] {fname} with transform `{mname}` on the box of half-width {half} around ({x}, {y}, {z}) on the {bn} interval evaluator gives [{}, {}], which does not match the function at the transformed position ({} at the centre)", iv.lower(), iv.upper(), want[i].0), json!({"contract":"shape_transform"}));
                        }
                    }
                }
                // --- float slice
                {
                    let got: Option<Vec<f32>> = if backend == 0 { let t = vm.ez_float_slice_tape(); let mut e = VmShape::new_float_slice_eval(); e.eval_with_transform(&t, &xs, &ys, &zs, m).map(|v| v.to_vec()).ok() }
                                                else { let t = jit.ez_float_slice_tape(); let mut e = JitShape::new_float_slice_eval(); e.eval_with_transform(&t, &xs, &ys, &zs, m).map(|v| v.to_vec()).ok() };
                    for i in 0..pts.len() {
                        r.cases += 1;
                        let v = got.as_ref().and_then(|g| g.get(i).copied());
                        if !matches!(v, Some(v) if close(v, want[i].0, 0.0)) {
                            r.fail(sig("float_slice", i), format!("[transform:float_slice] {fname} with transform `{mname}` at {:?} on the {bn} float-slice evaluator gives {:?}, the function at the transformed position is {}", pts[i], v, want[i].0), json!({"contract":"shape_transform"}));
                        }
                    }
                }
                // --- gradient slice: value and the three derivatives with respect to the untransformed position
                {
                    let gx: Vec<Grad> = xs.iter().map(|&v| Grad::new(v, 1.0, 0.0, 0.0)).collect();
                    let gy: Vec<Grad> = ys.iter().map(|&v| Grad::new(v, 0.0, 1.0, 0.0)).collect();
                    let gz: Vec<Grad> = zs.iter().map(|&v| Grad::new(v, 0.0, 0.0, 1.0)).collect();
                    let got: Option<Vec<Grad>> = if backend == 0 { let t = vm.ez_grad_slice_tape(); let mut e = VmShape::new_grad_slice_eval(); e.eval_with_transform(&t, &gx, &gy, &gz, m).map(|v| v.to_vec()).ok() }
                                                 else { let t = jit.ez_grad_slice_tape(); let mut e = JitShape::new_grad_slice_eval(); e.eval_with_transform(&t, &gx, &gy, &gz, m).map(|v| v.to_vec()).ok() };
                    for i in 0..pts.len() {
                        r.cases += 1;
                        let g = got.as_ref().and_then(|g| g.get(i).copied());
                        let scale = want[i].1.iter().fold(0.0f64, |a, b| a.max(b.abs()));
                        let ok = match g {
                            Some(g) => close(g.v, want[i].0, 0.0) && (0..3).all(|k| { let w = want[i].1[k]; !w.is_finite() || (g.d(k) as f64 - w).abs() <= 2e-3 * (1.0 + scale) }),
                            None => false,
                        };
                        // the norm function is not differentiable at the image of the origin: skip non-finite references only
                        if !ok && want[i].0.is_finite() && !(fname.starts_with("sqrt") && tmap(m, pts[i].0 as f64, pts[i].1 as f64, pts[i].2 as f64).0.hypot(tmap(m, pts[i].0 as f64, pts[i].1 as f64, pts[i].2 as f64).1) < 1e-3) {
                            r.fail(sig("grad_slice", i), format!("[transform:grad_slice] {fname} with transform `{mname}` at {:?} on the {bn} gradient evaluator gives {:?}; value and derivatives of the function of the transformed position are {} and {:?}", pts[i], g.map(|g| (g.v, g.dx, g.dy, g.dz)), want[i].0, want[i].1), json!({"contract":"shape_transform"}));
                        }
                    }
                }
            }
        }
    }
    r.space = format!("{} functions of (x, y, z) x {} transform matrices (identity, translation, non-uniform scaling, rotation, four projective matrices with a non-trivial bottom row) x {} positions x {{point, interval (degenerate and half-width 0.05 boxes), float-slice, gradient-slice}} evaluators x {{VM, JIT}}: value within 2e-4 relative of the f64 reference of the function at M·(x,y,z,1)/w, interval results contain the reference at the box corners and centre, gradients within 2e-3 of central differences of the composed function", funcs.len(), mats.len(), pts.len());
    r.distinct = r.cases;
    r.exhaustive = true;
    r.sample(json!({"function":"x*y+z","transform":"perspective-z (bottom-right 1)","position":[1.0,2.0,3.0],"kind":"grad_slice"}));
    r
}

pub fn replay_transform(v: &serde_json::Value) -> bool {
    let _ = v;
    !shape_transform(false).failures.is_empty()
}

// ---------------------------------------------------------------------------------------------------------------------
// C10, Shape-level evaluator objects (stand-alone form of part (d) of `total`)
pub fn shape_reuse(_thorough: bool) -> Report {
    let mut r = Report::new("shape_reuse");
    let prev = std::panic::take_hook();
    std::panic::set_hook(Box::new(|_| {}));
    let mut fails: Vec<(String, String, String)> = vec![];
    let n = crate::c_total::shape_reuse(&mut |class: &str, sig: String, what: String| fails.push((class.to_string(), sig, what)));
    std::panic::set_hook(prev);
    for (class, sig, what) in fails {
        r.fail(sig.clone(), format!("[shape-evaluator-reuse:{class}] {sig}: {what}"), json!({"contract":"shape_reuse"}));
    }
    r.cases = n;
    r.distinct = n;
    r.exhaustive = true;
    r.space = "one Shape-level evaluator object per kind (float-slice, gradient-slice, single-point, interval; VM) used on every ordered pair of (shape, sample count) from 8 shapes over different variable subsets ({x,y,z}, {x}, {y}, {x,z}, {}, {x,y}) - three of them over {x,y} with different variable-to-index maps (min(x,y), y-3x, x-2y) - x sample counts {10, 5, 0, 3, 1}: every call returns Ok with exactly the requested number of samples and bit-identical values to the closed form (the interval result contains it), and never panics".into();
    r.sample(json!({"first":"x+y+z [10 samples]","then":"x*2 [5 samples]"}));
    r
}

pub fn replay_reuse(v: &serde_json::Value) -> bool {
    let _ = v;
    !shape_reuse(false).failures.is_empty()
}
