//! C14, binding clause (bounded companion of the Verus unit `shape`): Shape-level tracing evaluators bind X, Y, Z and free
//! variables by identity, whatever the order in which the variables were first encountered when the function was built or
//! in which their values are supplied; extra supplied variables are ignored, a missing one is the MissingVar error; with
//! a transform matrix the axes are the transformed position.
use crate::common::*;
use fidget_core::context::Tree;
use fidget_core::shape::{EzShape, ShapeVars};
use fidget_core::var::Var;
use fidget_core::vm::VmShape;
use fidget_jit::JitShape;
use nalgebra::{Matrix4, Vector3};
use serde_json::json;

/// f = 1000*w0 + 100*w1 + 10*w2 + ... over a permutation of the operand list (first-encounter order follows the permutation)
fn build(order: &[usize], leaves: &[Tree]) -> Tree {
    let w = [1000.0f32, 100.0, 10.0, 1.0, 0.1, 0.01];
    let mut acc: Option<Tree> = None;
    for &k in order {
        let term = leaves[k].clone() * w[k];
        acc = Some(match acc { None => term, Some(a) => a + term });
    }
    acc.unwrap()
}

fn want(order: &[usize], vals: &[f32]) -> f32 {
    let w = [1000.0f32, 100.0, 10.0, 1.0, 0.1, 0.01];
    let mut acc: Option<f32> = None;
    for &k in order {
        let t = vals[k] * w[k];
        acc = Some(match acc { None => t, Some(a) => a + t });
    }
    acc.unwrap()
}

pub fn shape_bind(thorough: bool) -> Report {
    let mut r = Report::new("shape_bind");
    let vars: Vec<Var> = (0..3).map(|_| Var::new()).collect();
    let leaves: Vec<Tree> = vec![Tree::x(), Tree::y(), Tree::z(), Tree::from(vars[0]), Tree::from(vars[1]), Tree::from(vars[2])];
    // permutations of subsets of the 6 leaves (first-encounter orders)
    let mut orders: Vec<Vec<usize>> = vec![];
    let base: Vec<Vec<usize>> = vec![vec![0, 1, 2, 3, 4, 5], vec![5, 4, 3, 2, 1, 0], vec![3, 0, 4, 1, 5, 2], vec![2, 5, 0], vec![4, 1], vec![3], vec![1, 3, 5], vec![5, 3, 4], vec![0, 2], vec![4, 5, 3, 2]];
    orders.extend(base);
    if thorough {
        for a in 0..6 { for b in 0..6 { for c in 0..6 { if a != b && b != c && a != c { orders.push(vec![a, b, c]); } } } }
    }
    let pos = [(1.0f32, 2.0f32, 3.0f32), (-0.5, 0.25, 4.0), (0.0, -7.0, 1.5)];
    let vv = [0.5f32, -2.0, 8.0];
    let extra = Var::new();
    let mats: Vec<Option<Matrix4<f32>>> = vec![None, Some(Matrix4::new_translation(&Vector3::new(1.0, -2.0, 0.5))), Some(Matrix4::new_nonuniform_scaling(&Vector3::new(2.0, 0.5, -1.0)))];
    for order in &orders {
        let tree = build(order, &leaves);
        let vm = VmShape::from(tree.clone());
        let jit = JitShape::from(tree.clone());
        // supply orders of the variable values: forward, backward, with an extra variable first
        for supply in 0..3 {
            for &(x, y, z) in &pos {
                for m in &mats {
                    let mut sv = ShapeVars::new();
                    let idx: Vec<usize> = match supply { 0 => vec![0, 1, 2], 1 => vec![2, 1, 0], _ => vec![1, 0, 2] };
                    if supply == 2 { sv.insert(extra.index().unwrap(), 12345.0f32); }
                    for &k in &idx { sv.insert(vars[k].index().unwrap(), vv[k]); }
                    let (tx, ty, tz) = match m { None => (x, y, z), Some(m) => { let p = m.transform_point(&nalgebra::Point3::new(x, y, z)); (p.x, p.y, p.z) } };
                    let expect = want(order, &[tx, ty, tz, vv[0], vv[1], vv[2]]);
                    for backend in 0..2 {
                        r.cases += 1;
                        let got = if backend == 0 {
                            let t = vm.ez_point_tape();
                            let mut e = VmShape::new_point_eval();
                            match m { None => e.eval_with_vars(&t, x, y, z, &sv).map(|v| v.0), Some(m) => e.eval_with_transform_and_vars(&t, x, y, z, m, &sv).map(|v| v.0) }
                        } else {
                            let t = jit.ez_point_tape();
                            let mut e = JitShape::new_point_eval();
                            match m { None => e.eval_with_vars(&t, x, y, z, &sv).map(|v| v.0), Some(m) => e.eval_with_transform_and_vars(&t, x, y, z, m, &sv).map(|v| v.0) }
                        };
                        match got {
                            Ok(v) if v.to_bits() == expect.to_bits() => {}
                            Ok(v) => r.fail(format!("bind:{order:?}:supply{supply}:backend{backend}:{x},{y},{z}:{}", m.is_some()),
                                            format!("[binding] shape over leaves {order:?} evaluates to {} but the variables bound by identity give {}", fmt_f(v), fmt_f(expect)),
                                            json!({"contract":"shape_bind"})),
                            Err(e) => r.fail(format!("bind-err:{order:?}:supply{supply}:backend{backend}"), format!("[binding] unexpected error {e:?}"), json!({"contract":"shape_bind"})),
                        }
                    }
                }
            }
        }
        // a missing variable is an error (when the shape uses a free variable)
        if let Some(&k) = order.iter().find(|&&k| k >= 3) {
            r.cases += 1;
            let mut sv = ShapeVars::new();
            for j in 0..3 { if j != k - 3 { sv.insert(vars[j].index().unwrap(), vv[j]); } }
            let t = vm.ez_point_tape();
            let mut e = VmShape::new_point_eval();
            if e.eval_with_vars(&t, 1.0f32, 2.0, 3.0, &sv).is_ok() {
                r.fail(format!("missing:{order:?}"), format!("[binding] variable {} is not supplied but evaluation succeeded", k - 3), json!({"contract":"shape_bind"}));
            }
        }
    }
    r.space = format!("{} shapes over subsets/permutations of {{x, y, z, v0, v1, v2}} (weighted sums, first-encounter order = permutation) x 3 supply orders of the variable values (one with an extra unused variable) x 3 positions x {{no transform, translation, non-uniform scaling}} x {{VM, JIT}} point evaluators: bit-identical to the weighted sum of the identically named values at the transformed position; a missing variable is an error", orders.len());
    r.distinct = r.cases;
    r.exhaustive = true;
    r.sample(json!({"leaves":"[v2, x, v0]","supply":"v1 first","expected":"0.01*v2 + 1000*x + 1*v0"}));
    r
}

pub fn replay(v: &serde_json::Value) -> bool {
    let _ = v;
    !shape_bind(false).failures.is_empty()
}
