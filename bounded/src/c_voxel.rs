//! C07 (bounded companion of the Verus unit `voxel`): `fidget_raster::voxel::render` against the brute-force heightmap.
//!
//! For every shape x grid size x tile-size list x view transform x {VM, JIT} x {one thread, rayon pool}: the depth of every pixel is one
//! more than the index of the highest voxel of its column whose value (`Context::eval` at `cfg.mat() * (i, j, k)`) is negative, zero when
//! there is none, clamped to the grid depth; voxels whose value lies within a rounding band of zero may count either way; columns in which
//! the shape is (possibly) negative between the top of the grid and the top of the last slab of root tiles are outside the claim.  The
//! normal of an unclamped surface pixel is the gradient evaluation of the ORIGINAL shape (VM gradient evaluator through the same
//! transform) at that voxel.  This exercises what the unit assumes (interval enclosure, simplification incl. gradients, bulk evaluation
//! through the shape wrappers) and what it does not look at (`render_tiles`, the workers, the merge of root tiles with the depth clamp).
use crate::common::*;
use fidget_core::context::{Context, Node};
use fidget_core::eval::{Function, MathFunction};
use fidget_core::render::{RenderHints, ThreadPool, TileSizes, VoxelSize};
use fidget_core::shape::{Shape, ShapeBulkEval, EzShape};
use fidget_core::types::Grad;
use fidget_core::vm::{VmFunction, VmShape};
use fidget_jit::JitFunction;
use fidget_raster::voxel::{EvalConfig, RenderConfig, render};
use nalgebra::{Matrix4, Point3};
use serde_json::json;

fn shapes(ctx: &mut Context) -> Vec<(&'static str, Node)> {
    let (x, y, z) = (ctx.x(), ctx.y(), ctx.z());
    let mut v = vec![];
    let (x2, y2, z2) = (ctx.square(x).unwrap(), ctx.square(y).unwrap(), ctx.square(z).unwrap());
    let s = ctx.add(x2, y2).unwrap();
    let s3 = ctx.add(s, z2).unwrap();
    let r3 = ctx.sqrt(s3).unwrap();
    // sphere
    let sphere = ctx.sub(r3, 0.6).unwrap();
    v.push(("sphere", sphere));
    // two spheres along one pixel column (one above the other in z) plus a slab: several objects per column
    let zu = ctx.sub(z, 0.55).unwrap();
    let zu2 = ctx.square(zu).unwrap();
    let su = ctx.add(s, zu2).unwrap();
    let ru = ctx.sqrt(su).unwrap();
    let up = ctx.sub(ru, 0.25).unwrap();
    let zd = ctx.add(z, 0.5).unwrap();
    let xd = ctx.sub(x, 0.1).unwrap();
    let xd2 = ctx.square(xd).unwrap();
    let zd2 = ctx.square(zd).unwrap();
    let sd = ctx.add(xd2, y2).unwrap();
    let sd = ctx.add(sd, zd2).unwrap();
    let rd = ctx.sqrt(sd).unwrap();
    let down = ctx.sub(rd, 0.4).unwrap();
    let two = ctx.min(up, down).unwrap();
    let az = ctx.abs(z).unwrap();
    let slab = ctx.sub(az, 0.06).unwrap();
    let ax = ctx.abs(x).unwrap();
    let slabx = ctx.sub(ax, 0.7).unwrap();
    let slab = ctx.max(slab, slabx).unwrap();
    v.push(("stack", ctx.min(two, slab).unwrap()));
    // a box with a cylindrical hole along z and a tilted cut: min/max at several depths
    let ay = ctx.abs(y).unwrap();
    let bx = ctx.sub(ax, 0.5).unwrap();
    let by = ctx.sub(ay, 0.4).unwrap();
    let bz = ctx.sub(az, 0.45).unwrap();
    let b = ctx.max(bx, by).unwrap();
    let b = ctx.max(b, bz).unwrap();
    let rc = ctx.sqrt(s).unwrap();
    let hole = ctx.sub(0.2, rc).unwrap();
    let b = ctx.max(b, hole).unwrap();
    let t = ctx.mul(x, 0.5).unwrap();
    let t = ctx.add(t, z).unwrap();
    let cut = ctx.sub(t, 0.3).unwrap();
    v.push(("csg", ctx.max(b, cut).unwrap()));
    // everything below a wavy surface is inside: whole tiles are full, the top slab is reached
    let sx = ctx.mul(x, 5.0).unwrap();
    let w = ctx.sin(sx).unwrap();
    let w = ctx.mul(w, 0.15).unwrap();
    let zz = ctx.sub(z, w).unwrap();
    v.push(("ground", ctx.sub(zz, 0.2).unwrap()));
    // a beam across the top rows of the image, high up and unbounded in x (it extends past the image edge into the part of an edge
    // root tile that is not shown), over a floor that is only visible in a lower slab
    let zb = ctx.sub(z, 0.55).unwrap();
    let zb = ctx.abs(zb).unwrap();
    let zb = ctx.sub(zb, 0.12).unwrap();
    let yb = ctx.sub(0.45, y).unwrap();
    let beam = ctx.max(zb, yb).unwrap();
    let floor = ctx.add(z, 0.55).unwrap();
    v.push(("beam-floor", ctx.min(beam, floor).unwrap()));
    // inside everywhere above a plane: full up to (and beyond) the top of the grid, the clamp
    v.push(("ceiling", ctx.sub(-0.3, z).unwrap()));
    v
}

#[allow(clippy::too_many_arguments)]
fn check<F: Function + MathFunction + RenderHints>(
    r: &mut Report, backend: &str, ctx: &Context, name: &str, root: Node, size: (u32, u32, u32), tiles: Option<&[usize]>, mat: Matrix4<f32>, threads: bool, which_mat: usize,
) {
    r.cases += 1;
    let shape = Shape::<F>::new(ctx, root).unwrap();
    let cfg = RenderConfig { image_size: VoxelSize::new(size.0, size.1, size.2), world_to_model: mat };
    let ec = EvalConfig { tile_sizes: tiles.map(|t| TileSizes::new(t).unwrap()), threads: if threads { Some(&ThreadPool::Global) } else { None }, ..Default::default() };
    let sig = format!("{backend}:{name}:{}x{}x{}:tiles={tiles:?}:mat={which_mat}:threads={threads}", size.0, size.1, size.2);
    let rep = json!({"contract":"render3d","backend":backend,"shape":name,"w":size.0,"h":size.1,"d":size.2,"tiles":tiles,"mat":which_mat,"threads":threads});
    let img = match std::panic::catch_unwind(std::panic::AssertUnwindSafe(|| render(shape.try_into().expect("no vars"), &cfg, &ec))) {
        Ok(Some(i)) => i,
        Ok(None) => {
            r.fail(sig, "[render-none] render returned None without cancellation".into(), rep);
            return;
        }
        Err(_) => {
            r.fail(sig, "[render-panic] render panicked".into(), rep);
            return;
        }
    };
    let m = cfg.mat();
    let (w, h, d) = (size.0 as usize, size.1 as usize, size.2 as usize);
    // the root tile the renderer uses: the first size of the list that is not larger than needed (TileSizesRef::new), the top slab ends at a multiple of it
    let list: Vec<usize> = match tiles {
        Some(t) => t.to_vec(),
        None => F::tile_sizes_3d().iter().copied().collect(),
    };
    let max_size = w.max(h);
    let ri = list.iter().position(|t| *t < max_size).unwrap_or(list.len()).saturating_sub(1);
    let t = list[ri];
    let ztop = d.div_ceil(t) * t;
    // oracle for the normals: VM gradient evaluation of the original shape
    let vm_shape = VmShape::new(ctx, root).unwrap();
    let mut ge = ShapeBulkEval::<<VmFunction as Function>::GradSliceEval>::default();
    let gt = vm_shape.ez_grad_slice_tape();
    for j in 0..h {
        for i in 0..w {
            let val = |k: usize| -> f32 {
                let p = m.transform_point(&Point3::new(i as f32, j as f32, k as f32));
                ctx.eval_xyz(root, p.x, p.y, p.z).unwrap()
            };
            let band = |v: f32| 2.0e-5 * (1.0 + v.abs()) + 1.0e-5;
            // columns that are (possibly) inside between the top of the grid and the top of the last slab (inclusive) are outside the claim
            let mut beyond = false;
            for k in d..=ztop {
                let v = val(k);
                if v.is_nan() || v < band(v) {
                    beyond = true;
                }
            }
            if beyond {
                continue;
            }
            let (mut lo, mut hi, mut nan) = (0usize, 0usize, false);
            for k in 0..d {
                let v = val(k);
                if v.is_nan() {
                    nan = true;
                } else {
                    if v < -band(v) {
                        lo = k + 1;
                    }
                    if v < band(v) {
                        hi = k + 1;
                    }
                }
            }
            if nan {
                continue;
            }
            let px = img[(j, i)];
            let got = px.depth as usize;
            if got < lo || got > hi {
                r.fail(format!("{sig}:px=({i},{j})"), format!("[depth] pixel ({i},{j}) reports depth {got}; the highest inside voxel of its column gives {lo} (certain) .. {hi} (within rounding)"), rep.clone());
                return;
            }
            if got >= 1 && got < d && lo == hi {
                let (xs, ys, zs) = ([Grad::new(i as f32, 1.0, 0.0, 0.0)], [Grad::new(j as f32, 0.0, 1.0, 0.0)], [Grad::new((got - 1) as f32, 0.0, 0.0, 1.0)]);
                let g = ge.eval_with_transform(&gt, &xs, &ys, &zs, &m).unwrap()[0];
                let want = [g.dx, g.dy, g.dz];
                for c in 0..3 {
                    let (a, b) = (px.normal[c], want[c]);
                    if !((a - b).abs() <= 1.0e-4 * (1.0 + b.abs()) || (a.is_nan() && b.is_nan())) {
                        r.fail(format!("{sig}:px=({i},{j})"), format!("[normal] pixel ({i},{j}) at depth {got} reports normal {:?}; the gradient of the shape at voxel ({i},{j},{}) is {want:?}", px.normal, got - 1), rep.clone());
                        return;
                    }
                }
            }
        }
    }
}

fn mats() -> Vec<Matrix4<f32>> {
    vec![
        Matrix4::identity(),
        Matrix4::new(0.8, 0.0, 0.0, 0.1, 0.0, 0.8, 0.0, -0.05, 0.0, 0.0, 0.8, 0.0, 0.0, 0.0, 0.0, 1.0),
        // rotation about x by ~30 degrees with a shift
        Matrix4::new(1.0, 0.0, 0.0, 0.0, 0.0, 0.866, -0.5, 0.1, 0.0, 0.5, 0.866, -0.1, 0.0, 0.0, 0.0, 1.0),
        // shear with a non-uniform scale: the linear part of cfg.mat() is not symmetric (a rotation times the y-flip of the screen is)
        Matrix4::new(0.9, 0.3, 0.0, 0.05, -0.2, 1.05, 0.1, 0.0, 0.0, -0.15, 0.95, 0.02, 0.0, 0.0, 0.0, 1.0),
    ]
}

fn run_all(r: &mut Report, thorough: bool, only: Option<&serde_json::Value>) {
    let mut ctx = Context::new();
    let shs = shapes(&mut ctx);
    let sizes: Vec<(u32, u32, u32)> = if thorough { vec![(16, 16, 16), (24, 24, 24), (20, 12, 28), (12, 20, 9), (33, 33, 33), (40, 40, 17), (1, 1, 5), (48, 48, 48)] } else { vec![(16, 16, 16), (20, 12, 28), (12, 20, 9), (33, 33, 33), (1, 1, 5)] };
    let tile_lists: Vec<Option<Vec<usize>>> = vec![None, Some(vec![8]), Some(vec![16, 4]), Some(vec![32, 8, 2]), Some(vec![12, 6, 3]), Some(vec![16, 8, 4, 1])];
    let ms = mats();
    for (name, root) in &shs {
        for &size in &sizes {
            for tl in &tile_lists {
                for (mi, m) in ms.iter().enumerate() {
                    for threads in [false, true] {
                        if threads && !(mi == 0 && size.0 >= 20) {
                            continue;
                        }
                        if let Some(o) = only {
                            let same = o["shape"].as_str() == Some(name) && o["w"].as_u64() == Some(size.0 as u64) && o["h"].as_u64() == Some(size.1 as u64) && o["d"].as_u64() == Some(size.2 as u64)
                                && o["mat"].as_u64() == Some(mi as u64) && o["threads"].as_bool() == Some(threads) && o["tiles"] == json!(tl);
                            if !same {
                                continue;
                            }
                        }
                        let be = only.and_then(|o| o["backend"].as_str());
                        if be.is_none() || be == Some("vm") {
                            check::<VmFunction>(r, "vm", &ctx, name, *root, size, tl.as_deref(), *m, threads, mi);
                        }
                        if be.is_none() || be == Some("jit") {
                            check::<JitFunction>(r, "jit", &ctx, name, *root, size, tl.as_deref(), *m, threads, mi);
                        }
                    }
                }
            }
        }
    }
}

pub fn render3d(thorough: bool) -> Report {
    let mut r = Report::new("render3d");
    run_all(&mut r, thorough, None);
    r.distinct = r.cases;
    r.space = "6 shapes (sphere; a beam across the top rows that extends past the image edge over a floor only visible in a lower slab; two spheres stacked along z plus a thin slab: several objects per pixel column; a box with a hole and a tilted cut; a wavy ground that fills whole tiles; a ceiling that is inside up to and beyond the top of the grid) x grid sizes incl. width != height != depth, non-multiples of the root tile and 1x1x5 x tile-size lists {default, [8], [16,4], [32,8,2], [12,6,3], [16,8,4,1]} x 4 view transforms (identity, scale+shift, rotation about x, shear with non-uniform scale) x {VM, JIT} x {no thread pool, rayon}; every pixel column compared with Context::eval at cfg.mat() * (i, j, k) for every k: depth = highest inside voxel + 1 (band of 2e-5 relative around zero counts either way; columns inside between the top of the grid and the top of the last root-tile slab are skipped, as the property says), normals of unclamped surface pixels against the VM gradient evaluation of the original shape at that voxel".into();
    r
}

pub fn replay(v: &serde_json::Value) -> bool {
    let mut r = Report::new("render3d");
    run_all(&mut r, true, Some(v));
    for f in &r.failures {
        println!("{} :: {}", f["signature"], f["what"]);
    }
    r.failures.is_empty() && r.cases > 0
}
