//! C14, solver clause: `fidget_solver::solve` binds every parameter (free or fixed) by identity in every equation, although
//! each equation's tape numbers its variables in its own first-encounter order and the solver shares one argument array
//! between all equations.  Oracle: triangular linear systems with a unique solution computed in f64.
use crate::common::*;
use fidget_core::context::{Context, Tree};
use fidget_core::eval::MathFunction;
use fidget_core::var::Var;
use fidget_core::vm::VmFunction;
use fidget_jit::JitFunction;
use fidget_solver::{Parameter, solve};
use serde_json::json;
use std::collections::HashMap;

/// permutations of the four terms of an equation (order of first encounter of the variables)
const ORDERS: [[usize; 4]; 6] = [[0, 1, 2, 3], [2, 0, 1, 3], [1, 2, 0, 3], [2, 1, 0, 3], [3, 2, 1, 0], [0, 2, 3, 1]];

struct Sys { trees: Vec<Tree>, params: HashMap<Var, Parameter>, want: Vec<(Var, f64)>, desc: String }

fn system(k: usize, m: usize, axes_fixed: bool, variant: usize) -> Sys {
    let free: Vec<Var> = (0..k).map(|_| Var::new()).collect();
    let fixed: Vec<Var> = if axes_fixed { vec![Var::X, Var::Y, Var::Z][..m].to_vec() } else { (0..m).map(|_| Var::new()).collect() };
    let fval: Vec<f32> = (0..m).map(|j| 3.0 - 2.5 * j as f32).collect();
    let mut params = HashMap::new();
    // insertion order of the parameter map also varies with the variant
    if variant % 2 == 0 {
        for (j, v) in fixed.iter().enumerate() { params.insert(*v, Parameter::Fixed(fval[j])); }
        for (i, v) in free.iter().enumerate() { params.insert(*v, Parameter::Free(0.25 * i as f32)); }
    } else {
        for (i, v) in free.iter().enumerate().rev() { params.insert(*v, Parameter::Free(0.25 * i as f32)); }
        for (j, v) in fixed.iter().enumerate().rev() { params.insert(*v, Parameter::Fixed(fval[j])); }
    }
    let mut trees = vec![];
    let mut sol: Vec<f64> = vec![];
    for i in 0..k {
        // c*a_i + e*a_{i-1} + s*f_j - d = 0
        let c = 1.0 + 0.5 * ((i + variant) % 3) as f32;
        let e = if i == 0 { 0.0 } else { 0.5 - 0.25 * (i % 2) as f32 };
        let s = if (i + variant) % 2 == 0 { 1.0f32 } else { -2.0 };
        let j = (i + variant) % m;
        let d = 1.0 + i as f32;
        let terms: Vec<Option<Tree>> = vec![
            Some(Tree::from(free[i]) * c),
            if i == 0 { None } else { Some(Tree::from(free[i - 1]) * e) },
            Some(Tree::from(fixed[j]) * s),
            Some(Tree::from(-d)),
        ];
        let mut acc: Option<Tree> = None;
        for &t in &ORDERS[(i * 2 + variant) % ORDERS.len()] {
            if let Some(term) = &terms[t] { acc = Some(match acc { None => term.clone(), Some(a) => a + term.clone() }); }
        }
        trees.push(acc.unwrap());
        let prev = if i == 0 { 0.0 } else { sol[i - 1] };
        sol.push((d as f64 - e as f64 * prev - s as f64 * fval[j] as f64) / c as f64);
    }
    Sys { trees, params, want: free.iter().copied().zip(sol).collect(), desc: format!("k={k} free, m={m} fixed ({}), variant {variant}", if axes_fixed { "axes" } else { "named variables" }) }
}

pub fn solver_bind(thorough: bool) -> Report {
    let mut r = Report::new("solver_bind");
    let mut n_sys = 0;
    let variants = if thorough { 12 } else { 4 };
    for k in 1..=4usize {
        for m in 1..=3usize {
            for axes_fixed in [false, true] {
                for variant in 0..variants {
                    n_sys += 1;
                    for backend in 0..2 {
                        r.cases += 1;
                        let sys = system(k, m, axes_fixed, variant);
                        let mut ctx = Context::new();
                        let sol = if backend == 0 {
                            let eqs: Vec<VmFunction> = sys.trees.iter().map(|t| { let n = ctx.import(t); VmFunction::new(&ctx, &[n]).unwrap() }).collect();
                            solve(&eqs, &sys.params).map_err(|e| format!("{e:?}"))
                        } else {
                            let eqs: Vec<JitFunction> = sys.trees.iter().map(|t| { let n = ctx.import(t); JitFunction::new(&ctx, &[n]).unwrap() }).collect();
                            solve(&eqs, &sys.params).map_err(|e| format!("{e:?}"))
                        };
                        let bn = if backend == 0 { "vm" } else { "jit" };
                        match sol {
                            Err(e) => r.fail(format!("solver:{}:{bn}:err", sys.desc), format!("[solver-binding] solve failed on a regular triangular linear system ({}): {e}", sys.desc), json!({"contract":"solver_bind"})),
                            Ok(sol) => {
                                let bad: Vec<String> = sys.want.iter().enumerate().filter_map(|(i, (v, w))| {
                                    match sol.get(v) { Some(g) if ((*g as f64) - w).abs() <= 1e-2 * (1.0 + w.abs()) => None, g => Some(format!("a{i}: got {:?}, unique solution {w}", g)) }
                                }).collect();
                                if !bad.is_empty() || sol.len() != sys.want.len() {
                                    r.fail(format!("solver:{}:{bn}", sys.desc), format!("[solver-binding] system ({}) on {bn} functions: {}; returned {} values for {} free parameters", sys.desc, bad.join("; "), sol.len(), sys.want.len()), json!({"contract":"solver_bind"}));
                                }
                            }
                        }
                    }
                }
            }
        }
    }
    r.space = format!("{n_sys} triangular linear systems with 1..4 free and 1..3 fixed parameters (fixed ones named variables or the axes X, Y, Z), {variants} variants of coefficient pattern, term order per equation (so the same parameter sits in different slots of different equations) and parameter-map insertion order, x {{VM, JIT}} functions: every free parameter within 1e-2 relative of the unique solution computed in f64, exactly the free parameters returned");
    r.distinct = r.cases;
    r.exhaustive = true;
    r.sample(json!({"equations":["a0*1 + f0*1 - 1","f1*-2 + a1*1.5 + a0*0.25 - 2"],"fixed":{"f0":3.0,"f1":0.5}}));
    r
}

pub fn replay(v: &serde_json::Value) -> bool {
    let _ = v;
    !solver_bind(false).failures.is_empty()
}
