//! C14, solver clause: `fidget_solver::solve` binds every parameter (free or fixed) by identity in every equation, although
//! each equation's tape numbers its variables in its own first-encounter order and the solver shares one argument array
//! between all equations.  Oracle: triangular linear systems with a unique solution computed in f64.
use crate::common::*;
use fidget_core::context::{Context, Tree};
use fidget_core::eval::MathFunction;
use fidget_core::var::Var;
use fidget_core::vm::VmFunction;
use fidget_jit::JitFunction;
use fidget_solver::{Parameter, solve};
use serde_json::json;
use std::collections::HashMap;

/// permutations of the four terms of an equation (order of first encounter of the variables)
const ORDERS: [[usize; 4]; 6] = [[0, 1, 2, 3], [2, 0, 1, 3], [1, 2, 0, 3], [2, 1, 0, 3], [3, 2, 1, 0], [0, 2, 3, 1]];

struct Sys { trees: Vec<Tree>, params: HashMap<Var, Parameter>, want: Vec<(Var, f64)>, desc: String }

fn system(k: usize, m: usize, axes_fixed: bool, variant: usize) -> Sys {
    let free: Vec<Var> = (0..k).map(|_| Var::new()).collect();
    let fixed: Vec<Var> = if axes_fixed { vec![Var::X, Var::Y, Var::Z][..m].to_vec() } else { (0..m).map(|_| Var::new()).collect() };
    let fval: Vec<f32> = (0..m).map(|j| 3.0 - 2.5 * j as f32).collect();
    let mut params = HashMap::new();
    // insertion order of the parameter map also varies with the variant
    if variant % 2 == 0 {
        for (j, v) in fixed.iter().enumerate() { params.insert(*v, Parameter::Fixed(fval[j])); }
        for (i, v) in free.iter().enumerate() { params.insert(*v, Parameter::Free(0.25 * i as f32)); }
    } else {
        for (i, v) in free.iter().enumerate().rev() { params.insert(*v, Parameter::Free(0.25 * i as f32)); }
        for (j, v) in fixed.iter().enumerate().rev() { params.insert(*v, Parameter::Fixed(fval[j])); }
    }
    let mut trees = vec![];
    let mut sol: Vec<f64> = vec![];
    for i in 0..k {
        // c*a_i + e*a_{i-1} + s*f_j - d = 0
        let c = 1.0 + 0.5 * ((i + variant) % 3) as f32;
        let e = if i == 0 { 0.0 } else { 0.5 - 0.25 * (i % 2) as f32 };
        let s = if (i + variant) % 2 == 0 { 1.0f32 } else { -2.0 };
        let j = (i + variant) % m;
        let d = 1.0 + i as f32;
        let terms: Vec<Option<Tree>> = vec![
            Some(Tree::from(free[i]) * c),
            if i == 0 { None } else { Some(Tree::from(free[i - 1]) * e) },
            Some(Tree::from(fixed[j]) * s),
            Some(Tree::from(-d)),
        ];
        let mut acc: Option<Tree> = None;
        for &t in &ORDERS[(i * 2 + variant) % ORDERS.len()] {
            if let Some(term) = &terms[t] { acc = Some(match acc { None => term.clone(), Some(a) => a + term.clone() }); }
        }
        trees.push(acc.unwrap());
        let prev = if i == 0 { 0.0 } else { sol[i - 1] };
        sol.push((d as f64 - e as f64 * prev - s as f64 * fval[j] as f64) / c as f64);
    }
    Sys { trees, params, want: free.iter().copied().zip(sol).collect(), desc: format!("k={k} free, m={m} fixed ({}), variant {variant}", if axes_fixed { "axes" } else { "named variables" }) }
}

pub fn solver_bind(thorough: bool) -> Report {
    let mut r = Report::new("solver_bind");
    let mut n_sys = 0;
    let variants = if thorough { 12 } else { 4 };
    for k in 1..=4usize {
        for m in 1..=3usize {
            for axes_fixed in [false, true] {
                for variant in 0..variants {
                    n_sys += 1;
                    for backend in 0..2 {
                        r.cases += 1;
                        let sys = system(k, m, axes_fixed, variant);
                        let mut ctx = Context::new();
                        let sol = if backend == 0 {
                            let eqs: Vec<VmFunction> = sys.trees.iter().map(|t| { let n = ctx.import(t); VmFunction::new(&ctx, &[n]).unwrap() }).collect();
                            solve(&eqs, &sys.params).map_err(|e| format!("{e:?}"))
                        } else {
                            let eqs: Vec<JitFunction> = sys.trees.iter().map(|t| { let n = ctx.import(t); JitFunction::new(&ctx, &[n]).unwrap() }).collect();
                            solve(&eqs, &sys.params).map_err(|e| format!("{e:?}"))
                        };
                        let bn = if backend == 0 { "vm" } else { "jit" };
                        match sol {
                            Err(e) => r.fail(format!("solver:{}:{bn}:err", sys.desc), format!("[solver-binding] solve failed on a regular triangular linear system ({}): {e}", sys.desc), json!({"contract":"solver_bind"})),
                            Ok(sol) => {
                                let bad: Vec<String> = sys.want.iter().enumerate().filter_map(|(i, (v, w))| {
                                    match sol.get(v) { Some(g) if ((*g as f64) - w).abs() <= 1e-2 * (1.0 + w.abs()) => None, g => Some(format!("a{i}: got {:?}, unique solution {w}", g)) }
                                }).collect();
                                if !bad.is_empty() || sol.len() != sys.want.len() {
                                    r.fail(format!("solver:{}:{bn}", sys.desc), format!("[solver-binding] system ({}) on {bn} functions: {}; returned {} values for {} free parameters", sys.desc, bad.join("; "), sol.len(), sys.want.len()), json!({"contract":"solver_bind"}));
                                }
                            }
                        }
                    }
                }
            }
        }
    }
    r.space = format!("{n_sys} triangular linear systems with 1..4 free and 1..3 fixed parameters (fixed ones named variables or the axes X, Y, Z), {variants} variants of coefficient pattern, term order per equation (so the same parameter sits in different slots of different equations) and parameter-map insertion order, x {{VM, JIT}} functions: every free parameter within 1e-2 relative of the unique solution computed in f64, exactly the free parameters returned");
    r.distinct = r.cases;
    r.exhaustive = true;
    r.sample(json!({"equations":["a0*1 + f0*1 - 1","f1*-2 + a1*1.5 + a0*0.25 - 2"],"fixed":{"f0":3.0,"f1":0.5}}));
    r
}

pub fn replay(v: &serde_json::Value) -> bool {
    let _ = v;
    !solver_bind(false).failures.is_empty()
}

// ---------------------------------------------------------------------------------------------------------------------
// C19: fixed parameters are constants, exactly the free parameters are returned, an exactly satisfied start is returned unchanged,
// well-conditioned consistent linear systems are solved (any number of unknowns, any mix of free and fixed, equations over
// different subsets of the variables), on both back ends

struct Lin { trees: Vec<Tree>, params: HashMap<Var, Parameter>, free: Vec<(Var, f64)>, fixed: Vec<Var>, desc: String }

/// n variables with integer target values x*_i; a random subset is fixed at its target value; one equation per FREE variable i:
/// d_i * v_i + sum over a sparse set S_i of other variables of c_ij * v_j - rhs_i, diagonally dominant, rhs_i consistent with x*
/// `unit` (a power of two, so that every product stays exact) scales the unknowns; the coefficients are scaled by 1/unit, so the right-hand sides stay O(1)
fn linear_system(n: usize, seed: u64, start_at_solution: bool, unit: f32) -> Lin {
    let mut rng = Rng::new(seed.wrapping_mul(0x9E37).wrapping_add(n as u64 * 131).wrapping_add(0xC19));
    let vars: Vec<Var> = (0..n).map(|_| Var::new()).collect();
    let target: Vec<f32> = (0..n).map(|_| ((rng.below(9) as f32) - 4.0) * unit).collect();
    let mut is_fixed: Vec<bool> = (0..n).map(|_| rng.below(3) == 0).collect();
    if is_fixed.iter().all(|f| *f) { is_fixed[rng.below(n)] = false; }
    let mut params = HashMap::new();
    for i in 0..n {
        if is_fixed[i] { params.insert(vars[i], Parameter::Fixed(target[i])); }
        else { params.insert(vars[i], Parameter::Free(if start_at_solution { target[i] } else { target[i] + (1.0 + (rng.below(5) as f32) * 0.5) * unit })); }
    }
    let mut trees = vec![];
    for i in 0..n {
        if is_fixed[i] { continue; }
        // sparse off-diagonal pattern: up to 3 other variables
        let mut terms: Vec<(usize, f32)> = vec![];
        let k = if n > 1 { rng.below(4.min(n)) } else { 0 };
        for _ in 0..k {
            let j = rng.below(n);
            if j != i && !terms.iter().any(|t| t.0 == j) { terms.push((j, [1.0f32, -1.0, 0.5, 2.0][rng.below(4)] / unit)); }
        }
        let dom: f32 = terms.iter().map(|t| t.1.abs()).sum::<f32>() + (2.0 + rng.below(3) as f32) / unit;
        terms.push((i, dom));
        // random term order (so that the slot of a variable differs between equations)
        for a in (1..terms.len()).rev() { let b = rng.below(a + 1); terms.swap(a, b); }
        let rhs: f32 = terms.iter().map(|&(j, c)| c * target[j]).sum();
        let mut acc: Option<Tree> = None;
        for &(j, c) in &terms {
            let t = Tree::from(vars[j]) * c;
            acc = Some(match acc { None => t, Some(a) => a + t });
        }
        trees.push(acc.unwrap() - rhs);
    }
    let free = (0..n).filter(|&i| !is_fixed[i]).map(|i| (vars[i], target[i] as f64)).collect();
    let fixed = (0..n).filter(|&i| is_fixed[i]).map(|i| vars[i]).collect();
    Lin { trees, params, free, fixed, desc: format!("n={n}, seed={seed}, unit={unit:e}, fixed={:?}", is_fixed.iter().map(|b| *b as u8).collect::<Vec<_>>()) }
}

fn solve_on(backend: usize, trees: &[Tree], params: &HashMap<Var, Parameter>) -> Result<HashMap<Var, f32>, String> {
    let mut ctx = Context::new();
    let res = std::panic::catch_unwind(std::panic::AssertUnwindSafe(|| {
        if backend == 0 {
            let eqs: Vec<VmFunction> = trees.iter().map(|t| { let n = ctx.import(t); VmFunction::new(&ctx, &[n]).unwrap() }).collect();
            solve(&eqs, params).map_err(|e| format!("{e:?}"))
        } else {
            let eqs: Vec<JitFunction> = trees.iter().map(|t| { let n = ctx.import(t); JitFunction::new(&ctx, &[n]).unwrap() }).collect();
            solve(&eqs, params).map_err(|e| format!("{e:?}"))
        }
    }));
    match res { Ok(r) => r, Err(p) => Err(format!("PANIC: {}", p.downcast_ref::<String>().cloned().or_else(|| p.downcast_ref::<&str>().map(|s| s.to_string())).unwrap_or_default())) }
}

pub fn solver_linear(thorough: bool) -> Report {
    let mut r = Report::new("solver_linear");
    let prev = std::panic::take_hook();
    std::panic::set_hook(Box::new(|_| {}));
    let max_n = if thorough { 40 } else { 14 };
    let seeds = if thorough { 6 } else { 3 };
    // unknowns of magnitude 1, 2^-27 (stiff: coefficients ~1e8, steps far below f32::EPSILON in absolute terms) and 2^13
    let units: [f32; 3] = [1.0, 7.450580596923828e-9, 8192.0];
    for n in 1..=max_n {
      for &unit in &units {
        if unit != 1.0 && n > 8 { continue; }
        for seed in 0..seeds {
            for start_at_solution in [false, true] {
                let sys = linear_system(n, seed, start_at_solution, unit);
                let mut sols: Vec<Option<HashMap<Var, f32>>> = vec![];
                for backend in 0..2 {
                    r.cases += 1;
                    let bn = if backend == 0 { "vm" } else { "jit" };
                    match solve_on(backend, &sys.trees, &sys.params) {
                        Err(e) => { r.fail(format!("linear:{}:{bn}:err", sys.desc), format!("[{}] solve failed on a diagonally dominant consistent linear system ({}) on {bn}: {e}", if e.starts_with("PANIC") { "solver-panic" } else { "solver-error" }, sys.desc), json!({"contract":"solver_linear"})); sols.push(None); }
                        Ok(sol) => {
                            let mut bad: Vec<String> = vec![];
                            if sol.len() != sys.free.len() { bad.push(format!("returned {} values for {} free parameters", sol.len(), sys.free.len())); }
                            for v in &sys.fixed { if sol.contains_key(v) { bad.push("a fixed parameter is in the result".into()); } }
                            for (i, (v, w)) in sys.free.iter().enumerate() {
                                match sol.get(v) {
                                    None => bad.push(format!("free parameter #{i} missing")),
                                    Some(g) if start_at_solution && (*g as f64) != *w => bad.push(format!("start satisfies every equation exactly but free parameter #{i} moved from {w} to {g}")),
                                    Some(g) if ((*g as f64) - w).abs() > 1e-2 * (unit as f64 + w.abs()) => bad.push(format!("free parameter #{i}: got {g}, unique solution {w}")),
                                    _ => {}
                                }
                            }
                            if !bad.is_empty() {
                                let class = if start_at_solution { "solver-start-moved" } else { "solver-linear" };
                                r.fail(format!("linear:{}:{bn}:start{}", sys.desc, start_at_solution as u8), format!("[{class}] system ({}) on {bn}: {}", sys.desc, bad.join("; ")), json!({"contract":"solver_linear"}));
                            }
                            sols.push(Some(sol));
                        }
                    }
                }
                if let (Some(a), Some(b)) = (&sols[0], &sols[1]) {
                    for (v, _) in &sys.free {
                        if let (Some(x), Some(y)) = (a.get(v), b.get(v)) {
                            if (x - y).abs() > 1e-2 * (unit + x.abs()) {
                                r.fail(format!("linear:{}:backends", sys.desc), format!("[solver-backend] system ({}): VM gives {x}, JIT gives {y} for the same free parameter", sys.desc), json!({"contract":"solver_linear"}));
                                break;
                            }
                        }
                    }
                }
            }
        }
      }
    }
    // no free parameter at all: the result is the empty map
    for backend in 0..2 {
        r.cases += 1;
        let a = Var::new();
        let mut params = HashMap::new();
        params.insert(a, Parameter::Fixed(2.0));
        let trees = vec![Tree::from(a) - 2.0];
        match solve_on(backend, &trees, &params) {
            Ok(sol) if sol.is_empty() => {}
            Ok(sol) => r.fail(format!("all-fixed:{backend}"), format!("[solver-all-fixed] every parameter is fixed but the result has {} entries", sol.len()), json!({"contract":"solver_linear"})),
            Err(e) => r.fail(format!("all-fixed:{backend}"), format!("[solver-all-fixed] every parameter is fixed (one equation `a - 2`, a fixed at 2): solve does not return the empty map: {e}"), json!({"contract":"solver_linear"})),
        }
    }
    // parameters that occur in no equation: a free one is still returned (exactly the free parameters), a fixed one is not
    for backend in 0..2 {
        for n in [1usize, 2, 4, 5] {
            for start_at_solution in [false, true] {
                r.cases += 1;
                let mut sys = linear_system(n, 1, start_at_solution, 1.0);
                let (spare_free, spare_fixed) = (Var::new(), Var::new());
                sys.params.insert(spare_free, Parameter::Free(0.75));
                sys.params.insert(spare_fixed, Parameter::Fixed(-1.5));
                let bn = if backend == 0 { "vm" } else { "jit" };
                match solve_on(backend, &sys.trees, &sys.params) {
                    Err(e) => r.fail(format!("spare:{}:{bn}:start{}", sys.desc, start_at_solution as u8), format!("[solver-spare] system ({}) plus one free and one fixed parameter that occur in no equation, on {bn}: {e}", sys.desc), json!({"contract":"solver_linear"})),
                    Ok(sol) => {
                        let mut bad: Vec<String> = vec![];
                        if !sol.contains_key(&spare_free) { bad.push("the free parameter that occurs in no equation is missing from the result".into()); }
                        if sol.contains_key(&spare_fixed) { bad.push("the fixed parameter that occurs in no equation is in the result".into()); }
                        if sol.len() != sys.free.len() + 1 { bad.push(format!("returned {} values for {} free parameters", sol.len(), sys.free.len() + 1)); }
                        for (i, (v, w)) in sys.free.iter().enumerate() {
                            match sol.get(v) {
                                None => bad.push(format!("free parameter #{i} missing")),
                                Some(g) if ((*g as f64) - w).abs() > 1e-2 * (1.0 + w.abs()) => bad.push(format!("free parameter #{i}: got {g}, unique solution {w}")),
                                _ => {}
                            }
                        }
                        if !bad.is_empty() {
                            r.fail(format!("spare:{}:{bn}:start{}", sys.desc, start_at_solution as u8), format!("[solver-spare] system ({}) plus one free and one fixed parameter that occur in no equation, on {bn}: {}", sys.desc, bad.join("; ")), json!({"contract":"solver_linear"}));
                        }
                    }
                }
            }
        }
    }
    std::panic::set_hook(prev);
    r.space = format!("diagonally dominant consistent linear systems with 1..={max_n} variables (integer target values in -4..=4) x {seeds} seeds x unknowns of magnitude 1 and (n <= 8) 2^-27 (coefficients ~1e8, right-hand sides O(1)) and 2^13: a random third of the variables fixed at their target value (never all), one equation per free variable over a sparse random subset of up to 4 variables in random term order, free parameters started off the solution and exactly at it, x {{VM, JIT}}: exactly the free parameters are returned, each within 1e-2 relative of the unique solution, bit-identical to the start when the start satisfies every equation exactly, VM and JIT within 1e-2 of each other; plus the system whose only parameter is fixed (expected: empty result); plus systems (n = 1, 2, 4, 5) with one extra free and one extra fixed parameter that occur in no equation (expected: the free one is in the result, the fixed one is not, the others are solved)");
    r.distinct = r.cases;
    r.exhaustive = false;
    r.sample(json!({"n":5,"fixed":[0,1,0,0,1],"equation":"3*v2 + 1*v0 - 0.5*v4 - rhs"}));
    r
}

pub fn replay_linear(v: &serde_json::Value) -> bool {
    let _ = v;
    !solver_linear(false).failures.is_empty()
}
