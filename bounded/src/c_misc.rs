use crate::common::*;

/// R-revcollect model check: for every u8 `n`, the std expression `(0..n).rev().collect()` equals the
/// sequence `k -> n-1-k` that the Verus unit's helper `rev_range_u8_collect` is proved to return.
/// The space (256 values) is enumerated completely.
pub fn rev_range() -> Report {
    let mut r = Report::new("rev_range");
    r.space = "all n in 0..=255 for `(0..n as u8).rev().collect::<Vec<u8>>()` and `.extend((0..n).rev())`".into();
    for n in 0u16..=255 {
        let n = n as u8;
        let got: Vec<u8> = (0..n).rev().collect();
        let want: Vec<u8> = (0..n as usize).map(|k| (n as usize - 1 - k) as u8).collect();
        let mut ext = vec![7u8, 9];
        ext.extend((0..n).rev());
        let mut want_ext = vec![7u8, 9];
        want_ext.extend(want.iter());
        r.cases += 1;
        if got != want || ext != want_ext {
            r.fail(format!("n={n}"), "std iterator chain differs from rev_seq model".into(), serde_json::json!({"contract": "rev_range", "n": n}));
        }
    }
    r.distinct = r.cases;
    r.exhaustive = true;
    r.sample(serde_json::json!({"n": 3, "value": [2, 1, 0]}));
    r
}
