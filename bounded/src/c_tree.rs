//! C12, the clauses other than the constructor clause (bounded only; nothing here is proved):
//!   (a) structurally equal trees hash equally, however their subtrees are shared (`Arc` sharing is not structure);
//!   (b) building the same expression twice yields the same node; importing a tree yields the node the constructors build;
//!       importing an exported node yields the original node;
//!   (c) one long-lived context, many short-lived trees (each dropped before the next is built): every import still
//!       means the tree that was imported (addresses of dropped trees are reused by the allocator);
//!   (d) very deep expressions can be built, compared, hashed, imported and dropped on a small stack.
use crate::common::*;
use fidget_core::context::{BinaryOpcode as B, Context, Node, Tree, UnaryOpcode as U};
use serde_json::json;
use std::collections::HashMap;
use std::hash::{Hash, Hasher};

#[derive(Clone, Debug, PartialEq)]
enum E {
    X,
    Y,
    Z,
    C(f32),
    Un(U, Box<E>),
    Bin(B, Box<E>, Box<E>),
}

const UNS: [U; 6] = [U::Neg, U::Abs, U::Sin, U::Cos, U::Sqrt, U::Square];
const BINS: [B; 6] = [B::Add, B::Sub, B::Mul, B::Min, B::Max, B::Div];

fn gen_e(rng: &mut Rng, depth: usize, pool: &mut Vec<E>) -> E {
    // reuse an earlier subexpression often: that is what makes sharing matter
    if !pool.is_empty() && rng.below(3) == 0 {
        return pool[rng.below(pool.len())].clone();
    }
    let e = if depth == 0 || rng.below(5) == 0 {
        match rng.below(5) {
            0 => E::X,
            1 => E::Y,
            2 => E::Z,
            _ => E::C([0.5, 1.5, 2.0, -3.0, 7.25, 0.125][rng.below(6)]),
        }
    } else if rng.below(3) == 0 {
        E::Un(UNS[rng.below(UNS.len())], Box::new(gen_e(rng, depth - 1, pool)))
    } else {
        E::Bin(BINS[rng.below(BINS.len())], Box::new(gen_e(rng, depth - 1, pool)), Box::new(gen_e(rng, depth - 1, pool)))
    };
    if !matches!(e, E::X | E::Y | E::Z | E::C(_)) {
        pool.push(e.clone());
    }
    e
}

fn key(e: &E) -> String {
    format!("{e:?}")
}

fn un_tree(op: U, a: Tree) -> Tree {
    match op {
        U::Neg => a.neg(),
        U::Abs => a.abs(),
        U::Sin => a.sin(),
        U::Cos => a.cos(),
        U::Sqrt => a.sqrt(),
        U::Square => a.square(),
        _ => unreachable!(),
    }
}
fn bin_tree(op: B, a: Tree, b: Tree) -> Tree {
    match op {
        B::Add => a + b,
        B::Sub => a - b,
        B::Mul => a * b,
        B::Div => a / b,
        B::Min => a.min(b),
        B::Max => a.max(b),
        _ => unreachable!(),
    }
}

/// every occurrence of a subexpression is a fresh allocation
fn tree_unshared(e: &E) -> Tree {
    match e {
        E::X => Tree::x(),
        E::Y => Tree::y(),
        E::Z => Tree::z(),
        E::C(c) => Tree::constant(*c),
        E::Un(op, a) => un_tree(*op, tree_unshared(a)),
        E::Bin(op, a, b) => bin_tree(*op, tree_unshared(a), tree_unshared(b)),
    }
}

/// equal subexpressions are one allocation, cloned
fn tree_shared(e: &E, memo: &mut HashMap<String, Tree>) -> Tree {
    let k = key(e);
    if let Some(t) = memo.get(&k) {
        return t.clone();
    }
    let t = match e {
        E::X => Tree::x(),
        E::Y => Tree::y(),
        E::Z => Tree::z(),
        E::C(c) => Tree::constant(*c),
        E::Un(op, a) => un_tree(*op, tree_shared(a, memo)),
        E::Bin(op, a, b) => {
            let (ta, tb) = (tree_shared(a, memo), tree_shared(b, memo));
            bin_tree(*op, ta, tb)
        }
    };
    memo.insert(k, t.clone());
    t
}

fn node_of(ctx: &mut Context, e: &E) -> Node {
    match e {
        E::X => ctx.x(),
        E::Y => ctx.y(),
        E::Z => ctx.z(),
        E::C(c) => ctx.constant(*c),
        E::Un(op, a) => {
            let n = node_of(ctx, a);
            match op {
                U::Neg => ctx.neg(n),
                U::Abs => ctx.abs(n),
                U::Sin => ctx.sin(n),
                U::Cos => ctx.cos(n),
                U::Sqrt => ctx.sqrt(n),
                U::Square => ctx.square(n),
                _ => unreachable!(),
            }
            .unwrap()
        }
        E::Bin(op, a, b) => {
            let (na, nb) = (node_of(ctx, a), node_of(ctx, b));
            match op {
                B::Add => ctx.add(na, nb),
                B::Sub => ctx.sub(na, nb),
                B::Mul => ctx.mul(na, nb),
                B::Div => ctx.div(na, nb),
                B::Min => ctx.min(na, nb),
                B::Max => ctx.max(na, nb),
                _ => unreachable!(),
            }
            .unwrap()
        }
    }
}

/// operation-by-operation f32 meaning of the un-rewritten expression
fn value(e: &E, p: [f32; 3]) -> f32 {
    match e {
        E::X => p[0],
        E::Y => p[1],
        E::Z => p[2],
        E::C(c) => *c,
        E::Un(op, a) => {
            let a = value(a, p);
            match op {
                U::Neg => -a,
                U::Abs => a.abs(),
                U::Sin => a.sin(),
                U::Cos => a.cos(),
                U::Sqrt => a.sqrt(),
                U::Square => a * a,
                _ => unreachable!(),
            }
        }
        E::Bin(op, a, b) => {
            let (a, b) = (value(a, p), value(b, p));
            match op {
                B::Add => a + b,
                B::Sub => a - b,
                B::Mul => a * b,
                B::Div => a / b,
                B::Min => if a.is_nan() || b.is_nan() { f32::NAN } else if a < b { a } else { b },
                B::Max => if a.is_nan() || b.is_nan() { f32::NAN } else if a > b { a } else { b },
                _ => unreachable!(),
            }
        }
    }
}

/// every intermediate value finite (the property's hedge)
fn finite_throughout(e: &E, p: [f32; 3]) -> bool {
    let v = value(e, p);
    v.is_finite()
        && match e {
            E::Un(_, a) => finite_throughout(a, p),
            E::Bin(_, a, b) => finite_throughout(a, p) && finite_throughout(b, p),
            _ => true,
        }
}

fn h<T: Hash>(t: &T) -> u64 {
    let mut s = std::collections::hash_map::DefaultHasher::new();
    t.hash(&mut s);
    s.finish()
}

fn same(a: f32, b: f32) -> bool {
    a.to_bits() == b.to_bits() || (a == 0.0 && b == 0.0)
}

const PTS: [[f32; 3]; 4] = [[0.3, -1.25, 2.0], [-2.0, 0.5, 0.75], [1.0, 1.0, -1.0], [3.5, -0.125, 0.0]];

fn check_expr(i: usize, e: &E, ctx_long: &mut Context, r: &mut Report, seed: u64) {
    let rep = || json!({"contract":"tree_clauses","seed":seed,"index":i});
    // (a) hashing and equality do not see sharing
    let mut memo = HashMap::new();
    let (ts, tu) = (tree_shared(e, &mut memo), tree_unshared(e));
    r.cases += 1;
    if ts != tu {
        r.fail(format!("eq:{i}"), format!("[tree-eq] the shared and the unshared build of {} compare unequal", key(e)), rep());
    } else if h(&ts) != h(&tu) {
        r.fail(format!("hash-sharing:{i}"), format!("[tree-hash-sharing] structurally equal trees hash differently (shared vs unshared build) for {}", key(e)), rep());
    }
    let mut set = std::collections::HashSet::new();
    set.insert(ts.clone());
    if !set.contains(&tu) {
        r.fail(format!("hashset:{i}"), format!("[tree-hash-sharing] HashSet<Tree> lookup of an equal tree fails for {}", key(e)), rep());
    }
    // (b) deduplication, import, export
    let mut ctx = Context::new();
    let n1 = node_of(&mut ctx, e);
    let n2 = node_of(&mut ctx, e);
    r.cases += 1;
    if n1 != n2 {
        r.fail(format!("dedup:{i}"), format!("[dedup] building {} twice gives two nodes", key(e)), rep());
    }
    let (is, iu) = (ctx.import(&ts), ctx.import(&tu));
    if is != n1 || iu != n1 {
        r.fail(format!("import:{i}"), format!("[import-node] importing the tree of {} does not give the node the constructors build (shared: {}, unshared: {})", key(e), is == n1, iu == n1), rep());
    }
    match ctx.export(n1) {
        Ok(t) => {
            if ctx.import(&t) != n1 {
                r.fail(format!("roundtrip:{i}"), format!("[export-import] import(export(n)) != n for {}", key(e)), rep());
            }
            if t == tu && h(&t) != h(&tu) {
                r.fail(format!("hash-export:{i}"), format!("[tree-hash-sharing] an exported tree and an equal hand-built tree hash differently for {}", key(e)), rep());
            }
        }
        Err(_) => r.fail(format!("export:{i}"), "[export-import] export of a valid node failed".into(), rep()),
    }
    // (c) the long-lived context: the tree is dropped before the next one is built
    r.cases += 1;
    let t = if i % 2 == 0 { ts } else { tu };
    let n = ctx_long.import(&t);
    drop(t);
    drop(memo);
    for p in PTS {
        if !finite_throughout(e, p) {
            continue;
        }
        let want = value(e, p);
        match ctx_long.eval_xyz(n, p[0], p[1], p[2]) {
            Ok(got) if same(got, want) => {}
            got => {
                r.fail(format!("long-lived:{i}"), format!("[import-long-lived] tree {i} ({}) imported into a context that has seen {i} earlier, dropped trees evaluates to {got:?} at {p:?}, operation by operation it is {want}", key(e)), rep());
                break;
            }
        }
    }
}

fn deep(r: &mut Report) {
    // (d) on a 192 KiB stack: 300 000 nested operations built, compared, hashed, imported, dropped
    let res = std::thread::Builder::new().stack_size(192 * 1024).spawn(|| {
        let n = 300_000;
        let build = || {
            let mut t = Tree::x();
            for i in 0..n {
                t = if i % 2 == 0 { t + 1.0 } else { t.sin() };
            }
            t
        };
        let (a, b) = (build(), build());
        let eq = a == b;
        let hs = h(&a) == h(&b);
        let mut ctx = Context::new();
        let node = ctx.import(&a);
        // (evaluation through Context::eval is recursive and is not among the operations the property lists)
        let ok = ctx.get_op(node).is_some();
        drop(a);
        drop(b);
        (eq, hs, ok)
    });
    r.cases += 1;
    match res.map(|h| h.join()) {
        Ok(Ok((true, true, true))) => {}
        Ok(Ok(v)) => r.fail("deep".into(), format!("[deep] deep trees: equal {} hash-equal {} imported {}", v.0, v.1, v.2), json!({"contract":"tree_clauses","deep":true})),
        _ => r.fail("deep".into(), "[deep] the thread working on a 300000-deep tree died".into(), json!({"contract":"tree_clauses","deep":true})),
    }
}

/// (a'): `==` on trees implies equal hashes also where `==` identifies different bit patterns (constants are compared as OrderedFloat:
/// 0.0 == -0.0, every NaN equals every NaN); the implication is checked, so the clause never demands that two trees be equal
fn eq_implies_hash(r: &mut Report, seed: u64) {
    let nan2 = f32::from_bits(0x7fc0_0001);
    let pairs: [(f32, f32); 4] = [(0.0, -0.0), (-0.0, 0.0), (f32::NAN, nan2), (-f32::NAN, f32::NAN)];
    let wrap: Vec<(&str, Box<dyn Fn(Tree) -> Tree>)> = vec![
        ("c", Box::new(|c| c)),
        ("x + c", Box::new(|c| Tree::x() + c)),
        ("c * y", Box::new(|c| c * Tree::y())),
        ("sin(max(z, c))", Box::new(|c| Tree::z().max(c).sin())),
        ("(x - c) / (y + c)", Box::new(|c| (Tree::x() - c.clone()) / (Tree::y() + c))),
    ];
    for (a, b) in pairs {
        for (name, f) in &wrap {
            r.cases += 1;
            let (ta, tb) = (f(Tree::constant(a)), f(Tree::constant(b)));
            if ta == tb {
                let mut set = std::collections::HashSet::new();
                set.insert(ta.clone());
                if h(&ta) != h(&tb) || !set.contains(&tb) {
                    r.fail(format!("eq-hash:{name}:{:#x}:{:#x}", a.to_bits(), b.to_bits()), format!("[tree-eq-hash] the trees `{name}` with c = {a:?} ({:#x}) and c = {b:?} ({:#x}) compare equal but hash differently (or a HashSet<Tree> lookup of the one misses the other)", a.to_bits(), b.to_bits()), json!({"contract":"tree_clauses","seed":seed,"eq_hash":true}));
                }
            }
        }
    }
    // the same for the matrix of an affine remap
    for (a, b) in [(0.0f32, -0.0f32), (-0.0, 0.0)] {
        r.cases += 1;
        let m = |z: f32| nalgebra::Affine3::from_matrix_unchecked(nalgebra::Matrix4::new(1.0, z, 0.0, 0.5, 0.0, 2.0, z, 0.0, 0.0, 0.0, 1.0, z, 0.0, 0.0, 0.0, 1.0));
        let base = Tree::x() + Tree::y() * Tree::z();
        let (ta, tb) = (base.remap_affine(m(a)), base.remap_affine(m(b)));
        if ta == tb && h(&ta) != h(&tb) {
            r.fail(format!("eq-hash:affine:{:#x}", a.to_bits()), format!("[tree-eq-hash] two affine remaps of the same tree whose matrices differ only in the sign of zero entries ({a:?} vs {b:?}) compare equal but hash differently"), json!({"contract":"tree_clauses","seed":seed,"eq_hash":true}));
        }
    }
}

pub fn tree_clauses(thorough: bool, seed: u64) -> Report {
    let mut r = Report::new("tree_clauses");
    let count = if thorough { 6000 } else { 1200 };
    let mut rng = Rng::new(seed.wrapping_mul(0x9E37_79B9).wrapping_add(0xC12));
    let mut ctx_long = Context::new();
    for i in 0..count {
        let mut pool = vec![];
        let e = gen_e(&mut rng, 2 + i % 4, &mut pool);
        check_expr(i, &e, &mut ctx_long, &mut r, seed);
    }
    // the shape of the demonstration of seeded change C12-m6, kept as a fixed witness: one shared subtree, used twice
    for i in 0..200 {
        let k = 2.0 + i as f32;
        let s = E::Bin(B::Mul, Box::new(E::X), Box::new(E::C(k)));
        let e = E::Bin(B::Add, Box::new(s.clone()), Box::new(E::Un(U::Sin, Box::new(s))));
        check_expr(count + i, &e, &mut ctx_long, &mut r, seed);
    }
    eq_implies_hash(&mut r, seed);
    deep(&mut r);
    r.distinct = r.cases;
    r.space = format!("{count} seeded random expressions (depth 2..=5 over x, y, z, 6 constants, 6 unary and 6 binary operations, subexpressions reused with probability 1/3) + 200 fixed witnesses; per expression: shared vs unshared vs exported tree (==, Hash, HashSet lookup), constructor dedup, import == constructor node, import(export(n)) == n, import into ONE long-lived context after the previous tree was dropped and evaluation at 4 points against an operation-by-operation f32 evaluator; 22 pairs of trees that differ only in the bit pattern of a constant or affine-matrix entry that `==` identifies (0.0 / -0.0, two NaNs): if they compare equal they must hash equally and find each other in a HashSet; one 300000-deep chain on a 192 KiB stack");
    r
}

pub fn replay(v: &serde_json::Value) -> bool {
    if v["deep"].as_bool().unwrap_or(false) {
        let mut r = Report::new("tree_clauses");
        deep(&mut r);
        println!("{:?}", r.failures);
        return r.failures.is_empty();
    }
    // the long-lived context makes a failure depend on the whole prefix: re-run the sequence up to the recorded index
    let seed = v["seed"].as_u64().unwrap_or(0);
    let r = tree_clauses(false, seed);
    for f in &r.failures {
        println!("{} | {}", f["signature"], f["what"]);
    }
    r.failures.is_empty()
}
