//! C05, symbolic-derivative clause (bounded): `Context::deriv` of op(g, h) for every opcode, with inner functions whose own
//! derivatives are neither 0 nor 1 (so a missing chain-rule factor shows), evaluates to the same numbers as the gradient
//! evaluator on the same expression (whose per-operation rules are proved in unit `grad`), within a tolerance.
use crate::common::*;
use fidget_core::context::{BinaryOpcode, Context, Node, UnaryOpcode};
use fidget_core::eval::{BulkEvaluator, Function, MathFunction};
use fidget_core::types::Grad;
use fidget_core::var::Var;
use fidget_core::vm::VmFunction;
use serde_json::json;

fn close(a: f32, b: f32) -> bool {
    if !a.is_finite() || !b.is_finite() { return true; }
    let (a, b) = (a as f64, b as f64);
    (a - b).abs() <= 1e-3 + 2e-3 * a.abs().max(b.abs())
}

pub fn deriv_rules(thorough: bool) -> Report {
    let mut r = Report::new("deriv_rules");
    let uns = [UnaryOpcode::Neg, UnaryOpcode::Abs, UnaryOpcode::Recip, UnaryOpcode::Sqrt, UnaryOpcode::Square, UnaryOpcode::Floor, UnaryOpcode::Ceil, UnaryOpcode::Round,
               UnaryOpcode::Sin, UnaryOpcode::Cos, UnaryOpcode::Tan, UnaryOpcode::Asin, UnaryOpcode::Acos, UnaryOpcode::Atan, UnaryOpcode::Exp, UnaryOpcode::Ln, UnaryOpcode::Not];
    let bins = [BinaryOpcode::Add, BinaryOpcode::Sub, BinaryOpcode::Mul, BinaryOpcode::Div, BinaryOpcode::Atan, BinaryOpcode::Min, BinaryOpcode::Max, BinaryOpcode::Compare,
                BinaryOpcode::Mod, BinaryOpcode::And, BinaryOpcode::Or];
    let pts: Vec<(f32, f32, f32)> = if thorough {
        vec![(0.3, 0.2, 0.1), (-0.4, 0.7, 0.25), (0.15, -0.3, 0.6), (1.3, 0.4, -0.2), (-0.05, -0.6, 0.35), (0.45, 0.45, 0.8), (2.1, -1.2, 0.3)]
    } else {
        vec![(0.3, 0.2, 0.1), (-0.4, 0.7, 0.25), (0.15, -0.3, 0.6), (1.3, 0.4, -0.2)]
    };
    // inner functions: g = 0.6*x*y + 0.5*z + 0.1 ; h = x - 2*y + 0.25*z*z + 0.7  (partial derivatives are neither 0 nor 1 in general)
    let inner = |ctx: &mut Context| -> (Node, Node) {
        let (x, y, z) = (ctx.x(), ctx.y(), ctx.z());
        let xy = ctx.mul(x, y).unwrap(); let t = ctx.mul(xy, 0.6).unwrap(); let hz = ctx.mul(z, 0.5).unwrap(); let s = ctx.add(t, hz).unwrap(); let g = ctx.add(s, 0.1).unwrap();
        let y2 = ctx.mul(y, 2.0).unwrap(); let d = ctx.sub(x, y2).unwrap(); let zz = ctx.square(z).unwrap(); let q = ctx.mul(zz, 0.25).unwrap(); let e = ctx.add(d, q).unwrap(); let h = ctx.add(e, 0.7).unwrap();
        (g, h)
    };
    let mut cases: Vec<(String, Box<dyn Fn(&mut Context, Node, Node) -> Node>)> = vec![];
    for op in uns {
        cases.push((format!("{op:?}(g)"), Box::new(move |c: &mut Context, g: Node, _h: Node| match op {
            UnaryOpcode::Neg => c.neg(g), UnaryOpcode::Abs => c.abs(g), UnaryOpcode::Recip => c.recip(g), UnaryOpcode::Sqrt => c.sqrt(g), UnaryOpcode::Square => c.square(g),
            UnaryOpcode::Floor => c.floor(g), UnaryOpcode::Ceil => c.ceil(g), UnaryOpcode::Round => c.round(g), UnaryOpcode::Sin => c.sin(g), UnaryOpcode::Cos => c.cos(g),
            UnaryOpcode::Tan => c.tan(g), UnaryOpcode::Asin => c.asin(g), UnaryOpcode::Acos => c.acos(g), UnaryOpcode::Atan => c.atan(g), UnaryOpcode::Exp => c.exp(g),
            UnaryOpcode::Ln => c.ln(g), UnaryOpcode::Not => c.not(g), UnaryOpcode::Rand => c.rand(g),
        }.unwrap())));
    }
    for op in bins {
        cases.push((format!("{op:?}(g, h)"), Box::new(move |c: &mut Context, g: Node, h: Node| match op {
            BinaryOpcode::Add => c.add(g, h), BinaryOpcode::Sub => c.sub(g, h), BinaryOpcode::Mul => c.mul(g, h), BinaryOpcode::Div => c.div(g, h), BinaryOpcode::Atan => c.atan2(g, h),
            BinaryOpcode::Min => c.min(g, h), BinaryOpcode::Max => c.max(g, h), BinaryOpcode::Compare => c.compare(g, h), BinaryOpcode::Mod => c.modulo(g, h),
            BinaryOpcode::And => c.and(g, h), BinaryOpcode::Or => c.or(g, h), BinaryOpcode::Mix => c.mix(g, h),
        }.unwrap())));
        cases.push((format!("{op:?}(h, g)"), Box::new(move |c: &mut Context, g: Node, h: Node| match op {
            BinaryOpcode::Add => c.add(h, g), BinaryOpcode::Sub => c.sub(h, g), BinaryOpcode::Mul => c.mul(h, g), BinaryOpcode::Div => c.div(h, g), BinaryOpcode::Atan => c.atan2(h, g),
            BinaryOpcode::Min => c.min(h, g), BinaryOpcode::Max => c.max(h, g), BinaryOpcode::Compare => c.compare(h, g), BinaryOpcode::Mod => c.modulo(h, g),
            BinaryOpcode::And => c.and(h, g), BinaryOpcode::Or => c.or(h, g), BinaryOpcode::Mix => c.mix(h, g),
        }.unwrap())));
    }
    for (name, mk) in &cases {
        let mut ctx = Context::new();
        let (g, h) = inner(&mut ctx);
        let f = mk(&mut ctx, g, h);
        let d = [ctx.deriv(f, Var::X).unwrap(), ctx.deriv(f, Var::Y).unwrap(), ctx.deriv(f, Var::Z).unwrap()];
        let func = VmFunction::new(&ctx, &[f]).unwrap();
        let tape = func.grad_slice_tape(Default::default());
        let mut ev = VmFunction::new_grad_slice_eval();
        let vars = func.vars();
        for &(x, y, z) in &pts {
            r.cases += 1;
            // argument vector by variable identity
            let mut args: Vec<Vec<Grad>> = vec![vec![Grad::from(0.0)]; vars.len()];
            if let Some(i) = vars.get(&Var::X) { args[i] = vec![Grad::new(x, 1.0, 0.0, 0.0)]; }
            if let Some(i) = vars.get(&Var::Y) { args[i] = vec![Grad::new(y, 0.0, 1.0, 0.0)]; }
            if let Some(i) = vars.get(&Var::Z) { args[i] = vec![Grad::new(z, 0.0, 0.0, 1.0)]; }
            let gr = match ev.eval(&tape, &args) { Ok(o) => o[0][0], Err(e) => { r.fail(format!("{name}"), format!("[deriv] grad evaluator error {e:?}"), json!({"contract":"deriv_rules"})); continue; } };
            let want = [gr.dx, gr.dy, gr.dz];
            for k in 0..3 {
                let got = ctx.eval_xyz(d[k], x, y, z).unwrap();
                if !close(got, want[k]) {
                    r.fail(format!("{name}:d/d{}:{x},{y},{z}", ["x", "y", "z"][k]),
                           format!("[deriv:{name}] symbolic derivative d/d{} of {name} at ({x},{y},{z}) evaluates to {} but the gradient evaluator gives {}", ["x", "y", "z"][k], fmt_f(got), fmt_f(want[k])),
                           json!({"contract":"deriv_rules","case":name,"axis":k,"x":x.to_bits(),"y":y.to_bits(),"z":z.to_bits()}));
                }
            }
        }
    }
    r.space = format!("{} expressions op(g, h) / op(h, g) / op(g) for every unary and binary opcode except rand/mix-free ones listed, with g = 0.6xy + 0.5z + 0.1 and h = x - 2y + 0.25z^2 + 0.7, x {} points: Context::deriv w.r.t. x, y, z evaluated by Context::eval vs the gradient evaluator (unit seeds) on the same expression, tolerance 1e-3 abs + 2e-3 rel, non-finite values skipped", cases.len(), pts.len());
    r.distinct = r.cases;
    r.exhaustive = true;
    r.sample(json!({"case":"Tan(g)","axis":"x","expected":"(1 + tan(g)^2) * dg/dx"}));
    r
}

pub fn replay(v: &serde_json::Value) -> bool {
    let _ = v;
    !deriv_rules(false).failures.is_empty()
}
