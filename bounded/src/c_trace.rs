//! C20 / C04 (bounded legs): traces are well-formed records of the evaluation (`trace_vm`), and the
//! native tracing evaluators return exactly the interpreter's trace (`jit_trace`).
//!
//! Tapes are built through the public API (`Context` + `VmFunction::new` / `JitFunction::new`), so SSA
//! and register tapes are consistent; the clause list the oracle works from is read off the compiled
//! SSA tape (`verif_ssa`), whatever the context folded or reordered.
use crate::common::*;
use crate::helpers::*;
use fidget_core::Context;
use fidget_core::context::{BinaryOpcode as B, Node};
use fidget_core::eval::{Function, MathFunction, Tape, TracingEvaluator};
use fidget_core::types::Interval;
use fidget_core::vm::{Choice, GenericVmFunction, VmFunction};
use fidget_jit::JitFunction;
use serde_json::json;

const OPS: [B; 4] = [B::Min, B::Max, B::And, B::Or];

#[derive(Copy, Clone, Debug, PartialEq)]
pub enum Rhs {
    Var,
    Imm(f32),
}

#[derive(Copy, Clone, Debug, PartialEq)]
pub enum Shape {
    /// c_k(..c_2(c_1(x, r1), r2).., r_k): every later clause consumes the previous result as lhs
    Chain,
    /// c_2(r2, c_1(x, r1)): the earlier result is the rhs (r2 is always a variable); 3 clauses: c_3(r3, c_2(r2, c_1(x, r1)))
    ChainRhs,
    /// c_3(c_1(x, r1), c_2(v, r2)): two independent clauses feed a third (r3 unused)
    Tree,
}

#[derive(Clone, Debug)]
pub struct Spec {
    pub ops: Vec<B>,
    pub rhs: Vec<Rhs>,
    pub shape: Shape,
    /// also export the first clause as output 0 (the root is then output 1)
    pub two_outputs: bool,
}

impl Spec {
    pub fn label(&self) -> String {
        format!("{:?}{:?}{:?}{}", self.shape, self.ops, self.rhs, if self.two_outputs { "+out(c1)" } else { "" })
    }
    pub fn to_json(&self) -> serde_json::Value {
        json!({
            "ops": self.ops.iter().map(|o| format!("{o:?}")).collect::<Vec<_>>(),
            "rhs": self.rhs.iter().map(|r| match r { Rhs::Var => json!("var"), Rhs::Imm(c) => json!(c.to_bits()) }).collect::<Vec<_>>(),
            "shape": format!("{:?}", self.shape),
            "two_outputs": self.two_outputs,
        })
    }
    pub fn from_json(v: &serde_json::Value) -> Option<Spec> {
        let ops = v["ops"].as_array()?.iter().map(|o| match o.as_str() { Some("Min") => B::Min, Some("Max") => B::Max, Some("And") => B::And, _ => B::Or }).collect();
        let rhs = v["rhs"].as_array()?.iter().map(|r| if r.is_string() { Rhs::Var } else { Rhs::Imm(f32::from_bits(r.as_u64().unwrap_or(0) as u32)) }).collect();
        let shape = match v["shape"].as_str()? { "Chain" => Shape::Chain, "ChainRhs" => Shape::ChainRhs, _ => Shape::Tree };
        Some(Spec { ops, rhs, shape, two_outputs: v["two_outputs"].as_bool().unwrap_or(false) })
    }
    /// builds the expression; returns (context, roots, number of variables used)
    pub fn build(&self) -> (Context, Vec<Node>, usize) {
        let mut ctx = Context::new();
        let mut n_vars = 0usize;
        let mut fresh = |ctx: &mut Context| {
            let v = ctx.var(var_n(n_vars));
            n_vars += 1;
            v
        };
        let apply = |ctx: &mut Context, op: B, a: Node, b: Node| match op {
            B::Min => ctx.min(a, b),
            B::Max => ctx.max(a, b),
            B::And => ctx.and(a, b),
            _ => ctx.or(a, b),
        }
        .unwrap();
        let x = fresh(&mut ctx);
        let rhs_node = |ctx: &mut Context, fresh: &mut dyn FnMut(&mut Context) -> Node, r: Rhs| match r {
            Rhs::Var => fresh(ctx),
            Rhs::Imm(c) => ctx.constant(c),
        };
        let r1 = rhs_node(&mut ctx, &mut fresh, self.rhs[0]);
        let c1 = apply(&mut ctx, self.ops[0], x, r1);
        let mut root = c1;
        match self.shape {
            Shape::Chain => {
                for k in 1..self.ops.len() {
                    let r = rhs_node(&mut ctx, &mut fresh, self.rhs[k]);
                    root = apply(&mut ctx, self.ops[k], root, r);
                }
            }
            Shape::ChainRhs => {
                for k in 1..self.ops.len() {
                    let l = fresh(&mut ctx);
                    root = apply(&mut ctx, self.ops[k], l, root);
                }
            }
            Shape::Tree => {
                let v = fresh(&mut ctx);
                let r2 = rhs_node(&mut ctx, &mut fresh, self.rhs[1]);
                let c2 = apply(&mut ctx, self.ops[1], v, r2);
                root = apply(&mut ctx, self.ops[2], c1, c2);
            }
        }
        let roots = if self.two_outputs { vec![c1, root] } else { vec![root] };
        (ctx, roots, n_vars)
    }
}

fn rhs_forms(k: usize) -> Vec<Rhs> {
    // immediates that the context does not fold away for any of the four ops (or(x, 0) folds to x)
    match k {
        0 => vec![Rhs::Var, Rhs::Imm(1.0), Rhs::Imm(0.0)],
        1 => vec![Rhs::Var, Rhs::Imm(-2.5), Rhs::Imm(0.0)],
        _ => vec![Rhs::Var, Rhs::Imm(0.5), Rhs::Imm(-0.0)],
    }
}

/// the family of tapes: (spec, operand grid index) with 0 = full grid, 1 = reduced grid
pub fn family(thorough: bool) -> Vec<(Spec, usize)> {
    let mut v = vec![];
    let g = grid(thorough);
    // 1 clause: every op x (variable | every grid immediate)
    for &o in &OPS {
        v.push((Spec { ops: vec![o], rhs: vec![Rhs::Var], shape: Shape::Chain, two_outputs: false }, 0));
        for &c in &g {
            v.push((Spec { ops: vec![o], rhs: vec![Rhs::Imm(c)], shape: Shape::Chain, two_outputs: false }, 0));
        }
    }
    // 2 clauses
    for &o1 in &OPS {
        for &o2 in &OPS {
            for r1 in rhs_forms(0) {
                for r2 in rhs_forms(1) {
                    v.push((Spec { ops: vec![o1, o2], rhs: vec![r1, r2], shape: Shape::Chain, two_outputs: false }, 0));
                    v.push((Spec { ops: vec![o1, o2], rhs: vec![r1, r2], shape: Shape::Chain, two_outputs: true }, 1));
                }
                v.push((Spec { ops: vec![o1, o2], rhs: vec![r1, Rhs::Var], shape: Shape::ChainRhs, two_outputs: false }, 0));
            }
        }
    }
    // 3 clauses
    for &o1 in &OPS {
        for &o2 in &OPS {
            for &o3 in &OPS {
                for r1 in rhs_forms(0) {
                    for r2 in rhs_forms(1) {
                        for r3 in rhs_forms(2) {
                            v.push((Spec { ops: vec![o1, o2, o3], rhs: vec![r1, r2, r3], shape: Shape::Chain, two_outputs: false }, 1));
                        }
                        v.push((Spec { ops: vec![o1, o2, o3], rhs: vec![r1, r2, Rhs::Var], shape: Shape::Tree, two_outputs: false }, 1));
                    }
                    v.push((Spec { ops: vec![o1, o2, o3], rhs: vec![r1, Rhs::Var, Rhs::Var], shape: Shape::ChainRhs, two_outputs: false }, 1));
                }
            }
        }
    }
    v
}

const REDUCED: [f32; 7] = [f32::NAN, 0.0, -0.0, 1.0, -2.5, f32::INFINITY, 0.5];

fn point_grid(which: usize, thorough: bool) -> Vec<f32> {
    if which == 0 {
        grid(thorough)
    } else if thorough {
        let mut v = REDUCED.to_vec();
        v.extend_from_slice(&[-1.0, f32::NEG_INFINITY, 1.0e-40, 3.0]);
        v
    } else {
        REDUCED.to_vec()
    }
}

fn interval_operands(which: usize, thorough: bool) -> Vec<Interval> {
    if which == 0 {
        let vals: Vec<f32> = if thorough { vec![0.0, -0.0, 1.0, -1.0, 0.5, -2.5, 3.0, f32::INFINITY, f32::NEG_INFINITY, 1.0e-40] } else { vec![0.0, -0.0, 1.0, 0.5, -2.5, f32::INFINITY, f32::NEG_INFINITY] };
        interval_grid(&vals)
    } else {
        let n = f32::NAN;
        let mut v = vec![Interval::from(n), Interval::new(0.0, 0.0), Interval::new(-0.0, 0.0), Interval::new(1.0, 1.0), Interval::new(-2.5, 1.0), Interval::new(0.0, 1.0), Interval::new(-2.5, -0.0), Interval::new(0.5, f32::INFINITY)];
        if thorough {
            v.extend([Interval::new(-2.5, -2.5), Interval::new(f32::NEG_INFINITY, 0.5), Interval::new(0.5, 0.5), Interval::new(-0.0, -0.0)]);
        }
        v
    }
}

/// all tuples of `n` elements over `vals` (odometer order)
fn for_tuples<T: Copy>(vals: &[T], n: usize, mut f: impl FnMut(&[T])) {
    let mut idx = vec![0usize; n];
    let mut cur: Vec<T> = vec![vals[0]; n];
    loop {
        for k in 0..n {
            cur[k] = vals[idx[k]];
        }
        f(&cur);
        let mut k = 0;
        loop {
            if k == n {
                return;
            }
            idx[k] += 1;
            if idx[k] < vals.len() {
                break;
            }
            idx[k] = 0;
            k += 1;
        }
    }
}

fn check_trace(expected: &[Choice], got: Option<&[Choice]>, choice_count: usize) -> Option<String> {
    let any = expected.iter().any(|c| *c != Choice::Both);
    match got {
        None => {
            if any {
                Some(format!("no trace reported but clause choices are {expected:?}"))
            } else {
                None
            }
        }
        Some(t) => {
            if t.len() != choice_count {
                Some(format!("trace length {} != choice_count {choice_count}", t.len()))
            } else if t.iter().any(|c| *c == Choice::Unknown) {
                Some(format!("trace {t:?} contains Unknown (expected {expected:?})"))
            } else if t != expected {
                Some(format!("trace {t:?} != clause choices {expected:?}"))
            } else if !any {
                Some(format!("trace {t:?} reported although every clause is Both"))
            } else {
                None
            }
        }
    }
}

fn trace_vm_one<const N: usize>(spec: &Spec, which: usize, thorough: bool, r: &mut Report, classes: &Classes) {
    let (ctx, roots, n_vars) = spec.build();
    let f = match GenericVmFunction::<N>::new(&ctx, &roots) {
        Ok(f) => f,
        Err(e) => {
            r.fail(spec.label(), format!("VmFunction::new failed: {e:?}"), json!({"contract":"trace_vm","spec":spec.to_json()}));
            return;
        }
    };
    let ssa = f.data().verif_ssa().clone();
    let n_out = ssa.output_count;
    let n_clause = ssa.tape.iter().filter(|o| o.has_choice()).count();
    let pos = var_positions(&f, n_vars);
    let n_inputs = f.vars().len();
    let label = format!("N={N}:{}", spec.label());
    if f.choice_count() != n_clause || f.output_count() != roots.len() {
        classes.fail(r, "counts".into(), label.clone(), format!("choice_count {} vs {n_clause} choice ops; output_count {} vs {} roots", f.choice_count(), f.output_count(), roots.len()), json!({"contract":"trace_vm","spec":spec.to_json(),"N":N}));
        return;
    }
    let tape = f.point_tape(Default::default());
    if tape.output_count() != n_out || tape.vars().len() != n_inputs {
        classes.fail(r, "tape-getters".into(), label.clone(), "tape getters disagree with the function".into(), json!({"contract":"trace_vm","spec":spec.to_json(),"N":N}));
    }
    // point evaluator
    let mut pev = GenericVmFunction::<N>::new_point_eval();
    let pg = point_grid(which, thorough);
    for_tuples(&pg, n_vars, |vals| {
        r.cases += 1;
        let inp = place_inputs(&pos, n_inputs, vals, 0.0);
        let (outs, clauses) = ref_clauses_f32(&ssa.tape, n_out, &inp);
        let expected: Vec<Choice> = clauses.iter().map(|c| c.choice).collect();
        let bad = match pev.eval(&tape, &inp) {
            Err(e) => Some(format!("eval error {e:?}")),
            Ok((o, t)) => {
                if o.len() != n_out || (0..n_out).any(|k| !bits_eq(o[k], outs[k])) {
                    Some(format!("outputs {:?} != reference {:?}", o.iter().map(|v| fmt_f(*v)).collect::<Vec<_>>(), outs.iter().map(|v| fmt_f(*v)).collect::<Vec<_>>()))
                } else {
                    check_trace(&expected, t.map(|t| t.as_slice()), n_clause)
                }
            }
        };
        if let Some(what) = bad {
            let bits: Vec<u32> = vals.iter().map(|v| v.to_bits()).collect();
            classes.fail(r, format!("point:{:?}", spec.ops), format!("point:{label}:vars={:?}", vals.iter().map(|v| fmt_f(*v)).collect::<Vec<_>>()),
                         format!("{what}; clauses (op, lhs, rhs, choice) = {:?}", clauses.iter().map(|c| (c.op, c.lhs, c.rhs, c.choice)).collect::<Vec<_>>()),
                         json!({"contract":"trace_vm","spec":spec.to_json(),"N":N,"kind":"point","vars":bits}));
        }
    });
    // interval evaluator
    let itape = f.interval_tape(Default::default());
    let mut iev = GenericVmFunction::<N>::new_interval_eval();
    let ig = interval_operands(which, thorough);
    for_tuples(&ig, n_vars, |vals| {
        r.cases += 1;
        let inp = place_inputs(&pos, n_inputs, vals, Interval::from(0.0));
        let (outs, clauses) = match ref_clauses_interval(&ssa.tape, n_out, &inp) {
            Ok(v) => v,
            Err(e) => {
                classes.fail(r, "reference-machine".into(), label.clone(), e, json!({"contract":"trace_vm","spec":spec.to_json()}));
                return;
            }
        };
        let expected: Vec<Choice> = clauses.iter().map(|c| c.choice).collect();
        let res = std::panic::catch_unwind(std::panic::AssertUnwindSafe(|| iev.eval(&itape, &inp).map(|(o, t)| (o.to_vec(), t.map(|t| t.as_slice().to_vec())))));
        let bad = match res {
            Err(_) => {
                iev = GenericVmFunction::<N>::new_interval_eval();
                Some("interval evaluator panicked".to_string())
            }
            Ok(Err(e)) => Some(format!("eval error {e:?}")),
            Ok(Ok((o, t))) => {
                let same = |a: Interval, b: Interval| (a.has_nan() && b.has_nan()) || iv_bits(a) == iv_bits(b) || (a.lower() == b.lower() && a.upper() == b.upper());
                if o.len() != n_out || (0..n_out).any(|k| !same(o[k], outs[k])) {
                    Some(format!("outputs {o:?} != reference {outs:?}"))
                } else {
                    check_trace(&expected, t.as_deref(), n_clause)
                }
            }
        };
        if let Some(what) = bad {
            let bits: Vec<[u32; 2]> = vals.iter().map(|v| iv_bits(*v)).collect();
            classes.fail(r, format!("interval:{:?}", spec.ops), format!("interval:{label}:vars={vals:?}"),
                         format!("{what}; clauses (op, lhs, rhs, choice) = {:?}", clauses.iter().map(|c| (c.op, c.lhs, c.rhs, c.choice)).collect::<Vec<_>>()),
                         json!({"contract":"trace_vm","spec":spec.to_json(),"N":N,"kind":"interval","vars":bits}));
        }
    });
}

fn family_counts(fam: &[(Spec, usize)]) -> [usize; 3] {
    let mut c = [0usize; 3];
    for (s, _) in fam {
        c[s.ops.len() - 1] += 1;
    }
    c
}

pub fn trace_vm(thorough: bool) -> Report {
    let fam = family(thorough);
    let classes = Classes::default();
    let mut r = par_map(&fam, "trace_vm", |(spec, which), r| {
        trace_vm_one::<255>(spec, *which, thorough, r, &classes);
        trace_vm_one::<3>(spec, *which, thorough, r, &classes);
    });
    let c = family_counts(&fam);
    r.space = format!(
        "expressions built through Context with 1, 2 and 3 choice clauses, ops from {{min,max,and,or}} in every combination: {} one-clause tapes (rhs = a variable or each of the {} grid immediates), {} two-clause tapes (shapes c2(c1(x,r1),r2) and c2(v,c1(x,r1)); rhs forms variable / two immediates per position; with and without the first clause exported as a second output), {} three-clause tapes (shapes c3(c2(c1(x,r1),r2),r3), c3(c1(x,r1),c2(v,r2)), c3(w,c2(v,c1(x,r1)))); clause list taken from the compiled SSA tape (the context folds e.g. or(x,0) and min(a,a), so some specs compile to fewer clauses).  Each compiled with VmFunction (N=255) and GenericVmFunction<3> (forces Load/Store between clauses).  Points: every tuple of variable values over the {}-value grid (1- and 2-clause single-output tapes) or the {}-value reduced grid {{NaN,0,-0,1,-2.5,inf,0.5,..}} (others).  Boxes: every tuple over {} intervals (all [lo,hi] over {{0,-0,1,0.5,-2.5,+-inf,..}} + NaN interval) or over {} selected intervals (others).  Checked for VmPointEval and VmIntervalEval: outputs equal the reference run; a reported trace has length choice_count, no Unknown, entry k == f32::*_choice / Interval::*_choice of the k-th clause's operand values in the reference run; a trace is reported iff some clause is not Both; function/tape getters agree",
        c[0], grid(thorough).len(), c[1], c[2], point_grid(0, thorough).len(), point_grid(1, thorough).len(), interval_operands(0, thorough).len(), interval_operands(1, thorough).len());
    r.distinct = r.cases;
    r.exhaustive = true;
    classes.notes(&mut r);
    r.sample(json!({"expr":"max(min(x,y),z)","point":"(0.0,-0.0,NaN)","expected":"[Both, Both] -> no trace"}));
    r.sample(json!({"expr":"and(min(x,1.0), or(y,z))","box":"([0,0],[1,1],[NaN,NaN])"}));
    r
}

fn jit_trace_one(spec: &Spec, which: usize, thorough: bool, r: &mut Report, classes: &Classes) {
    let (ctx, roots, n_vars) = spec.build();
    let (vm, jit) = match (VmFunction::new(&ctx, &roots), JitFunction::new(&ctx, &roots)) {
        (Ok(v), Ok(j)) => (v, j),
        _ => {
            r.fail(spec.label(), "function construction failed".into(), json!({"contract":"jit_trace","spec":spec.to_json()}));
            return;
        }
    };
    let pos = var_positions(&vm, n_vars);
    let n_inputs = vm.vars().len();
    let label = spec.label();
    let jpos = var_positions(&jit, n_vars);
    if jpos != pos || jit.output_count() != vm.output_count() {
        classes.fail(r, "getters".into(), label.clone(), "JIT and VM functions disagree on vars / output_count".into(), json!({"contract":"jit_trace","spec":spec.to_json()}));
        return;
    }
    let (vt, jt) = (vm.point_tape(Default::default()), jit.point_tape(Default::default()));
    let (mut vev, mut jev) = (VmFunction::new_point_eval(), JitFunction::new_point_eval());
    for_tuples(&point_grid(which, thorough), n_vars, |vals| {
        r.cases += 1;
        let inp = place_inputs(&pos, n_inputs, vals, 0.0);
        let want = vev.eval(&vt, &inp).map(|(_, t)| t.map(|t| t.as_slice().to_vec())).map_err(|e| format!("{e:?}"));
        let got = jev.eval(&jt, &inp).map(|(_, t)| t.map(|t| t.as_slice().to_vec())).map_err(|e| format!("{e:?}"));
        if got != want {
            let bits: Vec<u32> = vals.iter().map(|v| v.to_bits()).collect();
            classes.fail(r, format!("point:{:?}", spec.ops), format!("point:{label}:vars={:?}", vals.iter().map(|v| fmt_f(*v)).collect::<Vec<_>>()),
                         format!("JIT trace {got:?} != VM trace {want:?}"), json!({"contract":"jit_trace","spec":spec.to_json(),"kind":"point","vars":bits}));
        }
    });
    let (vt, jt) = (vm.interval_tape(Default::default()), jit.interval_tape(Default::default()));
    let (mut vev, mut jev) = (VmFunction::new_interval_eval(), JitFunction::new_interval_eval());
    for_tuples(&interval_operands(which, thorough), n_vars, |vals| {
        r.cases += 1;
        let inp = place_inputs(&pos, n_inputs, vals, Interval::from(0.0));
        let want = vev.eval(&vt, &inp).map(|(_, t)| t.map(|t| t.as_slice().to_vec())).map_err(|e| format!("{e:?}"));
        let got = jev.eval(&jt, &inp).map(|(_, t)| t.map(|t| t.as_slice().to_vec())).map_err(|e| format!("{e:?}"));
        if got != want {
            let bits: Vec<[u32; 2]> = vals.iter().map(|v| iv_bits(*v)).collect();
            classes.fail(r, format!("interval:{:?}", spec.ops), format!("interval:{label}:vars={vals:?}"),
                         format!("JIT trace {got:?} != VM trace {want:?}"), json!({"contract":"jit_trace","spec":spec.to_json(),"kind":"interval","vars":bits}));
        }
    });
}

pub fn jit_trace(thorough: bool) -> Report {
    let fam = family(thorough);
    let classes = Classes::default();
    let mut r = par_map(&fam, "jit_trace", |(spec, which), r| jit_trace_one(spec, *which, thorough, r, &classes));
    let family_cases = r.cases;
    // part 2: hook-built one-clause tapes in every placement (register aliasing, spills), all immediates
    let table: Vec<OpCase> = op_table().into_iter().filter(|c| c.choice).collect();
    let g = grid(thorough);
    let ivals = interval_values(false);
    let ig = interval_grid(&ivals);
    let places = jit_placements(thorough);
    let part2 = par_map(&table, "jit_trace", |case, r| {
        let (mut vev, mut jev) = (JVm::new_point_eval(), JitFunction::new_point_eval());
        let (mut viv, mut jiv) = (JVm::new_interval_eval(), JitFunction::new_interval_eval());
        for &place in &places {
            for &imm in &imms_for(case, &g) {
                let (vm, jit, two_inputs) = one_op_pair(case, place, imm, 1);
                let (vt, jt) = (vm.point_tape(Default::default()), jit.point_tape(Default::default()));
                let ys: Vec<f32> = if two_inputs { g.clone() } else { vec![0.0] };
                for &x in &g {
                    for &y in &ys {
                        r.cases += 1;
                        let want = vev.eval(&vt, &[x, y]).map(|(_, t)| t.map(|t| t.as_slice().to_vec())).map_err(|e| format!("{e:?}"));
                        let got = jev.eval(&jt, &[x, y]).map(|(_, t)| t.map(|t| t.as_slice().to_vec())).map_err(|e| format!("{e:?}"));
                        if got != want {
                            classes.fail(r, format!("one-op point:{}", case.name), format!("{}:{place:?}:x={},y={},imm={}", case.name, fmt_f(x), fmt_f(y), fmt_f(imm)),
                                         format!("JIT trace {got:?} != VM trace {want:?}"), json!({"contract":"jit_trace","op":case.name,"place":format!("{place:?}"),"x":x.to_bits(),"y":y.to_bits(),"imm":imm.to_bits()}));
                        }
                    }
                }
                if !ivals.iter().any(|v| v.to_bits() == imm.to_bits()) && imm.to_bits() != 0 {
                    continue; // interval part: immediates from the interval value list only
                }
                let (vt, jt) = (vm.interval_tape(Default::default()), jit.interval_tape(Default::default()));
                let bs: Vec<Interval> = if two_inputs { ig.clone() } else { vec![Interval::from(0.0)] };
                for &ia in &ig {
                    for &ib in &bs {
                        r.cases += 1;
                        let want = viv.eval(&vt, &[ia, ib]).map(|(_, t)| t.map(|t| t.as_slice().to_vec())).map_err(|e| format!("{e:?}"));
                        let got = jiv.eval(&jt, &[ia, ib]).map(|(_, t)| t.map(|t| t.as_slice().to_vec())).map_err(|e| format!("{e:?}"));
                        if got != want {
                            classes.fail(r, format!("one-op interval:{}", case.name), format!("{}:{place:?}:A={ia:?},B={ib:?},imm={}", case.name, fmt_f(imm)),
                                         format!("JIT trace {got:?} != VM trace {want:?}"), json!({"contract":"jit_trace","op":case.name,"place":format!("{place:?}"),"a":iv_bits(ia),"b":iv_bits(ib),"imm":imm.to_bits()}));
                        }
                    }
                }
            }
        }
    });
    let part2_cases = part2.cases;
    merge(&mut r, part2);
    let c = family_counts(&fam);
    r.space = format!(
        "PART 1: the trace_vm family ({} / {} / {} tapes with 1 / 2 / 3 choice clauses, built through Context; JitFunction::new and VmFunction::new from the same nodes) x the same point tuples and box tuples as trace_vm: JitPointEval and JitIntervalEval return exactly the VM evaluator's result for the trace: the same None/Some and, if Some, the same entries ({family_cases} evaluations).  PART 2: hook-built one-clause tapes for the 8 choice RegOp variants x {} placements (registers < {JN}; out==lhs, out==rhs, all-equal, spilled) x every grid immediate ({} values) x every operand pair of the grid (point), and x all pairs of {} intervals for immediates that are in the interval value list (interval): same comparison on the same VmData ({part2_cases} evaluations)",
        c[0], c[1], c[2], places.len(), g.len(), ig.len());
    r.distinct = r.cases;
    r.exhaustive = true;
    classes.notes(&mut r);
    r.sample(json!({"expr":"max(min(x,y),z)","point":"(1.0, 0.5, -2.5)","trace":"[Right, Left]"}));
    r
}

pub fn replay(v: &serde_json::Value) -> bool {
    let contract = v["contract"].as_str().unwrap_or("");
    if v["op"].is_string() {
        // one-op JIT trace case
        let name = v["op"].as_str().unwrap_or("");
        let Some(case) = op_table().into_iter().find(|c| c.name == name) else { return false };
        let nums: Vec<u8> = v["place"].as_str().unwrap_or("").split(|c: char| !c.is_ascii_digit()).filter(|t| !t.is_empty()).filter_map(|t| t.parse().ok()).collect();
        let gp = |i: usize| nums.get(i).cloned().unwrap_or(0);
        let place = if v["place"].as_str().unwrap_or("").starts_with("Spilled") { Place::Spilled(gp(0), gp(1), gp(2)) } else { Place::Direct(gp(0), gp(1), gp(2)) };
        let f = |k: &str| f32::from_bits(v[k].as_u64().unwrap_or(0) as u32);
        let (vm, jit, _) = one_op_pair(&case, place, f("imm"), 1);
        if v["a"].is_array() {
            let (ia, ib) = (iv_from_bits(&v["a"]), iv_from_bits(&v["b"]));
            let want = JVm::new_interval_eval().eval(&vm.interval_tape(Default::default()), &[ia, ib]).map(|(o, t)| (o.to_vec(), t.map(|t| t.as_slice().to_vec()))).unwrap();
            let got = JitFunction::new_interval_eval().eval(&jit.interval_tape(Default::default()), &[ia, ib]).map(|(o, t)| (o.to_vec(), t.map(|t| t.as_slice().to_vec()))).unwrap();
            println!("replay {name} {place:?} A={ia:?} B={ib:?}: JIT {got:?} VM {want:?}");
            return got.1 == want.1;
        }
        let (x, y) = (f("x"), f("y"));
        let want = JVm::new_point_eval().eval(&vm.point_tape(Default::default()), &[x, y]).map(|(o, t)| (o.to_vec(), t.map(|t| t.as_slice().to_vec()))).unwrap();
        let got = JitFunction::new_point_eval().eval(&jit.point_tape(Default::default()), &[x, y]).map(|(o, t)| (o.to_vec(), t.map(|t| t.as_slice().to_vec()))).unwrap();
        println!("replay {name} {place:?} x={} y={}: JIT {got:?} VM {want:?}", fmt_f(x), fmt_f(y));
        return got.1 == want.1;
    }
    let Some(spec) = Spec::from_json(&v["spec"]) else { return false };
    let (ctx, roots, n_vars) = spec.build();
    let vm = VmFunction::new(&ctx, &roots).unwrap();
    let ssa = vm.data().verif_ssa().clone();
    println!("spec {} -> ssa tape (root first) {:?}", spec.label(), ssa.tape);
    let pos = var_positions(&vm, n_vars);
    let n_inputs = vm.vars().len();
    let n_clause = ssa.tape.iter().filter(|o| o.has_choice()).count();
    let interval = v["kind"].as_str() == Some("interval");
    if !interval {
        let vals: Vec<f32> = v["vars"].as_array().map(|a| a.iter().map(|b| f32::from_bits(b.as_u64().unwrap_or(0) as u32)).collect()).unwrap_or_default();
        let inp = place_inputs(&pos, n_inputs, &vals, 0.0);
        let (_, clauses) = ref_clauses_f32(&ssa.tape, ssa.output_count, &inp);
        let expected: Vec<Choice> = clauses.iter().map(|c| c.choice).collect();
        let want = VmFunction::new_point_eval().eval(&vm.point_tape(Default::default()), &inp).map(|(_, t)| t.map(|t| t.as_slice().to_vec())).unwrap();
        println!("inputs {inp:?}: clause choices {expected:?}; VM trace {want:?}");
        if contract == "jit_trace" {
            let jit = JitFunction::new(&ctx, &roots).unwrap();
            let got = JitFunction::new_point_eval().eval(&jit.point_tape(Default::default()), &inp).map(|(_, t)| t.map(|t| t.as_slice().to_vec())).unwrap();
            println!("JIT trace {got:?}");
            return got == want;
        }
        check_trace(&expected, want.as_deref(), n_clause).is_none()
    } else {
        let vals: Vec<Interval> = v["vars"].as_array().map(|a| a.iter().map(iv_from_bits).collect()).unwrap_or_default();
        let inp = place_inputs(&pos, n_inputs, &vals, Interval::from(0.0));
        let Ok((_, clauses)) = ref_clauses_interval(&ssa.tape, ssa.output_count, &inp) else { return false };
        let expected: Vec<Choice> = clauses.iter().map(|c| c.choice).collect();
        let want = VmFunction::new_interval_eval().eval(&vm.interval_tape(Default::default()), &inp).map(|(_, t)| t.map(|t| t.as_slice().to_vec())).unwrap();
        println!("inputs {inp:?}: clause choices {expected:?}; VM trace {want:?}");
        if contract == "jit_trace" {
            let jit = JitFunction::new(&ctx, &roots).unwrap();
            let got = JitFunction::new_interval_eval().eval(&jit.interval_tape(Default::default()), &inp).map(|(_, t)| t.map(|t| t.as_slice().to_vec())).unwrap();
            println!("JIT trace {got:?}");
            return got == want;
        }
        check_trace(&expected, want.as_deref(), n_clause).is_none()
    }
}
