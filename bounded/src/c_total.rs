//! C11 (bounded legs): evaluation is total.
//!
//! (a) every evaluator kind of both backends returns normally on one-op tapes and on deep expressions
//!     whose intermediates overflow, for finite inputs up to f32::MAX;
//! (b) argument errors are error values;
//! (c) the `Interval` operations themselves never panic, including infinite bounds and the NaN interval.
//!
//! The VM legs run in this process under `catch_unwind`.  The JIT legs run in child processes (this
//! executable re-executed with the hidden sub-command `__total_child`), because a panic inside an
//! `extern "sysv64"` callback aborts the process: a child that dies is a failure whose signature is
//! the unit it announced last, and the parent restarts a child after that unit.
use crate::common::*;
use crate::helpers::*;
use fidget_core::Context;
use fidget_core::eval::{BulkEvaluator, Function, MathFunction, TracingEvaluator};
use fidget_core::types::{Grad, Interval};
use fidget_core::vm::{GenericVmFunction, VmFunction, VmTrace};
use fidget_jit::JitFunction;
use serde_json::json;
use std::io::Write;

fn finite_grid(thorough: bool) -> Vec<f32> {
    grid(thorough).into_iter().filter(|v| v.is_finite()).collect()
}

/// finite intervals over the finite interval values, incl. zero-touching and degenerate ones
fn finite_intervals(thorough: bool) -> Vec<Interval> {
    let vals: Vec<f32> = interval_values(thorough).into_iter().filter(|v| v.is_finite()).collect();
    interval_grid(&vals).into_iter().filter(|i| !i.has_nan()).collect()
}

const BIG: [f32; 14] = [f32::MAX, f32::MIN, 1.0e20, -1.0e20, 1.0e38, -1.0e38, 3.0, 0.5, 0.0, -0.0, 1.0e-40, -2.5, 1.0, 88.0];

fn big_intervals() -> Vec<Interval> {
    let mut v = interval_grid(&BIG).into_iter().filter(|i| !i.has_nan()).collect::<Vec<_>>();
    v.push(Interval::new(-0.0, 0.0));
    v
}

const OVERFLOW_CFG: ExprCfg = ExprCfg { max_vars: 3, max_steps: 10, choice_pct: 15, max_out: 2, overflow: true };

/// set in a replay child (VERIF_BOUNDED_VERBOSE=1): announce every evaluation so that the last line names the exact input
static VERBOSE: std::sync::atomic::AtomicBool = std::sync::atomic::AtomicBool::new(false);

fn announce(kind: &str, input: &dyn std::fmt::Debug) {
    if VERBOSE.load(std::sync::atomic::Ordering::Relaxed) {
        let out = std::io::stdout();
        let mut o = out.lock();
        let _ = writeln!(o, ">{kind} {input:?}");
        let _ = o.flush();
    }
}

fn valid_interval(i: Interval) -> bool {
    (i.lower() <= i.upper()) || (i.lower().is_nan() && i.upper().is_nan())
}

/// runs the four evaluator kinds of backend `F` on one function; `fail(class, what)` records a violation.
/// `points` / `boxes` are full input vectors.
fn run_all_kinds<F: Function<Trace = VmTrace>>(f: &F, points: &[Vec<f32>], boxes: &[Vec<Interval>], fail: &mut dyn FnMut(&str, String)) -> u64 {
    let n_out = f.output_count();
    let mut cases = 0;
    {
        let tape = f.point_tape(Default::default());
        let mut ev = F::new_point_eval();
        for p in points {
            cases += 1;
            announce("point", p);
            match ev.eval(&tape, p) {
                Err(e) => fail("point-err", format!("point eval returned {e:?} for {p:?}")),
                Ok((o, t)) => {
                    if o.len() != n_out {
                        fail("point-shape", format!("{} outputs, expected {n_out}", o.len()));
                    }
                    if let Some(t) = t {
                        if t.as_slice().iter().any(|c| *c == fidget_core::vm::Choice::Unknown) {
                            fail("point-unknown-choice", format!("trace {:?} contains Unknown at {p:?}", t.as_slice()));
                        }
                    }
                }
            }
        }
    }
    {
        let tape = f.interval_tape(Default::default());
        let mut ev = F::new_interval_eval();
        for b in boxes {
            cases += 1;
            announce("interval", &b.iter().map(|i| (*i, iv_bits(*i))).collect::<Vec<_>>());
            match ev.eval(&tape, b) {
                Err(e) => fail("interval-err", format!("interval eval returned {e:?} for {b:?}")),
                Ok((o, t)) => {
                    if o.len() != n_out {
                        fail("interval-shape", format!("{} outputs, expected {n_out}", o.len()));
                    }
                    if let Some(bad) = o.iter().find(|i| !valid_interval(**i)) {
                        fail(if bad.lower().is_nan() != bad.upper().is_nan() { "invalid-interval-output:half-NaN" } else { "invalid-interval-output" }, format!("output {bad:?}/{:08x?} is neither lower<=upper nor the NaN interval, for box {b:?}", iv_bits(*bad)));
                    }
                    if let Some(t) = t {
                        if t.as_slice().iter().any(|c| *c == fidget_core::vm::Choice::Unknown) {
                            fail("interval-unknown-choice", format!("trace {:?} contains Unknown at {b:?}", t.as_slice()));
                        }
                    }
                }
            }
        }
    }
    let n_in = f.vars().len();
    for len in [points.len(), 3.min(points.len()), 0] {
        cases += 2;
        let cols: Vec<Vec<f32>> = (0..n_in).map(|j| points[..len].iter().map(|p| p[j]).collect()).collect();
        {
            let tape = f.float_slice_tape(Default::default());
            let mut ev = F::new_float_slice_eval();
            announce("float-slice", &cols);
            match ev.eval(&tape, &cols) {
                Err(e) => fail("float-slice-err", format!("float-slice eval returned {e:?} (len {len})")),
                Ok(o) => {
                    if o.len() != n_out || (0..o.len()).any(|k| o[k].len() != if n_in == 0 { 0 } else { len }) {
                        fail("float-slice-shape", format!("{} rows of {:?}, expected {n_out} rows of {len}", o.len(), (0..o.len()).map(|k| o[k].len()).collect::<Vec<_>>()));
                    }
                }
            };
        }
        {
            let gcols: Vec<Vec<Grad>> = cols.iter().enumerate().map(|(j, c)| c.iter().map(|v| Grad::new(*v, (j == 0) as u8 as f32, (j == 1) as u8 as f32, (j == 2) as u8 as f32 * 0.5)).collect()).collect();
            let tape = f.grad_slice_tape(Default::default());
            let mut ev = F::new_grad_slice_eval();
            announce("grad-slice", &cols);
            match ev.eval(&tape, &gcols) {
                Err(e) => fail("grad-slice-err", format!("grad-slice eval returned {e:?} (len {len})")),
                Ok(o) => {
                    if o.len() != n_out || (0..o.len()).any(|k| o[k].len() != if n_in == 0 { 0 } else { len }) {
                        fail("grad-slice-shape", format!("{} rows, expected {n_out} rows of {len}", o.len()));
                    }
                }
            };
        }
    }
    cases
}

// ---- units of part (a): the same list is enumerated by the parent (VM) and by the children (JIT) ----

#[derive(Clone)]
enum Unit {
    OneOp(usize, Place, f32),
    Expr(usize),
    /// fixed expressions that pin down what the random search found (so the finding does not depend on the seed)
    Witness(usize),
}

const WITNESSES: [&str; 3] = ["exp(x*x - y*y)", "atan(x*x - y*y)", "ln(x*x - y*y)"];

/// box x=[1,1e30], y=[1e30,1e30]: x*x = [1, inf], y*y = [inf, inf], the difference has bounds 1-inf = -inf and inf-inf = NaN
fn witness_of(k: usize) -> (Expr, Vec<Vec<f32>>, Vec<Vec<Interval>>) {
    let mut ctx = Context::new();
    let x = ctx.var(var_n(0));
    let y = ctx.var(var_n(1));
    let xx = ctx.mul(x, x).unwrap();
    let yy = ctx.mul(y, y).unwrap();
    let d = ctx.sub(xx, yy).unwrap();
    let root = match k {
        0 => ctx.exp(d),
        1 => ctx.atan(d),
        _ => ctx.ln(d),
    }
    .unwrap();
    let e = Expr { ctx, roots: vec![root], n_vars: 2, text: vec![format!("{} with t0 = Mul(v0, v0); t1 = Mul(v1, v1); t2 = Sub(t0, t1)", WITNESSES[k])] };
    let pts = vec![vec![1.0, 1.0e30], vec![1.0e30, 1.0e30], vec![3.0, 0.5]];
    let boxes = vec![vec![Interval::new(1.0, 1.0e30), Interval::new(1.0e30, 1.0e30)], vec![Interval::new(1.0e30, 1.0e30), Interval::new(1.0, 1.0e30)], vec![Interval::new(1.0, 2.0), Interval::new(0.5, 3.0)]];
    (e, pts, boxes)
}

fn units(thorough: bool) -> Vec<Unit> {
    let g = finite_grid(thorough);
    let mut v = vec![];
    for (ci, case) in op_table().iter().enumerate() {
        for place in [Place::Direct(0, 1, 2), Place::Direct(0, 0, 1), Place::Spilled(3, 1, 2)] {
            for &imm in &imms_for(case, &g) {
                v.push(Unit::OneOp(ci, place, imm));
            }
        }
    }
    let n_expr = if thorough { 6000 } else { 800 };
    for i in 0..n_expr {
        v.push(Unit::Expr(i));
    }
    for k in 0..WITNESSES.len() {
        v.push(Unit::Witness(k));
    }
    v
}

fn unit_sig(u: &Unit, seed: u64) -> String {
    match u {
        Unit::OneOp(ci, place, imm) => format!("one-op:{}:{place:?}:imm={}", op_table()[*ci].name, fmt_f(*imm)),
        Unit::Expr(i) => format!("overflow-expr:seed={seed}:#{i}"),
        Unit::Witness(k) => format!("witness:{} on x=[1,1e30], y=[1e30,1e30]", WITNESSES[*k]),
    }
}

fn expr_of(seed: u64, i: usize) -> (Expr, Vec<Vec<f32>>, Vec<Vec<Interval>>) {
    let mut rng = Rng::new(seed.wrapping_mul(0xC11).wrapping_add(i as u64).wrapping_add(0x70741));
    let e = gen_expr(&mut rng, OVERFLOW_CFG);
    let bi = big_intervals();
    let pts: Vec<Vec<f32>> = (0..24).map(|_| (0..e.n_vars).map(|_| BIG[rng.below(BIG.len())]).collect()).collect();
    let boxes: Vec<Vec<Interval>> = (0..24).map(|_| (0..e.n_vars).map(|_| bi[rng.below(bi.len())]).collect()).collect();
    (e, pts, boxes)
}

/// runs one unit on backend `F`; for one-op tapes the function comes from `mk`
fn run_unit<F: MathFunction + Function<Trace = VmTrace>>(u: &Unit, thorough: bool, seed: u64, mk_one_op: &dyn Fn(&OpCase, Place, f32) -> (F, bool), fail: &mut dyn FnMut(&str, String)) -> u64 {
    match u {
        Unit::OneOp(ci, place, imm) => {
            let case = &op_table()[*ci];
            let (f, two_inputs) = mk_one_op(case, *place, *imm);
            let g = finite_grid(thorough);
            let ig = finite_intervals(thorough);
            let pts: Vec<Vec<f32>> = if two_inputs { g.iter().flat_map(|x| g.iter().map(move |y| vec![*x, *y])).collect() } else { g.iter().map(|x| vec![*x]).collect() };
            let boxes: Vec<Vec<Interval>> = if two_inputs { ig.iter().flat_map(|x| ig.iter().map(move |y| vec![*x, *y])).collect() } else { ig.iter().map(|x| vec![*x]).collect() };
            run_all_kinds(&f, &pts, &boxes, fail)
        }
        Unit::Expr(_) | Unit::Witness(_) => {
            let (e, pts, boxes) = match u {
                Unit::Expr(i) => expr_of(seed, *i),
                Unit::Witness(k) => witness_of(*k),
                _ => unreachable!(),
            };
            let f = match F::new(&e.ctx, &e.roots) {
                Ok(f) => f,
                Err(err) => {
                    fail("construction", format!("{err:?}"));
                    return 1;
                }
            };
            let pos = var_positions(&f, e.n_vars);
            let n_inputs = f.vars().len();
            let pts: Vec<Vec<f32>> = pts.iter().map(|p| place_inputs(&pos, n_inputs, p, 0.0)).collect();
            let boxes: Vec<Vec<Interval>> = boxes.iter().map(|b| place_inputs(&pos, n_inputs, b, Interval::from(0.0))).collect();
            let mut f2 = |c: &str, w: String| fail(c, format!("{w}; program: {}", e.text.join("; ")));
            run_all_kinds(&f, &pts, &boxes, &mut f2)
        }
    }
}

fn mk_vm(case: &OpCase, place: Place, imm: f32) -> (JVm, bool) {
    let (vm, _jit, two) = one_op_pair(case, place, imm, 1);
    (vm, two)
}

fn mk_jit(case: &OpCase, place: Place, imm: f32) -> (JitFunction, bool) {
    let (_vm, jit, two) = one_op_pair(case, place, imm, 1);
    (jit, two)
}

// ---- part (b): argument errors ----

fn arg_function<F: MathFunction>(nv: usize) -> F {
    let mut c = Context::new();
    let mut acc = c.constant(1.0);
    for k in 0..nv {
        let v = c.var(var_n(k));
        acc = c.add(acc, v).unwrap();
    }
    F::new(&c, &[acc]).expect("argument-test function")
}

fn arg_errors<F: MathFunction + Function<Trace = VmTrace>>(backend: &str, fail: &mut dyn FnMut(&str, String, String)) -> u64 {
    let mut cases = 0;
    for nv in 0..=4usize {
        let f: F = arg_function(nv);
        if f.vars().len() != nv {
            fail("arg-setup", format!("{backend}:nv={nv}"), format!("function has {} variables", f.vars().len()));
            continue;
        }
        for k in 0..=5usize {
            cases += 2;
            let sig = format!("{backend}:vars={nv}:given={k}");
            let pt = f.point_tape(Default::default());
            let res = std::panic::catch_unwind(std::panic::AssertUnwindSafe(|| F::new_point_eval().eval(&pt, &vec![0.5f32; k]).map(|(o, _)| o.len())));
            match res {
                Err(_) => fail("arg-point-panic", sig.clone(), "point eval panicked".into()),
                Ok(Ok(n)) if k < nv => fail("arg-point", sig.clone(), format!("too few variables accepted (returned {n} outputs)")),
                Ok(Err(e)) if k >= nv => fail("arg-point", sig.clone(), format!("enough variables rejected: {e:?}")),
                _ => {}
            }
            let it = f.interval_tape(Default::default());
            let res = std::panic::catch_unwind(std::panic::AssertUnwindSafe(|| F::new_interval_eval().eval(&it, &vec![Interval::new(0.0, 1.0); k]).map(|(o, _)| o.len())));
            match res {
                Err(_) => fail("arg-interval-panic", sig.clone(), "interval eval panicked".into()),
                Ok(Ok(n)) if k < nv => fail("arg-interval", sig.clone(), format!("too few variables accepted (returned {n} outputs)")),
                Ok(Err(e)) if k >= nv => fail("arg-interval", sig.clone(), format!("enough variables rejected: {e:?}")),
                _ => {}
            }
            // bulk: every tuple of slice lengths 0..=3
            let ft = f.float_slice_tape(Default::default());
            let gt = f.grad_slice_tape(Default::default());
            let mut lens = vec![0usize; k];
            loop {
                cases += 2;
                let want_ok = k >= nv && lens.iter().all(|l| *l == lens[0]);
                let n = lens.first().cloned().unwrap_or(0);
                let sig = format!("{backend}:vars={nv}:slice-lengths={lens:?}");
                let cols: Vec<Vec<f32>> = lens.iter().map(|l| vec![0.25f32; *l]).collect();
                let res = std::panic::catch_unwind(std::panic::AssertUnwindSafe(|| F::new_float_slice_eval().eval(&ft, &cols).map(|o| (o.len(), if o.len() > 0 { o[0].len() } else { 0 }))));
                match res {
                    Err(_) => fail("arg-float-slice-panic", sig.clone(), "float-slice eval panicked".into()),
                    Ok(Ok(shape)) if !want_ok => fail("arg-float-slice", sig.clone(), format!("bad argument list accepted (returned shape {shape:?})")),
                    Ok(Err(e)) if want_ok => fail("arg-float-slice", sig.clone(), format!("good argument list rejected: {e:?}")),
                    Ok(Ok(shape)) if shape != (1, n) => fail("arg-float-slice", sig.clone(), format!("shape {shape:?}, expected (1, {n})")),
                    _ => {}
                }
                let gcols: Vec<Vec<Grad>> = lens.iter().map(|l| vec![Grad::new(0.25, 1.0, 0.0, 0.0); *l]).collect();
                let res = std::panic::catch_unwind(std::panic::AssertUnwindSafe(|| F::new_grad_slice_eval().eval(&gt, &gcols).map(|o| (o.len(), if o.len() > 0 { o[0].len() } else { 0 }))));
                match res {
                    Err(_) => fail("arg-grad-slice-panic", sig.clone(), "grad-slice eval panicked".into()),
                    Ok(Ok(shape)) if !want_ok => fail("arg-grad-slice", sig.clone(), format!("bad argument list accepted (returned shape {shape:?})")),
                    Ok(Err(e)) if want_ok => fail("arg-grad-slice", sig.clone(), format!("good argument list rejected: {e:?}")),
                    Ok(Ok(shape)) if shape != (1, n) => fail("arg-grad-slice", sig.clone(), format!("shape {shape:?}, expected (1, {n})")),
                    _ => {}
                }
                // next tuple
                let mut j = 0;
                loop {
                    if j == k {
                        break;
                    }
                    lens[j] += 1;
                    if lens[j] <= 3 {
                        break;
                    }
                    lens[j] = 0;
                    j += 1;
                }
                if j == k {
                    break;
                }
            }
        }
    }
    cases
}

// ---- part (c): Interval operations directly ----

fn interval_ops(thorough: bool, r: &mut Report, classes: &Classes) {
    let mut vals = vec![0.0, -0.0, 1.0, -1.0, 0.5, -2.5, 3.0, std::f32::consts::PI, 1.0e20, -1.0e20, f32::MAX, f32::MIN, f32::INFINITY, f32::NEG_INFINITY, 1.0e-40];
    if thorough {
        vals.extend_from_slice(&[-std::f32::consts::PI, std::f32::consts::FRAC_PI_2, 1.0e38, -1.0e-40, 7.0, 100.5]);
    }
    let ig = interval_grid(&vals);
    type Un = (&'static str, fn(Interval) -> Interval);
    type Bin = (&'static str, fn(Interval, Interval) -> Interval);
    let uns: Vec<Un> = vec![
        ("recip", |a| a.recip()), ("sqrt", |a| a.sqrt()), ("square", |a| a.square()), ("sin", |a| a.sin()), ("cos", |a| a.cos()), ("tan", |a| a.tan()),
        ("asin", |a| a.asin()), ("acos", |a| a.acos()), ("atan", |a| a.atan()), ("exp", |a| a.exp()), ("ln", |a| a.ln()), ("floor", |a| a.floor()),
        ("ceil", |a| a.ceil()), ("round", |a| a.round()), ("abs", |a| a.abs()), ("neg", |a| -a), ("not", |a| a.not()), ("rand", |a| a.rand()),
    ];
    let bins: Vec<Bin> = vec![
        ("add", |a, b| a + b), ("sub", |a, b| a - b), ("mul", |a, b| a * b), ("div", |a, b| a / b), ("rem_euclid", |a, b| a.rem_euclid(b)), ("atan2", |a, b| a.atan2(b)),
        ("min", |a, b| a.min_choice(b).0), ("max", |a, b| a.max_choice(b).0), ("and", |a, b| a.and_choice(b).0), ("or", |a, b| a.or_choice(b).0),
        ("compare", |a, b| Interval::compare(a, b)), ("mix", |a, b| a.mix(b)),
    ];
    let one = |name: &str, sig: String, f: &mut dyn FnMut() -> Interval, r: &mut Report| {
        r.cases += 1;
        match std::panic::catch_unwind(std::panic::AssertUnwindSafe(f)) {
            Err(p) => {
                let msg = p.downcast_ref::<String>().cloned().or_else(|| p.downcast_ref::<&str>().map(|s| s.to_string())).unwrap_or_default();
                classes.fail(r, format!("interval-op-panic:{name}"), sig, format!("Interval::{name} panicked: {msg}"), json!({"contract":"total","part":"interval-ops","op":name}));
            }
            Ok(v) => {
                if !valid_interval(v) {
                    classes.fail(r, format!("interval-op-invalid:{name}"), sig, format!("Interval::{name} returned the invalid interval {v:?}"), json!({"contract":"total","part":"interval-ops","op":name}));
                }
            }
        }
    };
    for &a in &ig {
        for (name, f) in &uns {
            one(name, format!("Interval::{name}({a:?}/{:08x?})", iv_bits(a)), &mut || f(a), r);
        }
        for &c in &vals {
            one("mul_f32", format!("{a:?}/{:08x?} * {}", iv_bits(a), fmt_f(c)), &mut || a * c, r);
        }
        one("mul_f32", format!("{a:?} * NaN"), &mut || a * f32::NAN, r);
        for &b in &ig {
            for (name, f) in &bins {
                one(name, format!("Interval::{name}({a:?}/{:08x?}, {b:?}/{:08x?})", iv_bits(a), iv_bits(b)), &mut || f(a, b), r);
            }
        }
    }
}

// ---- child process (JIT legs) ----

pub fn child_main(args: &[String]) -> i32 {
    // __total_child <thorough 0|1> <seed> <child index> <n children> <start unit>
    let thorough = args.get(2).map(|s| s == "1").unwrap_or(false);
    let seed: u64 = args.get(3).and_then(|s| s.parse().ok()).unwrap_or(0);
    let me: usize = args.get(4).and_then(|s| s.parse().ok()).unwrap_or(0);
    let n: usize = args.get(5).and_then(|s| s.parse().ok()).unwrap_or(1);
    let start: usize = args.get(6).and_then(|s| s.parse().ok()).unwrap_or(0);
    // the parent reports: panic messages go to stdout as `!` lines
    std::panic::set_hook(Box::new(|info| {
        let out = std::io::stdout();
        let mut o = out.lock();
        let _ = writeln!(o, "!{}", info.to_string().replace('\n', " "));
        let _ = o.flush();
    }));
    if std::env::var("VERIF_BOUNDED_VERBOSE").is_ok() {
        VERBOSE.store(true, std::sync::atomic::Ordering::Relaxed);
    }
    let us = units(thorough);
    let out = std::io::stdout();
    let mut cases = 0u64;
    let mut failures: Vec<serde_json::Value> = vec![];
    for (ui, u) in us.iter().enumerate() {
        if ui % n != me || ui < start {
            continue;
        }
        let sig = unit_sig(u, seed);
        {
            let mut o = out.lock();
            let _ = writeln!(o, "@{ui} {sig}");
            let _ = o.flush();
        }
        // self-test knob for the crash detection of the parent: VERIF_BOUNDED_SELFTEST_ABORT_UNIT=<unit index>
        if std::env::var("VERIF_BOUNDED_SELFTEST_ABORT_UNIT").ok().and_then(|s| s.parse::<usize>().ok()) == Some(ui) {
            std::process::abort();
        }
        let mut local: Vec<(String, String)> = vec![];
        let res = std::panic::catch_unwind(std::panic::AssertUnwindSafe(|| {
            let mut fail = |c: &str, w: String| {
                if local.len() < 3 {
                    local.push((c.to_string(), w));
                }
            };
            run_unit::<JitFunction>(u, thorough, seed, &mk_jit, &mut fail)
        }));
        match res {
            Ok(c) => cases += c,
            Err(_) => local.push(("panic".into(), "a JIT evaluator panicked (caught by catch_unwind)".into())),
        }
        for (c, w) in local {
            failures.push(json!({"class": format!("jit:{c}"), "signature": format!("jit:{sig}"), "what": w, "unit": ui}));
        }
    }
    if me == 0 && start == 0 {
        let mut fail = |c: &str, s: String, w: String| failures.push(json!({"class": format!("jit:{c}"), "signature": s, "what": w, "unit": -1}));
        cases += arg_errors::<JitFunction>("jit", &mut fail);
    }
    let mut o = out.lock();
    let _ = writeln!(o, "#{}", json!({"cases": cases, "failures": failures}));
    let _ = o.flush();
    0
}

fn run_children(thorough: bool, seed: u64, r: &mut Report, classes: &Classes) -> (u64, u64) {
    let exe = match std::env::current_exe() {
        Ok(e) => e,
        Err(e) => {
            r.fail("child-spawn".into(), format!("current_exe failed: {e}"), json!({"contract":"total"}));
            return (0, 0);
        }
    };
    let n_children = std::thread::available_parallelism().map(|n| n.get()).unwrap_or(4).min(12);
    let results: Vec<(u64, Vec<serde_json::Value>, Vec<(usize, String, String)>)> = std::thread::scope(|s| {
        let hs: Vec<_> = (0..n_children)
            .map(|me| {
                let exe = exe.clone();
                s.spawn(move || {
                    let mut start = 0usize;
                    let mut cases = 0u64;
                    let mut fails = vec![];
                    let mut deaths = vec![];
                    for _attempt in 0..40 {
                        let out = std::process::Command::new(&exe)
                            .args(["__total_child", if thorough { "1" } else { "0" }, &seed.to_string(), &me.to_string(), &n_children.to_string(), &start.to_string()])
                            .stderr(std::process::Stdio::null())
                            .output();
                        let out = match out {
                            Ok(o) => o,
                            Err(e) => {
                                deaths.push((usize::MAX, "spawn".to_string(), format!("could not start the child: {e}")));
                                break;
                            }
                        };
                        let text = String::from_utf8_lossy(&out.stdout);
                        let mut last: Option<(usize, String)> = None;
                        let mut last_panic = String::new();
                        let mut done = false;
                        for line in text.lines() {
                            if let Some(msg) = line.strip_prefix('!') {
                                if !last_panic.is_empty() {
                                    last_panic.push_str(" | ");
                                }
                                last_panic.push_str(msg);
                            } else if let Some(rest) = line.strip_prefix('@') {
                                last_panic.clear();
                                let mut it = rest.splitn(2, ' ');
                                let ui: usize = it.next().and_then(|s| s.parse().ok()).unwrap_or(0);
                                last = Some((ui, it.next().unwrap_or("").to_string()));
                            } else if let Some(js) = line.strip_prefix('#') {
                                if let Ok(v) = serde_json::from_str::<serde_json::Value>(js) {
                                    cases += v["cases"].as_u64().unwrap_or(0);
                                    if let Some(a) = v["failures"].as_array() {
                                        fails.extend(a.iter().cloned());
                                    }
                                    done = true;
                                }
                            }
                        }
                        if done && out.status.success() {
                            break;
                        }
                        // the child died: the unit announced last is the culprit
                        let (ui, sig) = last.unwrap_or((start, "before the first unit".into()));
                        deaths.push((ui, sig, format!("child process ended with {:?} (abort / signal) while running this unit; panic messages: {last_panic}", out.status)));
                        start = ui + 1;
                    }
                    (cases, fails, deaths)
                })
            })
            .collect();
        hs.into_iter().map(|h| h.join().unwrap_or((0, vec![], vec![(usize::MAX, "parent-thread".into(), "runner thread panicked".into())]))).collect()
    });
    let mut cases = 0;
    let mut crashes = 0;
    for (c, fails, deaths) in results {
        cases += c;
        for f in fails {
            classes.fail(r, f["class"].as_str().unwrap_or("jit").to_string(), f["signature"].as_str().unwrap_or("").to_string(), f["what"].as_str().unwrap_or("").to_string(),
                         json!({"contract":"total","part":"jit","unit":f["unit"],"thorough":thorough,"seed":seed}));
        }
        for (ui, sig, what) in deaths {
            crashes += 1;
            // cause tag: the child died in the `Interval::new` assertion on a half-NaN interval (known defect of the native add/sub)
            let half_nan = { let m = what.find("invalid interval [").map(|p| &what[p..]).unwrap_or(""); let e = m.find(']').unwrap_or(0); let inner = &m[..e]; inner.matches("NaN").count() == 1 };
            let class = format!("jit:process-died{}{}", if half_nan { ":half-NaN-interval" } else { "" }, if sig.starts_with("witness") { "(witness)" } else { "" });
            classes.fail(r, class, format!("jit:{sig}"), what, json!({"contract":"total","part":"jit","unit":ui,"thorough":thorough,"seed":seed}));
        }
    }
    (cases, crashes)
}

/// (d) the Shape-level evaluator wrappers (`ShapeBulkEval` / `ShapeTracingEval` own scratch arrays sized per call): one evaluator
/// object is used on every ordered pair of (shape, sample count) taken from shapes over different variable subsets and counts
/// 0, 1, 3, 5, 10; every call must return Ok with exactly the requested number of samples and the right values
pub fn shape_reuse(fail: &mut dyn FnMut(&str, String, String)) -> u64 {
    use fidget_core::context::Tree;
    use fidget_core::shape::EzShape;
    use fidget_core::vm::VmShape;
    let shapes: Vec<(&str, Tree, fn(f32, f32, f32) -> f32)> = vec![
        ("x+y+z", Tree::x() + Tree::y() + Tree::z(), |x, y, z| (x + y) + z),
        ("x*2", Tree::x() * 2.0, |x, _, _| x * 2.0),
        ("y*2", Tree::y() * 2.0, |_, y, _| y * 2.0),
        ("z-x", Tree::z() - Tree::x(), |x, _, z| z - x),
        ("const", Tree::constant(1.5), |_, _, _| 1.5),
        ("min(x,y)", Tree::x().min(Tree::y()), |x, y, _| x.min(y)),
        // the same variable set as min(x,y) and the same variable count as z-x, met in another order: the variable-to-index maps differ
        ("y-3x", Tree::y() - Tree::x() * 3.0, |x, y, _| y - x * 3.0),
        ("x-2y", Tree::x() - Tree::y() * 2.0, |x, y, _| x - y * 2.0),
    ];
    let lens = [10usize, 5, 0, 3, 1];
    let vs: Vec<VmShape> = shapes.iter().map(|(_, t, _)| VmShape::from(t.clone())).collect();
    let mut n = 0u64;
    for i in 0..shapes.len() {
        for j in 0..shapes.len() {
            for &li in &lens {
                for &lj in &lens {
                    let sig = format!("shape-reuse:{}[{}] then {}[{}]", shapes[i].0, li, shapes[j].0, lj);
                    let res = std::panic::catch_unwind(std::panic::AssertUnwindSafe(|| {
                        let mut bad: Vec<String> = vec![];
                        let mut fe = VmShape::new_float_slice_eval();
                        let mut ge = VmShape::new_grad_slice_eval();
                        let mut pe = VmShape::new_point_eval();
                        let mut ie = VmShape::new_interval_eval();
                        for &(k, l) in &[(i, li), (j, lj)] {
                            // the single-point and the interval wrapper, reused as well (one evaluation per step, at a point that depends on l)
                            {
                                let (px, py, pz) = (0.5 + l as f32, -1.25 * (l as f32 + 1.0), 3.0 - l as f32);
                                let want = (shapes[k].2)(px, py, pz);
                                let t = vs[k].ez_point_tape();
                                match pe.eval(&t, px, py, pz) {
                                    Ok((v, _)) => { if v.to_bits() != want.to_bits() { bad.push(format!("point evaluation at ({px},{py},{pz}) = {v} != {want}")); } }
                                    Err(e) => bad.push(format!("point error {e:?}")),
                                }
                                let t = vs[k].ez_interval_tape();
                                match ie.eval(&t, px, py, pz) {
                                    Ok((iv, _)) => { if !(iv.lower() <= want && want <= iv.upper()) { bad.push(format!("interval evaluation on the point box ({px},{py},{pz}) = {iv:?} does not contain {want}")); } }
                                    Err(e) => bad.push(format!("interval error {e:?}")),
                                }
                            }
                            let xs: Vec<f32> = (0..l).map(|q| 0.5 + q as f32).collect();
                            let ys: Vec<f32> = (0..l).map(|q| -1.25 * q as f32).collect();
                            let zs: Vec<f32> = (0..l).map(|q| 3.0 - q as f32).collect();
                            let t = vs[k].ez_float_slice_tape();
                            match fe.eval(&t, &xs, &ys, &zs) {
                                Ok(o) => {
                                    if o.len() != l { bad.push(format!("float-slice returned {} samples for {}", o.len(), l)); }
                                    for q in 0..o.len().min(l) {
                                        let want = (shapes[k].2)(xs[q], ys[q], zs[q]);
                                        if o[q].to_bits() != want.to_bits() { bad.push(format!("float-slice sample {q} = {} != {}", o[q], want)); break; }
                                    }
                                }
                                Err(e) => bad.push(format!("float-slice error {e:?}")),
                            }
                            let gx: Vec<Grad> = xs.iter().map(|v| Grad::new(*v, 1.0, 0.0, 0.0)).collect();
                            let gy: Vec<Grad> = ys.iter().map(|v| Grad::new(*v, 0.0, 1.0, 0.0)).collect();
                            let gz: Vec<Grad> = zs.iter().map(|v| Grad::new(*v, 0.0, 0.0, 1.0)).collect();
                            let t = vs[k].ez_grad_slice_tape();
                            match ge.eval(&t, &gx, &gy, &gz) {
                                Ok(o) => {
                                    if o.len() != l { bad.push(format!("grad-slice returned {} samples for {}", o.len(), l)); }
                                    for q in 0..o.len().min(l) {
                                        let want = (shapes[k].2)(xs[q], ys[q], zs[q]);
                                        if o[q].v.to_bits() != want.to_bits() { bad.push(format!("grad-slice sample {q} = {} != {}", o[q].v, want)); break; }
                                    }
                                }
                                Err(e) => bad.push(format!("grad-slice error {e:?}")),
                            }
                        }
                        bad
                    }));
                    n += 8;
                    match res {
                        Ok(bad) => { for b in bad { fail("shape-reuse", sig.clone(), b); } }
                        Err(p) => {
                            let msg = p.downcast_ref::<String>().cloned().or_else(|| p.downcast_ref::<&str>().map(|s| s.to_string())).unwrap_or_default();
                            fail("panic", sig.clone(), format!("a Shape-level bulk evaluator panicked on reuse: {msg}"));
                        }
                    }
                }
            }
        }
    }
    n
}

pub fn total(thorough: bool, seed: u64) -> Report {
    let classes = Classes::default();
    // keep the expected panic messages of caught panics off the terminal
    let prev = std::panic::take_hook();
    std::panic::set_hook(Box::new(|_| {}));
    let us = units(thorough);
    let idx: Vec<usize> = (0..us.len()).collect();
    // (a) VM, in process
    let mut r = par_map(&idx, "total", |&ui, r| {
        let u = &us[ui];
        let sig = unit_sig(u, seed);
        let mut local: Vec<(String, String)> = vec![];
        let res = std::panic::catch_unwind(std::panic::AssertUnwindSafe(|| {
            let mut fail = |c: &str, w: String| local.push((c.to_string(), w));
            let mut n = run_unit::<JVm>(u, thorough, seed, &mk_vm, &mut fail);
            if !matches!(u, Unit::OneOp(..)) {
                // the default register budget as well
                n += run_unit::<VmFunction>(u, thorough, seed, &|_, _, _| unreachable!(), &mut fail);
                n += run_unit::<GenericVmFunction<3>>(u, thorough, seed, &|_, _, _| unreachable!(), &mut fail);
            }
            n
        }));
        match res {
            Ok(c) => r.cases += c,
            Err(p) => {
                let msg = p.downcast_ref::<String>().cloned().or_else(|| p.downcast_ref::<&str>().map(|s| s.to_string())).unwrap_or_default();
                local.push(("panic".into(), format!("a VM evaluator panicked: {msg}")));
            }
        }
        for (c, w) in local {
            classes.fail(r, format!("vm:{c}"), format!("vm:{sig}"), w, json!({"contract":"total","part":"vm","unit":ui,"thorough":thorough,"seed":seed}));
        }
    });
    let vm_cases = r.cases;
    // (b) VM
    {
        let mut fail = |c: &str, s: String, w: String| classes.fail(&mut r, format!("vm:{c}"), s, w, json!({"contract":"total","part":"args"}));
        let n = arg_errors::<VmFunction>("vm255", &mut fail) + arg_errors::<GenericVmFunction<3>>("vm3", &mut fail);
        r.cases += n;
    }
    let arg_cases_vm = r.cases - vm_cases;
    // (d) Shape-level wrappers, evaluator reuse
    {
        let mut fail = |c: &str, s: String, w: String| classes.fail(&mut r, format!("vm:{c}"), s, w, json!({"contract":"total","part":"shape-reuse"}));
        let n = shape_reuse(&mut fail);
        r.cases += n;
    }
    // (c)
    let before = r.cases;
    interval_ops(thorough, &mut r, &classes);
    let iv_cases = r.cases - before;
    // JIT legs in children
    let (jit_cases, crashes) = run_children(thorough, seed, &mut r, &classes);
    r.cases += jit_cases;
    std::panic::set_hook(prev);
    let n_one = us.iter().filter(|u| matches!(u, Unit::OneOp(..))).count();
    let n_expr = us.iter().filter(|u| matches!(u, Unit::Expr(..))).count();
    r.space = format!(
        "(a) {n_one} one-op tapes (every op case x 3 placements (direct, out==lhs, through stack spills) x every FINITE grid immediate) on every finite operand (pair) of the grid ({} values incl. +-MAX, denormals, +-0) and every finite operand interval (pair) ({} intervals incl. degenerate and zero-touching), and {n_expr} seeded random deep expressions (seed {seed}; 1..=3 variables, up to 10 steps biased to mul/square/exp/div/recip/tan/ln chains with some min/max/and/or, 1..=2 outputs) on 24 points over {{+-MAX, +-1e20, +-1e38, 3, 0.5, +-0, 1e-40, -2.5, 1, 88}} and 24 boxes over all [lo,hi] of those values, plus 3 fixed witness expressions {{exp,atan,ln}}(x*x - y*y) on the finite box x=[1,1e30], y=[1e30,1e30]: each of the 4 evaluator kinds (point, interval, float-slice with lengths all/3/0, grad-slice likewise) must return Ok with output_count outputs / rows of the right length, interval outputs valid (lower<=upper or NaN interval), no Unknown in a trace.  VM backends (budget {JN}; for the expressions also 255 and 3) in-process under catch_unwind ({vm_cases} evaluations); JIT backend in child processes (abort/signal = violation, {crashes} child deaths) ({jit_cases} evaluations incl. its part (b)).  (b) argument errors, for functions with 0..=4 variables: tracing evaluators with 0..=5 values (Err iff fewer than the variable count; extra values fine); bulk evaluators with 0..=5 slices and EVERY tuple of slice lengths 0..=3 (Err iff too few slices or lengths differ; Ok shape (1, n)); never a panic ({arg_cases_vm} VM calls).  (d) Shape-level bulk evaluators (float-slice, grad-slice): one evaluator object on every ordered pair of (shape over a different variable subset, sample count in {{10,5,0,3,1}}) for 6 shapes: Ok, exact sample count, exact values.  (c) Interval::{{recip,sqrt,square,sin,cos,tan,asin,acos,atan,exp,ln,floor,ceil,round,abs,neg,not,rand}} on every interval, Interval*f32 on every (interval, value incl. NaN), {{add,sub,mul,div,rem_euclid,atan2,min,max,and,or,compare,mix}} on every ordered pair, over the NaN interval plus all [lo,hi] of {} values incl. +-inf, +-MAX, +-0, denormal: no panic and a valid result ({iv_cases} calls)",
        finite_grid(thorough).len(), finite_intervals(thorough).len(), if thorough { 21 } else { 15 });
    r.distinct = r.cases;
    r.exhaustive = false;
    r.notes.push("parts (b), (c) and the one-op half of (a) are exhaustive for their stated spaces; the deep expressions are a seeded sample".into());
    classes.notes(&mut r);
    // the seed-independent witnesses first
    r.failures.sort_by_key(|f| !f["signature"].as_str().unwrap_or("").contains("witness"));
    r.sample(json!({"expr":"t0 = Mul(v0, v1); t1 = Square(t0); t2 = Div(t1, v2)","box":"[(-1e20, 3e38), (0, 1e38), (-0, 0)]"}));
    r
}

pub fn replay(v: &serde_json::Value) -> bool {
    std::panic::set_hook(Box::new(|_| {}));
    let thorough = v["thorough"].as_bool().unwrap_or(false);
    let seed = v["seed"].as_u64().unwrap_or(0);
    match v["part"].as_str() {
        Some("vm") | Some("jit") => {
            let us = units(thorough);
            let Some(ui) = v["unit"].as_u64().map(|u| u as usize) else {
                // JIT argument errors
                let mut bad = 0;
                arg_errors::<JitFunction>("jit", &mut |c, s, w| {
                    println!("{c}: {s}: {w}");
                    bad += 1;
                });
                return bad == 0;
            };
            let Some(u) = us.get(ui) else { return false };
            println!("unit {ui}: {}", unit_sig(u, seed));
            if let Unit::Expr(i) = u {
                println!("program: {}", expr_of(seed, *i).0.text.join("; "));
            }
            let mut bad = 0;
            if v["part"].as_str() == Some("jit") {
                // in a child, so that an abort is reported instead of killing the replay
                let exe = std::env::current_exe().unwrap();
                let us_n = us.len();
                let out = std::process::Command::new(exe).env("VERIF_BOUNDED_VERBOSE", "1").args(["__total_child", if thorough { "1" } else { "0" }, &seed.to_string(), &ui.to_string(), &us_n.to_string(), "0"]).output().unwrap();
                let text = String::from_utf8_lossy(&out.stdout);
                // the last announced evaluation, the panic message and the final report
                let lines: Vec<&str> = text.lines().collect();
                if let Some(l) = lines.iter().rev().find(|l| l.starts_with('>')) {
                    println!("last evaluation announced by the child: {l}");
                }
                for l in lines.iter().filter(|l| l.starts_with('!') || l.starts_with('#')) {
                    println!("{l}");
                }
                if !out.status.success() || !text.lines().any(|l| l.starts_with('#')) {
                    println!("child ended with {:?}", out.status);
                    return false;
                }
                return !text.lines().filter(|l| l.starts_with('#')).any(|l| l.contains("\"class\""));
            }
            let res = std::panic::catch_unwind(std::panic::AssertUnwindSafe(|| {
                let mut fail = |c: &str, w: String| {
                    println!("{c}: {w}");
                    bad += 1;
                };
                run_unit::<JVm>(u, thorough, seed, &mk_vm, &mut fail);
                if !matches!(u, Unit::OneOp(..)) {
                    run_unit::<VmFunction>(u, thorough, seed, &|_, _, _| unreachable!(), &mut fail);
                    run_unit::<GenericVmFunction<3>>(u, thorough, seed, &|_, _, _| unreachable!(), &mut fail);
                }
            }));
            res.is_ok() && bad == 0
        }
        _ => {
            let classes = Classes::default();
            let mut r = Report::new("total");
            interval_ops(thorough, &mut r, &classes);
            let mut fail = |c: &str, s: String, w: String| classes.fail(&mut r, format!("vm:{c}"), s, w, json!({}));
            arg_errors::<VmFunction>("vm255", &mut fail);
            for f in &r.failures {
                println!("{f}");
            }
            r.failures.is_empty()
        }
    }
}
