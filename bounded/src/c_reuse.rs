//! C10 (bounded leg): results depend only on the function and the inputs, not on what the evaluator
//! object, the recycled storage or the simplification workspace were used for before.
use crate::common::*;
use crate::helpers::*;
use fidget_core::Context;
use fidget_core::context::Node;
use fidget_core::eval::{BulkEvaluator, Function, MathFunction, Tape, TracingEvaluator};
use fidget_core::types::{Grad, Interval};
use fidget_core::vm::{GenericVmFunction, VmFunction, VmTrace};
use fidget_jit::JitFunction;
use serde_json::json;

pub const FAMILY: [&str; 13] = [
    "c: 1.5 (no variable)",
    "x",
    "x + y",
    "min(x, y)",
    "max(min(x, y), z)",
    "x*y + z*w (4 variables)",
    "wide: sum_i (x+i)*(y+(i+7)%16) over 16 terms (spills)",
    "[min(x,y), max(x,y)] (2 outputs)",
    "[x+1, and(x,y), or(y,z)] (3 outputs)",
    "min(max(and(x,y), or(z,1)), x*y) (4 choices)",
    "sqrt(x*x + y*y) - 1",
    "[max(y, 0.5), sin(y)] (only y, 2 outputs)",
    "[x*y, x-y, x-y] (one node bound to two outputs)",
];

pub fn build_family(k: usize) -> (Context, Vec<Node>) {
    let mut c = Context::new();
    let (x, y, z) = (c.x(), c.y(), c.z());
    let roots = match k {
        0 => vec![c.constant(1.5)],
        1 => vec![x],
        2 => vec![c.add(x, y).unwrap()],
        3 => vec![c.min(x, y).unwrap()],
        4 => {
            let m = c.min(x, y).unwrap();
            vec![c.max(m, z).unwrap()]
        }
        5 => {
            let w = c.var(var_n(3));
            let a = c.mul(x, y).unwrap();
            let b = c.mul(z, w).unwrap();
            vec![c.add(a, b).unwrap()]
        }
        6 => {
            let xs: Vec<Node> = (0..16).map(|i| c.add(x, i as f32).unwrap()).collect();
            let ys: Vec<Node> = (0..16).map(|i| c.add(y, (i as f32) * 0.5 + 0.25).unwrap()).collect();
            let mut acc = c.mul(xs[0], ys[7]).unwrap();
            for i in 1..16 {
                let p = c.mul(xs[i], ys[(i + 7) % 16]).unwrap();
                acc = c.add(acc, p).unwrap();
            }
            // every xs[i] and ys[i] is used a second time at the end, so all 32 stay live across the sum
            for i in 0..16 {
                let q = c.sub(xs[i], ys[i]).unwrap();
                acc = c.max(acc, q).unwrap();
            }
            vec![acc]
        }
        7 => vec![c.min(x, y).unwrap(), c.max(x, y).unwrap()],
        8 => vec![c.add(x, 1.0).unwrap(), c.and(x, y).unwrap(), c.or(y, z).unwrap()],
        9 => {
            let a = c.and(x, y).unwrap();
            let o = c.or(z, 1.0).unwrap();
            let m = c.max(a, o).unwrap();
            let p = c.mul(x, y).unwrap();
            vec![c.min(m, p).unwrap()]
        }
        10 => {
            let a = c.square(x).unwrap();
            let b = c.square(y).unwrap();
            let s = c.add(a, b).unwrap();
            let q = c.sqrt(s).unwrap();
            vec![c.sub(q, 1.0).unwrap()]
        }
        11 => vec![c.max(y, 0.5).unwrap(), c.sin(y).unwrap()],
        _ => {
            let p = c.mul(x, y).unwrap();
            let d = c.sub(x, y).unwrap();
            vec![p, d, d]
        }
    };
    (c, roots)
}

const PV: [f32; 11] = [0.5, -2.5, 3.0, 0.0, 1.0, -1.0, 1.0e20, -0.0, f32::NAN, 0.25, f32::INFINITY];

fn ivs() -> Vec<Interval> {
    vec![
        Interval::new(0.5, 1.0),
        Interval::new(-2.5, -1.0),
        Interval::new(-1.0, 3.0),
        Interval::new(0.0, 0.0),
        Interval::from(f32::NAN),
        Interval::new(2.0, 1.0e20),
        Interval::new(-0.0, 0.25),
        Interval::new(1.0, 1.0),
        Interval::new(f32::NEG_INFINITY, 0.5),
    ]
}

fn canon(v: f32) -> u32 {
    if v.is_nan() { 0x7fc0_0000 } else { v.to_bits() }
}

#[derive(Clone, Debug, PartialEq)]
struct Res {
    shape: Vec<usize>,
    data: Vec<u32>,
    trace: Option<Vec<u8>>,
    err: Option<String>,
}

fn err_res(e: String) -> Res {
    Res { shape: vec![], data: vec![], trace: None, err: Some(e) }
}

#[derive(Copy, Clone, Debug, PartialEq)]
enum Kind {
    Point,
    Interval,
    Float,
    Grad,
}
const KINDS: [Kind; 4] = [Kind::Point, Kind::Interval, Kind::Float, Kind::Grad];

struct Evs<F: Function> {
    p: F::PointEval,
    i: F::IntervalEval,
    f: F::FloatSliceEval,
    g: F::GradSliceEval,
}
impl<F: Function> Evs<F> {
    fn new() -> Self {
        Evs { p: F::new_point_eval(), i: F::new_interval_eval(), f: F::new_float_slice_eval(), g: F::new_grad_slice_eval() }
    }
}

/// evaluates `f` with the given evaluator objects on input set `k` (slice length `len` for the bulk kinds)
fn eval_kind<F: Function<Trace = VmTrace>>(f: &F, evs: &mut Evs<F>, kind: Kind, k: usize, len: usize, storage: F::TapeStorage) -> (Res, Option<F::TapeStorage>) {
    let n = f.vars().len();
    let tr = |t: Option<&VmTrace>| t.map(|t| t.as_slice().iter().map(|c| *c as u8).collect::<Vec<u8>>());
    match kind {
        Kind::Point => {
            let inp: Vec<f32> = (0..n).map(|j| PV[(j * 3 + k * 5) % PV.len()]).collect();
            let tape = f.point_tape(storage);
            let res = match evs.p.eval(&tape, &inp) {
                Ok((o, t)) => Res { shape: vec![o.len()], data: o.iter().map(|v| canon(*v)).collect(), trace: tr(t), err: None },
                Err(e) => err_res(format!("{e:?}")),
            };
            (res, tape.recycle())
        }
        Kind::Interval => {
            let iv = ivs();
            let inp: Vec<Interval> = (0..n).map(|j| iv[(j * 2 + k * 3) % iv.len()]).collect();
            let tape = f.interval_tape(storage);
            let res = match evs.i.eval(&tape, &inp) {
                Ok((o, t)) => Res { shape: vec![o.len()], data: o.iter().flat_map(|v| [canon(v.lower()), canon(v.upper())]).collect(), trace: tr(t), err: None },
                Err(e) => err_res(format!("{e:?}")),
            };
            (res, tape.recycle())
        }
        Kind::Float => {
            let cols: Vec<Vec<f32>> = (0..n).map(|j| (0..len).map(|s| PV[(j * 3 + k * 5 + s * 7) % PV.len()]).collect()).collect();
            let tape = f.float_slice_tape(storage);
            let res = match evs.f.eval(&tape, &cols) {
                Ok(o) => {
                    let mut shape = vec![o.len()];
                    let mut data = vec![];
                    for r in 0..o.len() {
                        shape.push(o[r].len());
                        data.extend(o[r].iter().map(|v| canon(*v)));
                    }
                    Res { shape, data, trace: None, err: None }
                }
                Err(e) => err_res(format!("{e:?}")),
            };
            (res, tape.recycle())
        }
        Kind::Grad => {
            let cols: Vec<Vec<Grad>> = (0..n)
                .map(|j| (0..len).map(|s| Grad::new(PV[(j * 3 + k * 5 + s * 7) % PV.len()], (j == 0) as u8 as f32, (j == 1) as u8 as f32 * 0.5, (j >= 2) as u8 as f32 * -2.0)).collect())
                .collect();
            let tape = f.grad_slice_tape(storage);
            let res = match evs.g.eval(&tape, &cols) {
                Ok(o) => {
                    let mut shape = vec![o.len()];
                    let mut data = vec![];
                    for r in 0..o.len() {
                        shape.push(o[r].len());
                        data.extend(o[r].iter().flat_map(|g| [canon(g.v), canon(g.dx), canon(g.dy), canon(g.dz)]));
                    }
                    Res { shape, data, trace: None, err: None }
                }
                Err(e) => err_res(format!("{e:?}")),
            };
            (res, tape.recycle())
        }
    }
}

const LEN_PAIRS: [(usize, usize); 5] = [(9, 3), (3, 9), (0, 5), (5, 0), (17, 17)];
const N_SETS: usize = 3;

fn reuse_evaluators<F: MathFunction + Function<Trace = VmTrace>>(backend: &str, funcs: &[F], r: &mut Report, classes: &Classes) {
    for kind in KINDS {
        let lens: &[(usize, usize)] = if matches!(kind, Kind::Float | Kind::Grad) { &LEN_PAIRS } else { &[(1, 1)] };
        for a in 0..funcs.len() {
            for b in 0..funcs.len() {
                for &(l1, l2) in lens {
                    r.cases += 1;
                    let mut evs = Evs::<F>::new();
                    for k in 0..N_SETS {
                        let _ = eval_kind(&funcs[a], &mut evs, kind, k, l1, Default::default());
                    }
                    for k in 0..N_SETS {
                        let (got, _) = eval_kind(&funcs[b], &mut evs, kind, k + 1, l2, Default::default());
                        let (want, _) = eval_kind(&funcs[b], &mut Evs::<F>::new(), kind, k + 1, l2, Default::default());
                        if got != want {
                            classes.fail(r, format!("evaluator-reuse:{backend}:{kind:?}"), format!("{backend}:{kind:?}:T1=#{a} ({}) then T2=#{b} ({}):lens=({l1},{l2}):input-set={}", FAMILY[a], FAMILY[b], k + 1),
                                         format!("reused evaluator returns {got:?} but a fresh evaluator returns {want:?}"),
                                         json!({"contract":"reuse","part":"evaluator","backend":backend,"kind":format!("{kind:?}"),"t1":a,"t2":b,"l1":l1,"l2":l2}));
                            break;
                        }
                    }
                }
            }
        }
    }
}

/// JIT (or VM) tape storage recycled from another function's tape: 3-step chains T1 -> T2 -> T1
fn reuse_tape_storage<F: MathFunction + Function<Trace = VmTrace>>(backend: &str, funcs: &[F], r: &mut Report, classes: &Classes) {
    for kind in KINDS {
        let len = 11;
        let fresh: Vec<Res> = funcs.iter().map(|f| eval_kind(f, &mut Evs::<F>::new(), kind, 1, len, Default::default()).0).collect();
        for a in 0..funcs.len() {
            for b in 0..funcs.len() {
                r.cases += 1;
                let (ra, st) = eval_kind(&funcs[a], &mut Evs::<F>::new(), kind, 1, len, Default::default());
                let Some(st) = st else {
                    classes.fail(r, format!("tape-recycle-none:{backend}"), format!("{backend}:{kind:?}:#{a}"), "Tape::recycle of an unshared tape returned None".into(), json!({"contract":"reuse","part":"tape-storage","backend":backend,"t1":a}));
                    continue;
                };
                let (rb, st2) = eval_kind(&funcs[b], &mut Evs::<F>::new(), kind, 1, len, st);
                let (ra2, _) = eval_kind(&funcs[a], &mut Evs::<F>::new(), kind, 1, len, st2.unwrap_or_default());
                for (what, got, want) in [("T1 fresh", &ra, &fresh[a]), ("T2 on T1's storage", &rb, &fresh[b]), ("T1 on T2's storage", &ra2, &fresh[a])] {
                    if got != want {
                        classes.fail(r, format!("tape-storage:{backend}:{kind:?}"), format!("{backend}:{kind:?}:T1=#{a} ({}) T2=#{b} ({}):{what}", FAMILY[a], FAMILY[b]),
                                     format!("with recycled tape storage: {got:?}; with fresh storage: {want:?}"),
                                     json!({"contract":"reuse","part":"tape-storage","backend":backend,"kind":format!("{kind:?}"),"t1":a,"t2":b}));
                    }
                }
            }
        }
    }
}

/// first input set at which the point evaluator reports a trace
fn first_trace<F: Function<Trace = VmTrace>>(f: &F) -> Option<VmTrace> {
    let tape = f.point_tape(Default::default());
    let mut ev = F::new_point_eval();
    let n = f.vars().len();
    for k in 0..8 {
        let inp: Vec<f32> = (0..n).map(|j| PV[(j * 3 + k * 5) % PV.len()]).collect();
        if let Ok((_, Some(t))) = ev.eval(&tape, &inp) {
            return Some(t.clone());
        }
    }
    None
}

trait Inner<const N: usize> {
    fn inner(&self) -> &GenericVmFunction<N>;
}
impl<const N: usize> Inner<N> for GenericVmFunction<N> {
    fn inner(&self) -> &GenericVmFunction<N> {
        self
    }
}
impl Inner<JN> for JitFunction {
    fn inner(&self) -> &GenericVmFunction<JN> {
        self.into()
    }
}

fn describe<const N: usize>(g: &GenericVmFunction<N>) -> String {
    let d = g.data();
    // the variable map (Var -> input index) is part of the function: a simplified function keeps its parent's numbering
    let mut vars: Vec<(usize, String)> = d.vars.iter().map(|(v, i)| (i, format!("{v:?}"))).collect();
    vars.sort();
    format!("ssa={:?} choice_count={} output_count={} asm={:?} slot_count={} vars={:?}", d.verif_ssa().tape, d.choice_count(), d.output_count(), d.iter_asm().collect::<Vec<_>>(), d.slot_count(), vars)
}

fn reuse_simplify<const N: usize, F>(backend: &str, funcs: &[F], r: &mut Report, classes: &Classes)
where
    F: MathFunction + Function<Trace = VmTrace> + Inner<N>,
{
    let traces: Vec<Option<VmTrace>> = funcs.iter().map(first_trace).collect();
    for a in 0..funcs.len() {
        for b in 0..funcs.len() {
            let (Some(ta), Some(tb)) = (&traces[a], &traces[b]) else { continue };
            r.cases += 1;
            let sig = format!("{backend}:simplify T1=#{a} ({}) then T2=#{b} ({})", FAMILY[a], FAMILY[b]);
            let rep = json!({"contract":"reuse","part":"simplify","backend":backend,"t1":a,"t2":b});
            let res = std::panic::catch_unwind(std::panic::AssertUnwindSafe(|| {
                let mut ws = F::Workspace::default();
                let g1 = funcs[a].simplify(ta, Default::default(), &mut ws).map_err(|e| format!("{e:?}"))?;
                let d1 = describe(g1.inner());
                let Some(storage) = g1.recycle() else { return Err("Function::recycle of an unshared function returned None".to_string()) };
                // T2 with T1's recycled storage and the used workspace
                let g2 = funcs[b].simplify(tb, storage, &mut ws).map_err(|e| format!("{e:?}"))?;
                let fresh2 = funcs[b].simplify(tb, Default::default(), &mut Default::default()).map_err(|e| format!("{e:?}"))?;
                // and back: T1 again with T2's storage, same workspace
                let d2 = describe(g2.inner());
                let out2: Vec<Res> = (0..N_SETS).map(|k| eval_kind(&g2, &mut Evs::<F>::new(), Kind::Point, k, 1, Default::default()).0).collect();
                let want2: Vec<Res> = (0..N_SETS).map(|k| eval_kind(&fresh2, &mut Evs::<F>::new(), Kind::Point, k, 1, Default::default()).0).collect();
                let storage2 = g2.recycle().ok_or("second recycle returned None".to_string())?;
                let g1b = funcs[a].simplify(ta, storage2, &mut ws).map_err(|e| format!("{e:?}"))?;
                Ok((d1, describe(g1b.inner()), d2, describe(fresh2.inner()), out2, want2))
            }));
            match res {
                Err(_) => classes.fail(r, format!("simplify-panic:{backend}"), sig, "simplify with reused workspace / recycled storage panicked".into(), rep),
                Ok(Err(e)) => classes.fail(r, format!("simplify-err:{backend}"), sig, e, rep),
                Ok(Ok((d1, d1b, d2, dfresh2, out2, want2))) => {
                    if d2 != dfresh2 {
                        classes.fail(r, format!("simplify-tapes:{backend}"), sig.clone(), format!("T2 simplified with recycled storage + used workspace: {d2}; with fresh objects: {dfresh2}"), rep.clone());
                    }
                    if d1 != d1b {
                        classes.fail(r, format!("simplify-tapes:{backend}"), sig.clone(), format!("T1 simplified again with T2's storage: {d1b}; first time (fresh objects): {d1}"), rep.clone());
                    }
                    if out2 != want2 {
                        classes.fail(r, format!("simplify-values:{backend}"), sig, format!("outputs {out2:?} vs fresh {want2:?}"), rep);
                    }
                }
            }
        }
    }
}

fn family_of<F: MathFunction>() -> Vec<F> {
    (0..FAMILY.len()).map(|k| { let (c, roots) = build_family(k); F::new(&c, &roots).expect("family function") }).collect()
}

pub fn reuse(_thorough: bool) -> Report {
    let mut r = Report::new("reuse");
    let classes = Classes::default();
    let vm3: Vec<GenericVmFunction<3>> = family_of();
    let vm255: Vec<VmFunction> = family_of();
    let jit: Vec<JitFunction> = family_of();
    let shapes: Vec<String> = (0..FAMILY.len())
        .map(|k| {
            let inner: &GenericVmFunction<JN> = (&jit[k]).into();
            format!("#{k} {}: vars={} outputs={} choices={} slots(N=3)={} slots(N={JN})={}", FAMILY[k], vm3[k].vars().len(), vm3[k].output_count(), vm3[k].choice_count(), vm3[k].data().slot_count(), inner.data().slot_count())
        })
        .collect();
    let parts: Vec<usize> = (0..8).collect();
    let res = par_map(&parts, "reuse", |&p, r| match p {
        0 => reuse_evaluators("vm3", &vm3, r, &classes),
        1 => reuse_evaluators("vm255", &vm255, r, &classes),
        2 => reuse_evaluators("jit", &jit, r, &classes),
        3 => reuse_tape_storage("jit", &jit, r, &classes),
        4 => reuse_tape_storage("vm3", &vm3, r, &classes),
        5 => reuse_simplify::<3, _>("vm3", &vm3, r, &classes),
        6 => reuse_simplify::<255, _>("vm255", &vm255, r, &classes),
        _ => reuse_simplify::<JN, _>("jit", &jit, r, &classes),
    });
    merge(&mut r, res);
    r.space = format!(
        "family of {} functions built through Context: {}.  (1) evaluator reuse: for each backend in {{GenericVmFunction<3> (spills), VmFunction (255), JitFunction}} x each of the 4 evaluator kinds (point, interval, float-slice, grad-slice) x all {} ordered pairs (T1,T2): ONE evaluator object evaluates T1 on {N_SETS} input sets and then T2 on {N_SETS} input sets; every T2 result (outputs bitwise with NaN canonicalised, row/sample counts, reported trace) must equal a fresh evaluator's; bulk kinds with slice-length pairs {:?}.  (2) tape storage: for JitFunction and GenericVmFunction<3>, all ordered pairs x 4 tape kinds: T2's tape is built in the storage recycled from T1's tape (Tape::recycle), then T1's again in T2's; results must equal those with fresh storage.  (3) simplify: for each backend, all ordered pairs of family members that report a point trace: T1.simplify(fresh), recycle its storage into T2.simplify with the same Workspace, recycle again into T1.simplify; SSA tape (debug text), choice/output counts, register tape and slot count must equal those from fresh Storage/Workspace, and so must the outputs on {N_SETS} input sets",
        FAMILY.len(), shapes.join("; "), FAMILY.len() * FAMILY.len(), LEN_PAIRS);
    r.distinct = r.cases;
    r.exhaustive = true;
    classes.notes(&mut r);
    r.sample(json!({"T1":"wide (spills)","T2":"min(x,y)","kind":"Interval"}));
    r
}

pub fn replay(v: &serde_json::Value) -> bool {
    // the family is fixed and the whole contract takes well under a second: re-run and filter
    let rep = reuse(false);
    let mine: Vec<_> = rep.failures.iter().filter(|f| f["replay"]["part"] == v["part"] && f["replay"]["backend"] == v["backend"] && f["replay"]["t1"] == v["t1"] && f["replay"]["t2"] == v["t2"]).collect();
    for f in &mine {
        println!("{f}");
    }
    mine.is_empty()
}
