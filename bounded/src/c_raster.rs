//! C06 (bounded companion of the Verus unit `raster`): `fidget_raster::pixel::render` against per-pixel evaluation.
//!
//! For every shape x image size x tile-size list x view transform x z x {fill allowed, pixel-perfect} x {VM, JIT} x {one thread,
//! rayon pool}: every pixel of the rendered image is inside exactly when `Context::eval` at `cfg.mat() * (i, j)` is negative (values
//! within a rounding band of zero excepted), and in pixel-perfect mode carries that value.  This exercises what the unit assumes
//! (interval enclosure, simplification, bulk evaluation through the shape wrappers) and what it does not look at (`render_tiles`,
//! the per-thread workers, the assembly of root tiles into the image, `TileSizesRef::new`).
use crate::common::*;
use fidget_core::context::{Context, Node};
use fidget_core::eval::{Function, MathFunction};
use fidget_core::render::{ImageSize, RenderHints, ThreadPool, TileSizes};
use fidget_core::shape::Shape;
use fidget_core::vm::VmFunction;
use fidget_jit::JitFunction;
use fidget_raster::pixel::{DistancePixel, EvalConfig, RenderConfig, render};
use nalgebra::{Matrix3, Point2};
use serde_json::json;

fn shapes(ctx: &mut Context) -> Vec<(&'static str, Node)> {
    let (x, y, z) = (ctx.x(), ctx.y(), ctx.z());
    let mut v = vec![];
    // circle of radius 0.6
    let (x2, y2) = (ctx.square(x).unwrap(), ctx.square(y).unwrap());
    let s = ctx.add(x2, y2).unwrap();
    let r = ctx.sqrt(s).unwrap();
    v.push(("circle", ctx.sub(r, 0.6).unwrap()));
    // box: max(|x| - 0.5, |y| - 0.3)
    let (ax, ay) = (ctx.abs(x).unwrap(), ctx.abs(y).unwrap());
    let (bx, by) = (ctx.sub(ax, 0.5).unwrap(), ctx.sub(ay, 0.3).unwrap());
    let bx_ = ctx.max(bx, by).unwrap();
    v.push(("box", bx_));
    // union of the circle moved and the box, minus a wavy band: min/max choices at several depths
    let xm = ctx.sub(x, 0.4).unwrap();
    let xm2 = ctx.square(xm).unwrap();
    let s2 = ctx.add(xm2, y2).unwrap();
    let r2 = ctx.sqrt(s2).unwrap();
    let c2 = ctx.sub(r2, 0.35).unwrap();
    let u = ctx.min(c2, bx_).unwrap();
    let sx = ctx.mul(x, 9.0).unwrap();
    let w = ctx.sin(sx).unwrap();
    let w = ctx.mul(w, 0.1).unwrap();
    let band = ctx.sub(y, w).unwrap();
    let band = ctx.abs(band).unwrap();
    let band = ctx.sub(band, 0.05).unwrap();
    let nb = ctx.neg(band).unwrap();
    v.push(("csg", ctx.max(u, nb).unwrap()));
    // depends on z: a sphere cut by the slice height
    let z2 = ctx.square(z).unwrap();
    let s3 = ctx.add(s, z2).unwrap();
    let r3 = ctx.sqrt(s3).unwrap();
    v.push(("sphere", ctx.sub(r3, 0.7).unwrap()));
    // a half-plane far from zero almost everywhere: whole tiles are filled at depth 0
    v.push(("plane", ctx.add(x, 0.31).unwrap()));
    // partial functions: the interval of a tile that straddles the domain boundary is the NaN interval (undecided, never a fill)
    let xs = ctx.add(x, 0.3).unwrap();
    let sq = ctx.sqrt(xs).unwrap();
    v.push(("sqrt-domain", ctx.sub(sq, 0.6).unwrap()));
    let ys = ctx.add(y, 0.5).unwrap();
    let l = ctx.ln(ys).unwrap();
    let c = ctx.sub(r, 0.45).unwrap();
    v.push(("ln-min", ctx.min(l, c).unwrap()));
    v
}

fn check<F: Function + MathFunction + RenderHints>(
    r: &mut Report, backend: &str, ctx: &Context, name: &str, root: Node, size: (u32, u32), tiles: Option<&[usize]>, mat: Matrix3<f32>, z: f32, pp: bool, threads: bool, which_mat: usize,
) {
    r.cases += 1;
    let shape = Shape::<F>::new(ctx, root).unwrap();
    let cfg = RenderConfig { image_size: ImageSize::new(size.0, size.1), world_to_model: mat, pixel_perfect: pp, z };
    let ec = EvalConfig { tile_sizes: tiles.map(|t| TileSizes::new(t).unwrap()), threads: if threads { Some(&ThreadPool::Global) } else { None }, ..Default::default() };
    let sig = format!("{backend}:{name}:{}x{}:tiles={tiles:?}:mat={which_mat}:z={z}:pp={pp}:threads={threads}", size.0, size.1);
    let rep = json!({"contract":"render2d","backend":backend,"shape":name,"w":size.0,"h":size.1,"tiles":tiles,"mat":which_mat,"z":z.to_bits(),"pp":pp,"threads":threads});
    let img = match std::panic::catch_unwind(std::panic::AssertUnwindSafe(|| render(shape.try_into().expect("no vars"), &cfg, &ec))) {
        Ok(Some(i)) => i,
        Ok(None) => {
            r.fail(sig, "[render-none] render returned None without cancellation".into(), rep);
            return;
        }
        Err(_) => {
            r.fail(sig, "[render-panic] render panicked".into(), rep);
            return;
        }
    };
    let m = cfg.mat();
    let (w, h) = (size.0 as usize, size.1 as usize);
    for j in 0..h {
        for i in 0..w {
            let p = m.transform_point(&Point2::new(i as f32, j as f32));
            let want = ctx.eval_xyz(root, p.x, p.y, z).unwrap();
            // the renderer applies the transform in f32 inside the evaluator (and the interval evaluator on whole tiles): a band around zero is undecided
            let band = 2.0e-5 * (1.0 + want.abs()) + 1.0e-5;
            let px = img[(j, i)];
            match px.unpack() {
                DistancePixel::Value(v) => {
                    if (v - want).abs() > band && !(v.is_nan() && want.is_nan()) {
                        r.fail(format!("{sig}:px=({i},{j})"), format!("[pixel-value] pixel ({i},{j}) holds {v}, the shape evaluates to {want} there"), rep.clone());
                        return;
                    }
                }
                DistancePixel::Fill { inside, depth } => {
                    if pp {
                        r.fail(format!("{sig}:px=({i},{j})"), format!("[fill-in-pixel-perfect] pixel ({i},{j}) is a fill (depth {depth}) in pixel-perfect mode"), rep.clone());
                        return;
                    }
                    if want.abs() > band && inside != (want < 0.0) {
                        r.fail(format!("{sig}:px=({i},{j})"), format!("[fill-sign] pixel ({i},{j}) is filled inside={inside} at depth {depth}, the shape evaluates to {want} there"), rep.clone());
                        return;
                    }
                }
            }
            if want.abs() > band && px.inside() != (want < 0.0) {
                r.fail(format!("{sig}:px=({i},{j})"), format!("[inside] pixel ({i},{j}) reports inside={}, the shape evaluates to {want} there", px.inside()), rep.clone());
                return;
            }
        }
    }
}

fn mats() -> Vec<Matrix3<f32>> {
    vec![
        Matrix3::identity(),
        Matrix3::new(0.5, 0.0, 0.2, 0.0, 0.5, -0.1, 0.0, 0.0, 1.0),
        Matrix3::new(0.0, -1.3, 0.0, 1.3, 0.0, 0.25, 0.0, 0.0, 1.0),
        // shear with a non-uniform scale: the linear part of cfg.mat() is not symmetric (a rotation times the y-flip of the screen is)
        Matrix3::new(0.8, 0.35, 0.1, -0.2, 1.1, 0.05, 0.0, 0.0, 1.0),
    ]
}

fn run_all(r: &mut Report, thorough: bool, only: Option<&serde_json::Value>) {
    let mut ctx = Context::new();
    let shs = shapes(&mut ctx);
    let sizes: Vec<(u32, u32)> = if thorough { vec![(16, 16), (33, 33), (64, 64), (100, 100), (40, 24), (24, 57), (1, 1), (129, 129)] } else { vec![(16, 16), (33, 33), (64, 64), (40, 24), (24, 57), (1, 1)] };
    let tile_lists: Vec<Option<Vec<usize>>> = vec![None, Some(vec![8]), Some(vec![16, 4]), Some(vec![32, 8, 2]), Some(vec![64, 16, 4, 1]), Some(vec![6, 3])];
    let ms = mats();
    for (name, root) in &shs {
        for &size in &sizes {
            for tl in &tile_lists {
                for (mi, m) in ms.iter().enumerate() {
                    for &z in &[0.0f32, 0.45] {
                        if z != 0.0 && *name != "sphere" {
                            continue;
                        }
                        for pp in [false, true] {
                            for threads in [false, true] {
                                if threads && !(mi == 0 && size.0 >= 33) {
                                    continue;
                                }
                                if let Some(o) = only {
                                    let same = o["shape"].as_str() == Some(name) && o["w"].as_u64() == Some(size.0 as u64) && o["h"].as_u64() == Some(size.1 as u64) && o["mat"].as_u64() == Some(mi as u64)
                                        && o["pp"].as_bool() == Some(pp) && o["threads"].as_bool() == Some(threads) && o["z"].as_u64() == Some(z.to_bits() as u64)
                                        && o["tiles"] == json!(tl);
                                    if !same {
                                        continue;
                                    }
                                }
                                let be = only.and_then(|o| o["backend"].as_str());
                                if be.is_none() || be == Some("vm") {
                                    check::<VmFunction>(r, "vm", &ctx, name, *root, size, tl.as_deref(), *m, z, pp, threads, mi);
                                }
                                if be.is_none() || be == Some("jit") {
                                    check::<JitFunction>(r, "jit", &ctx, name, *root, size, tl.as_deref(), *m, z, pp, threads, mi);
                                }
                            }
                        }
                    }
                }
            }
        }
    }
}

pub fn render2d(thorough: bool) -> Report {
    let mut r = Report::new("render2d");
    run_all(&mut r, thorough, None);
    r.distinct = r.cases;
    r.space = "7 shapes (circle, box, a CSG of min/max with a sine band, a z-dependent sphere, a half-plane, two with partial functions whose domain boundary crosses tiles: sqrt(x+0.3)-0.6, min(ln(y+0.5), circle)) x image sizes incl. non-square, non-multiples of the tile size and 1x1 x tile-size lists {default, [8], [16,4], [32,8,2], [64,16,4,1], [6,3]} x 4 view transforms (identity, scale+shift, rotation, shear with non-uniform scale) x slice heights x {fills allowed, pixel-perfect} x {VM, JIT} x {no thread pool, rayon}; every pixel compared with Context::eval at cfg.mat() * (i, j): inside flag, fill sign and (pixel-perfect or unfilled) value, with a band of 2e-5 relative around zero / the value".into();
    r
}

pub fn replay(v: &serde_json::Value) -> bool {
    let mut r = Report::new("render2d");
    run_all(&mut r, true, Some(v));
    for f in &r.failures {
        println!("{} | {}", f["signature"], f["what"]);
    }
    println!("{} configuration(s) re-run", r.cases);
    r.failures.is_empty()
}
