//! C04 / C10, render-handle clause: `RenderHandle::simplify` caches the most recent simplification keyed by its trace, and
//! `RenderHandle::recycle` hands shape and tape storage back to shared pools.  Contract: whatever sequence of boxes a handle has
//! seen (cache hits, cache replacements, nested children) and whatever the storage pools were used for before, the handle
//! returned for a box evaluates, at points of that box, bit-identically to the original shape.
use crate::common::*;
use fidget_core::context::Tree;
use fidget_core::eval::{Function, MathFunction};
use fidget_core::render::RenderHandle;
use fidget_core::shape::{EzShape, Shape};
use fidget_core::types::Interval;
use fidget_core::vm::VmFunction;
use fidget_jit::JitFunction;
use serde_json::json;

fn funcs() -> Vec<(&'static str, Tree)> {
    let (x, y, z) = (Tree::x(), Tree::y(), Tree::z());
    vec![
        ("max(min(x,y), z-0.5)", x.clone().min(y.clone()).max(z.clone() - 0.5)),
        ("min(sqrt(x2+y2)-1, max(x,-y)) + min(z, 0.25)", ((x.clone().square() + y.clone().square()).sqrt() - 1.0).min(x.clone().max(-y.clone())) + z.clone().min(0.25)),
        ("max(min(x,y), min(-x,z))*2 + min(y,z)", x.clone().min(y.clone()).max((-x.clone()).min(z.clone())) * 2.0 + y.clone().min(z.clone())),
        ("min(min(x, y+1), min(z, x*y)) - max(x, max(y, z))", x.clone().min(y.clone() + 1.0).min(z.clone().min(x.clone() * y.clone())) - x.clone().max(y.clone().max(z.clone()))),
        ("x + y*z (no choice)", x.clone() + y.clone() * z.clone()),
    ]
}

type Bx = [(f32, f32); 3];

/// boxes in which different clauses of the min/max nodes are decided, with a sub-box each
fn boxes() -> Vec<(Bx, Bx)> {
    vec![
        ([(0.0, 1.0), (2.0, 3.0), (-1.0, 0.0)], [(0.25, 0.5), (2.0, 2.5), (-0.5, -0.25)]),
        ([(2.0, 3.0), (0.0, 1.0), (-1.0, 0.0)], [(2.5, 3.0), (0.5, 1.0), (-1.0, -0.5)]),
        ([(-3.0, -2.0), (-1.0, 1.0), (4.0, 5.0)], [(-2.5, -2.0), (-1.0, 0.0), (4.0, 4.5)]),
        ([(-1.0, 1.0), (-1.0, 1.0), (-1.0, 1.0)], [(0.0, 1.0), (-1.0, 0.0), (0.5, 1.0)]),
        ([(0.5, 0.75), (0.5, 0.75), (3.0, 4.0)], [(0.5, 0.6), (0.7, 0.75), (3.0, 3.5)]),
        ([(5.0, 6.0), (-6.0, -5.0), (0.0, 0.125)], [(5.0, 5.5), (-5.5, -5.0), (0.0, 0.0625)]),
    ]
}

fn samples(b: &Bx) -> (Vec<f32>, Vec<f32>, Vec<f32>) {
    let (mut xs, mut ys, mut zs) = (vec![], vec![], vec![]);
    for i in 0..3 { for j in 0..3 { for k in 0..3 {
        let at = |(lo, hi): (f32, f32), t: usize| match t { 0 => lo, 1 => lo + (hi - lo) * 0.5, _ => hi };
        xs.push(at(b[0], i)); ys.push(at(b[1], j)); zs.push(at(b[2], k));
    } } }
    (xs, ys, zs)
}

fn parent_values<F: Function + MathFunction + Clone>(shape: &Shape<F>, b: &Bx) -> Vec<u32> {
    let (xs, ys, zs) = samples(b);
    let t = shape.ez_point_tape();
    let mut e = Shape::<F>::new_point_eval();
    (0..xs.len()).map(|i| e.eval(&t, xs[i], ys[i], zs[i]).map(|v| v.0.to_bits()).unwrap_or(0xdead_beef)).collect()
}

struct Pools<F: Function> { ws: F::Workspace, ss: Vec<F::Storage>, ts: Vec<F::TapeStorage> }

/// one visit: interval-evaluate the handle on `b`, simplify with the trace (if any), evaluate the returned handle's float-slice
/// tape on the sample points of `b`; then the same one level down on the sub-box
fn visit<F: Function + MathFunction + Clone>(h: &mut RenderHandle<F>, p: &mut Pools<F>, b: &Bx, sub: &Bx) -> Result<(Vec<u32>, Vec<u32>), String> {
    let iv = |q: (f32, f32)| Interval::new(q.0, q.1);
    let mut ie = Shape::<F>::new_interval_eval();
    let mut fe = Shape::<F>::new_float_slice_eval();
    let trace = {
        let t = h.i_tape(&mut p.ts);
        let (_v, tr) = ie.eval(t, iv(b[0]), iv(b[1]), iv(b[2])).map_err(|e| format!("interval eval: {e:?}"))?;
        tr.cloned()
    };
    let child: &mut RenderHandle<F> = match &trace { Some(tr) => h.simplify(tr, &mut p.ws, &mut p.ss, &mut p.ts), None => h };
    let (xs, ys, zs) = samples(b);
    let got: Vec<u32> = { let t = child.f_tape(&mut p.ts); fe.eval(t, &xs, &ys, &zs).map_err(|e| format!("float-slice eval: {e:?}"))?.iter().map(|v| v.to_bits()).collect() };
    // one level down
    let trace2 = {
        let t = child.i_tape(&mut p.ts);
        let (_v, tr) = ie.eval(t, iv(sub[0]), iv(sub[1]), iv(sub[2])).map_err(|e| format!("interval eval (child): {e:?}"))?;
        tr.cloned()
    };
    let grand: &mut RenderHandle<F> = match &trace2 { Some(tr) => child.simplify(tr, &mut p.ws, &mut p.ss, &mut p.ts), None => child };
    let (xs, ys, zs) = samples(sub);
    let got2: Vec<u32> = { let t = grand.f_tape(&mut p.ts); fe.eval(t, &xs, &ys, &zs).map_err(|e| format!("float-slice eval (grandchild): {e:?}"))?.iter().map(|v| v.to_bits()).collect() };
    Ok((got, got2))
}

const SCRIPTS: [&[usize]; 6] = [&[0, 0, 1, 1, 0], &[0, 1, 0, 1, 2, 3], &[3, 3, 4, 3, 5, 5, 0], &[2, 5, 2, 5, 2], &[4, 1, 1, 4, 0, 3], &[5, 4, 3, 2, 1, 0, 0, 1, 2, 3, 4, 5]];

fn run<F: Function + MathFunction + Clone>(backend: &str, r: &mut Report) where F::Workspace: Default {
    let fs = funcs();
    let bs = boxes();
    let shapes: Vec<Shape<F>> = fs.iter().map(|(_, t)| Shape::<F>::from(t.clone())).collect();
    // storage pools shared by every handle of this backend (what the renderers do per thread)
    let mut pools: Pools<F> = Pools { ws: Default::default(), ss: vec![], ts: vec![] };
    for (si, script) in SCRIPTS.iter().enumerate() {
        for (fi, (fname, _)) in fs.iter().enumerate() {
            let mut h = RenderHandle::new(shapes[fi].clone());
            for (step, &bi) in script.iter().enumerate() {
                r.cases += 1;
                let (b, sub) = &bs[bi];
                let want = parent_values(&shapes[fi], b);
                let want2 = parent_values(&shapes[fi], sub);
                let sig = format!("render-handle:{backend}:{fname}:script{si}:step{step}:box{bi}");
                match visit(&mut h, &mut pools, b, sub) {
                    Err(e) => r.fail(sig, format!("[render-handle] {fname} on the {backend} back end, script {:?}, step {step} (box {bi}): {e}", script), json!({"contract":"render_handle"})),
                    Ok((got, got2)) => {
                        if got != want {
                            let k = (0..got.len().min(want.len())).find(|&k| got[k] != want[k]).unwrap_or(0);
                            r.fail(sig.clone(), format!("[render-handle] {fname} on the {backend} back end, script {:?}, step {step}: the handle returned by simplify for box {bi} {:?} gives {} at sample {k} of that box, the original shape gives {}", script, b, fmt_f(f32::from_bits(*got.get(k).unwrap_or(&0))), fmt_f(f32::from_bits(*want.get(k).unwrap_or(&0)))), json!({"contract":"render_handle"}));
                        }
                        if got2 != want2 {
                            let k = (0..got2.len().min(want2.len())).find(|&k| got2[k] != want2[k]).unwrap_or(0);
                            r.fail(format!("{sig}:nested"), format!("[render-handle] {fname} on the {backend} back end, script {:?}, step {step}: the nested handle for the sub-box of box {bi} gives {} at sample {k}, the original shape gives {}", script, fmt_f(f32::from_bits(*got2.get(k).unwrap_or(&0))), fmt_f(f32::from_bits(*want2.get(k).unwrap_or(&0)))), json!({"contract":"render_handle"}));
                        }
                    }
                }
            }
            h.recycle(&mut pools.ss, &mut pools.ts);
        }
    }
}

pub fn render_handle(_thorough: bool) -> Report {
    let mut r = Report::new("render_handle");
    run::<VmFunction>("vm", &mut r);
    run::<JitFunction>("jit", &mut r);
    r.space = format!("{} shapes (4 with nested min/max choices, 1 without) x {} visiting scripts over {} boxes (repeated boxes = cache hits, alternating boxes = cache replacement; every visit also simplifies one level further on a sub-box) x {{VM, JIT}}, all handles of a back end sharing one workspace and one pair of storage pools that every finished handle is recycled into: at 27 sample points of the box (corners, edge and face centres, centre) the float-slice tape of the handle returned by RenderHandle::simplify is bit-identical to a fresh point evaluation of the original shape", funcs().len(), SCRIPTS.len(), boxes().len());
    r.distinct = r.cases;
    r.exhaustive = true;
    r.sample(json!({"shape":"max(min(x,y), z-0.5)","script":[0,1,0,1,2,3]}));
    r
}

pub fn replay(v: &serde_json::Value) -> bool {
    let _ = v;
    !render_handle(false).failures.is_empty()
}
