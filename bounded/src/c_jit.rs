//! C02 (and the JIT legs of C03 / C05): the native evaluators agree with the VM interpreter on the
//! same register tape.
//!
//! Both sides are built from ONE `VmData<12>` (hook-built one-op tapes, or `RegTape::new::<12>` of a
//! random well-formed SSA tape), so the only thing that differs is the evaluator.
use crate::c_alloc::gen_ssa;
use crate::common::*;
use crate::helpers::*;
use fidget_core::compiler::SsaTape;
use fidget_core::eval::{BulkEvaluator, Function, Tape, TracingEvaluator};
use fidget_core::types::{Grad, Interval};
use fidget_jit::JitFunction;
use serde_json::json;

type JitStorage = <JitFunction as Function>::TapeStorage;

fn place_from_str(s: &str) -> Place {
    // "Direct(0, 1, 2)" / "Spilled(3, 1, 2)"
    let nums: Vec<u8> = s.split(|c: char| !c.is_ascii_digit()).filter(|t| !t.is_empty()).filter_map(|t| t.parse().ok()).collect();
    let g = |i: usize| nums.get(i).cloned().unwrap_or(0);
    if s.starts_with("Spilled") { Place::Spilled(g(0), g(1), g(2)) } else { Place::Direct(g(0), g(1), g(2)) }
}

fn deep_params(rng: &mut Rng, i: usize) -> (usize, usize, usize, usize) {
    let n_ops = 1 + rng.below(if i % 3 == 0 { 60 } else { 24 });
    let n_in = 1 + rng.below(3);
    let n_out = 1 + rng.below(3);
    let width = 1 + rng.below(if i % 2 == 0 { 40 } else { 8 });
    (n_ops, n_in, n_out, width)
}

fn gen_deep(seed: u64, i: usize) -> Option<(SsaTape, usize)> {
    let mut rng = Rng::new(seed.wrapping_mul(1_000_003).wrapping_add(i as u64).wrapping_add(0xC02));
    let (n_ops, n_in, n_out, width) = deep_params(&mut rng, i);
    if i % 2 == 1 {
        // wide tape: 13..=40 values live at once, so the native code must spill to the stack
        let w = 13 + rng.below(28);
        let ssa = gen_wide(&mut rng, n_in, w, n_out, WideOps::All);
        if let Err(why) = ssa_wf(&ssa.tape, ssa.tape.len(), true) {
            panic!("gen_wide produced an ill-formed tape: {why}");
        }
        return Some((ssa, n_in));
    }
    let (ssa, n_in) = gen_ssa(&mut rng, n_ops, n_in, n_out, width);
    if ssa_wf(&ssa.tape, ssa.tape.len(), true).is_err() {
        return None;
    }
    Some((ssa, n_in))
}

fn deep_inputs(seed: u64, i: usize, n_in: usize, g: &[f32], count: usize) -> Vec<Vec<f32>> {
    let mut rng = Rng::new(seed.wrapping_mul(7_777_777).wrapping_add(i as u64).wrapping_add(0x1257));
    (0..count).map(|_| (0..n_in).map(|_| g[rng.below(g.len())]).collect()).collect()
}

pub fn jit_point(thorough: bool, seed: u64) -> Report {
    let g = grid(thorough);
    let places = jit_placements(thorough);
    let table = op_table();
    let mut r = par_map(&table, "jit_point", |case, r| {
        let mut jev = JitFunction::new_point_eval();
        let mut vev = JVm::new_point_eval();
        let mut storage: JitStorage = Default::default();
        for &place in &places {
            for &imm in &imms_for(case, &g) {
                let (vm, jit, two_inputs) = one_op_pair(case, place, imm, 1);
                let vt = vm.point_tape(Default::default());
                let jt = jit.point_tape(std::mem::take(&mut storage));
                let ys: Vec<f32> = if two_inputs { g.clone() } else { vec![0.0] };
                let mut xs = g.clone();
                if case.kind == Kind::Reg {
                    xs.extend(boundary_values());
                }
                for &x in &xs {
                    for &y in &ys {
                        r.cases += 1;
                        let want = vev.eval(&vt, &[x, y]).map(|(o, _)| o.to_vec());
                        let got = jev.eval(&jt, &[x, y]).map(|(o, _)| o.to_vec());
                        let (a, b) = operands(case, two_inputs, x, y, imm);
                        let zero_ok = is_minmax(case) && a == 0.0 && b == 0.0;
                        let bad = match (&got, &want) {
                            (Ok(gv), Ok(wv)) => {
                                if gv.len() != 1 || wv.len() != 1 {
                                    Some(format!("output counts {} / {}", gv.len(), wv.len()))
                                } else if !c02_eq(gv[0], wv[0], zero_ok) {
                                    Some(format!("JIT {} != VM {}", fmt_f(gv[0]), fmt_f(wv[0])))
                                } else {
                                    None
                                }
                            }
                            (a, b) => Some(format!("eval results: jit {:?} vm {:?}", a.as_ref().err(), b.as_ref().err())),
                        };
                        if let Some(what) = bad {
                            r.fail(format!("{}:{place:?}:x={},y={},imm={}", case.name, fmt_f(x), fmt_f(y), fmt_f(imm)), what,
                                   json!({"contract":"jit_point","op":case.name,"place":format!("{place:?}"),"x":x.to_bits(),"y":y.to_bits(),"imm":imm.to_bits()}));
                        }
                    }
                }
                storage = jt.recycle().unwrap_or_default();
            }
        }
    });
    let one_op_cases = r.cases;
    // deep random tapes
    let rounds: usize = if thorough { 60000 } else { 6000 };
    let per = if thorough { 24 } else { 12 };
    let idx: Vec<usize> = (0..rounds).collect();
    let skipped = std::sync::atomic::AtomicU64::new(0);
    let spilling = std::sync::atomic::AtomicU64::new(0);
    let deep = par_map(&idx, "jit_point", |&i, r| {
        let Some((ssa, n_in)) = gen_deep(seed, i) else { return };
        let (vm, jit) = pair_from_ssa(&ssa, n_in);
        if vm.data().slot_count() > JN {
            spilling.fetch_add(1, std::sync::atomic::Ordering::Relaxed);
        }
        let vt = vm.point_tape(Default::default());
        let jt = jit.point_tape(Default::default());
        let mut jev = JitFunction::new_point_eval();
        let mut vev = JVm::new_point_eval();
        for inp in deep_inputs(seed, i, n_in, &g, per) {
            if bit_ambiguous(&ssa.tape, &inp) {
                skipped.fetch_add(1, std::sync::atomic::Ordering::Relaxed);
                continue;
            }
            r.cases += 1;
            let want = vev.eval(&vt, &inp).map(|(o, _)| o.to_vec());
            let got = jev.eval(&jt, &inp).map(|(o, _)| o.to_vec());
            let bad = match (&got, &want) {
                (Ok(gv), Ok(wv)) => {
                    if gv.len() != wv.len() {
                        Some(format!("output counts {} / {}", gv.len(), wv.len()))
                    } else {
                        (0..gv.len()).find(|&k| !bits_eq(gv[k], wv[k])).map(|k| format!("output {k}: JIT {} != VM {}", fmt_f(gv[k]), fmt_f(wv[k])))
                    }
                }
                (a, b) => Some(format!("eval results: jit {:?} vm {:?}", a.as_ref().err(), b.as_ref().err())),
            };
            if let Some(what) = bad {
                let bits: Vec<u32> = inp.iter().map(|v| v.to_bits()).collect();
                r.fail(format!("deep:seed={seed}:tape#{i}:inputs={:?}", inp.iter().map(|v| fmt_f(*v)).collect::<Vec<_>>()),
                       format!("{what}; ssa tape = {:?}", ssa.tape),
                       json!({"contract":"jit_point","deep":true,"seed":seed,"index":i,"inputs":bits}));
            }
        }
    });
    let deep_cases = deep.cases;
    merge(&mut r, deep);
    r.space = format!(
        "PART 1 (complete): every op case of the table ({} RegOp variants; Load/Store/Input/Output exercised by every tape) x {} placements with registers < {JN} and memory slots from {JN} (incl. out==lhs, out==rhs, all-equal, highest registers, operands/result through stack spills) x every immediate of the {}-value grid for the reg/imm and imm/reg forms x every operand (pair) of the grid: JitPointEval::eval == VmPointEval::<{JN}>::eval on the same VmData, bitwise, NaN=NaN, and for Min/Max with both operands zero either zero ({one_op_cases} evaluations).  PART 2 (seeded, seed {seed}): {rounds} random well-formed SSA tapes: even indices from c_alloc::gen_ssa (1..=60 op nodes, operand reach up to 40), odd indices from helpers::gen_wide (13..=40 values computed first and all folded later in random order with every reg/reg op, out-of-line sin/exp/atan/ln/tan/atan2/mod calls in between); 1..=3 inputs/outputs; compiled with RegTape::new::<{JN}>, {} of them with stack spills, x {per} random grid input vectors, compared bitwise (NaN=NaN); inputs for which the reference run shows a Min/Max of opposite-sign zeros or a NaN entering Rand/Mix are skipped ({} skipped, {deep_cases} compared)",
        table.len(), places.len(), g.len(), spilling.load(std::sync::atomic::Ordering::Relaxed), skipped.load(std::sync::atomic::Ordering::Relaxed));
    r.distinct = r.cases;
    r.exhaustive = false;
    r.notes.push(format!("part 1 is exhaustive for its stated space ({one_op_cases} evaluations); part 2 is a seeded sample"));
    r.sample(json!({"op":"MinRegImm","place":"Direct(0, 0, 1)","x":"-0.0","imm":"0.0","note":"zero sign may differ"}));
    r.sample(json!({"deep":"tape#0","inputs":"[NaN, 1.0]"}));
    r
}

fn bulk_lens() -> usize {
    4 * SIMD + 3
}

pub fn jit_bulk(thorough: bool, seed: u64) -> Report {
    let g = grid(thorough);
    let places = jit_placements(thorough);
    let table = op_table();
    let max_len = bulk_lens();
    let (px, py) = pair_lanes(&g);
    let mut r = par_map(&table, "jit_bulk", |case, r| {
        let mut jev = JitFunction::new_float_slice_eval();
        let mut vev = JVm::new_float_slice_eval();
        let mut storage: JitStorage = Default::default();
        for (pi, &place) in places.iter().enumerate() {
            for (ii, &imm) in imms_for(case, &g).iter().enumerate() {
                // 1 output for the full product; 2 and 3 outputs for the first immediate on the first, seventh placement
                let n_outs: &[usize] = if ii == 0 && (pi == 0 || pi == 6) { &[1, 2, 3] } else { &[1] };
                for &n_out in n_outs {
                    let (vm, jit, two_inputs) = one_op_pair(case, place, imm, n_out);
                    let vt = vm.float_slice_tape(Default::default());
                    let jt = jit.float_slice_tape(std::mem::take(&mut storage));
                    for len in 0..=max_len {
                        let mut start = 0;
                        loop {
                            let end = (start + len).min(px.len());
                            let xs = &px[start..end];
                            let ys = &py[start..end];
                            r.cases += 1;
                            let sig = || format!("{}:{place:?}:imm={}:outs={n_out}:len={len}:start={start}", case.name, fmt_f(imm));
                            let rep = || json!({"contract":"jit_bulk","op":case.name,"place":format!("{place:?}"),"imm":imm.to_bits(),"n_out":n_out,"len":len,"start":start,"thorough":thorough});
                            let want: Result<Vec<Vec<f32>>, String> = vev.eval(&vt, &[xs, ys]).map(|o| (0..o.len()).map(|k| o[k].to_vec()).collect()).map_err(|e| format!("{e:?}"));
                            let got: Result<Vec<Vec<f32>>, String> = jev.eval(&jt, &[xs, ys]).map(|o| (0..o.len()).map(|k| o[k].to_vec()).collect()).map_err(|e| format!("{e:?}"));
                            match (got, want) {
                                (Ok(gv), Ok(wv)) => {
                                    if gv.len() != n_out || wv.len() != n_out || gv.iter().any(|row| row.len() != xs.len()) || wv.iter().any(|row| row.len() != xs.len()) {
                                        r.fail(sig(), format!("shape: JIT {} rows {:?}, VM {} rows, expected {n_out} rows of {}", gv.len(), gv.iter().map(|v| v.len()).collect::<Vec<_>>(), wv.len(), xs.len()), rep());
                                    } else {
                                        'rows: for o in 0..n_out {
                                            for k in 0..xs.len() {
                                                let (a, b) = operands(case, two_inputs, xs[k], ys[k], imm);
                                                let zero_ok = o == 0 && is_minmax(case) && a == 0.0 && b == 0.0;
                                                // outputs 1, 2 may alias the result register: allow the zero rule there as well when they do
                                                let zero_ok = zero_ok || (o > 0 && is_minmax(case) && a == 0.0 && b == 0.0 && gv[o][k] == 0.0 && wv[0][k] == 0.0 && bits_eq(wv[o][k], wv[0][k]));
                                                if !c02_eq(gv[o][k], wv[o][k], zero_ok) {
                                                    r.fail(format!("{}:lane={k}:out={o}:x={},y={}", sig(), fmt_f(xs[k]), fmt_f(ys[k])), format!("JIT {} != VM {}", fmt_f(gv[o][k]), fmt_f(wv[o][k])), rep());
                                                    break 'rows;
                                                }
                                            }
                                        }
                                    }
                                }
                                (a, b) => r.fail(sig(), format!("eval results: jit {:?} vm {:?}", a.err(), b.err()), rep()),
                            }
                            if len == 0 || end >= px.len() {
                                break;
                            }
                            start += len;
                        }
                    }
                    storage = jt.recycle().unwrap_or_default();
                }
            }
        }
    });
    let one_op_cases = r.cases;
    let rounds: usize = if thorough { 20000 } else { 3000 };
    let idx: Vec<usize> = (0..rounds).collect();
    let spilling = std::sync::atomic::AtomicU64::new(0);
    let skipped_lanes = std::sync::atomic::AtomicU64::new(0);
    let lens: Vec<usize> = if thorough { (0..=max_len).collect() } else { vec![0, 1, SIMD - 1, SIMD, SIMD + 1, 2 * SIMD, 2 * SIMD + 3, 4 * SIMD + 3] };
    let deep = par_map(&idx, "jit_bulk", |&i, r| {
        let Some((ssa, n_in)) = gen_deep(seed.wrapping_add(0xB01C), i) else { return };
        let (vm, jit) = pair_from_ssa(&ssa, n_in);
        if vm.data().slot_count() > JN {
            spilling.fetch_add(1, std::sync::atomic::Ordering::Relaxed);
        }
        let n_out = ssa.output_count;
        let vt = vm.float_slice_tape(Default::default());
        let jt = jit.float_slice_tape(Default::default());
        let mut jev = JitFunction::new_float_slice_eval();
        let mut vev = JVm::new_float_slice_eval();
        let lanes = deep_inputs(seed, i, n_in, &g, max_len);
        for &len in &lens {
            r.cases += 1;
            let cols: Vec<Vec<f32>> = (0..n_in).map(|v| (0..len).map(|k| lanes[k][v]).collect()).collect();
            let want: Result<Vec<Vec<f32>>, String> = vev.eval(&vt, &cols).map(|o| (0..o.len()).map(|k| o[k].to_vec()).collect()).map_err(|e| format!("{e:?}"));
            let got: Result<Vec<Vec<f32>>, String> = jev.eval(&jt, &cols).map(|o| (0..o.len()).map(|k| o[k].to_vec()).collect()).map_err(|e| format!("{e:?}"));
            let sig = format!("deep:seed={seed}:tape#{i}:len={len}");
            let rep = json!({"contract":"jit_bulk","deep":true,"seed":seed,"index":i,"len":len});
            match (got, want) {
                (Ok(gv), Ok(wv)) => {
                    if gv.len() != n_out || wv.len() != n_out || gv.iter().any(|row| row.len() != len) {
                        r.fail(sig, format!("shape: JIT {} rows {:?}, expected {n_out} rows of {len}", gv.len(), gv.iter().map(|v| v.len()).collect::<Vec<_>>()), rep);
                        continue;
                    }
                    'l: for k in 0..len {
                        if bit_ambiguous(&ssa.tape, &lanes[k]) {
                            skipped_lanes.fetch_add(1, std::sync::atomic::Ordering::Relaxed);
                            continue;
                        }
                        for o in 0..n_out {
                            if !bits_eq(gv[o][k], wv[o][k]) {
                                r.fail(format!("{sig}:lane={k}:out={o}:inputs={:?}", lanes[k].iter().map(|v| fmt_f(*v)).collect::<Vec<_>>()),
                                       format!("JIT {} != VM {}; ssa tape = {:?}", fmt_f(gv[o][k]), fmt_f(wv[o][k]), ssa.tape), rep);
                                break 'l;
                            }
                        }
                    }
                }
                (a, b) => r.fail(sig, format!("eval results: jit {:?} vm {:?}", a.err(), b.err()), rep),
            }
        }
    });
    let deep_cases = deep.cases;
    merge(&mut r, deep);
    r.space = format!(
        "PART 1 (complete): every op case ({}) x {} placements (registers < {JN}, memory from {JN}) x every grid immediate ({} values) for reg/imm and imm/reg forms x every slice length 0..={max_len} (= 4*SIMD+3, SIMD = {SIMD}) x consecutive windows over all {} ordered operand pairs (every pair appears at some lane for every length >= 1); 1 output everywhere, and 2 and 3 outputs for the first immediate on placements #0 (direct) and #6 (spilled): JitFloatSliceEval::eval vs VmFloatSliceEval::<{JN}>::eval on the same VmData: exactly `outputs` rows, exactly `len` samples per row, lanes bitwise equal (NaN=NaN, either zero for Min/Max of two zeros) ({one_op_cases} slice evaluations).  PART 2 (seeded, seed {seed}): {rounds} random well-formed SSA tapes (as in jit_point part 2, 1..=3 outputs, {} with stack spills) x slice lengths {:?} of random grid lanes, lanes with a zero-sign-ambiguous Min/Max or a NaN into Rand/Mix skipped ({} lanes skipped, {deep_cases} slice evaluations)",
        table.len(), places.len(), g.len(), px.len(), spilling.load(std::sync::atomic::Ordering::Relaxed), lens, skipped_lanes.load(std::sync::atomic::Ordering::Relaxed));
    r.distinct = r.cases;
    r.exhaustive = false;
    r.notes.push(format!("part 1 is exhaustive for its stated space ({one_op_cases} slice evaluations); part 2 is a seeded sample"));
    r.sample(json!({"op":"AtanRegReg","place":"Spilled(3, 1, 2)","len":11,"outs":3}));
    r
}

/// interval equality used by `jit_interval`
fn iv_equal(j: Interval, v: Interval, ulps: u64) -> bool {
    if j.has_nan() || v.has_nan() {
        return j.has_nan() && v.has_nan();
    }
    let eqb = |a: f32, b: f32| a == b || ulp_dist(a, b) <= ulps;
    eqb(j.lower(), v.lower()) && eqb(j.upper(), v.upper())
}

fn iv_relation(j: Interval, v: Interval) -> &'static str {
    if j.has_nan() && !v.has_nan() {
        "JIT returns the NaN interval, VM a proper interval"
    } else if v.has_nan() && !j.has_nan() {
        "VM returns the NaN interval, JIT a proper interval"
    } else if j.lower() <= v.lower() && j.upper() >= v.upper() {
        "JIT interval is wider (encloses the VM interval)"
    } else if v.lower() <= j.lower() && v.upper() >= j.upper() {
        "JIT interval is NARROWER than the VM interval"
    } else {
        "intervals overlap/disjoint (neither encloses the other)"
    }
}

pub const IV_ULPS: u64 = 0;

fn ulp_slack(v: f32) -> f32 {
    if !v.is_finite() {
        return 0.0; // an infinite bound is exact (inf - inf would be NaN)
    }
    let m = v.abs().max(f32::MIN_POSITIVE);
    (m * f32::EPSILON * 4.0).max(1.0e-44)
}

/// enclosure test of interp_interval (NaN interval or NaN point result always pass; 4 ulp slack on
/// finite bounds)
fn encloses(i: Interval, v: f32) -> bool {
    if i.has_nan() || v.is_nan() {
        return true;
    }
    let (lo, hi) = (i.lower(), i.upper());
    v >= lo - ulp_slack(lo) && v <= hi + ulp_slack(hi)
}

/// `jit_interval` (C03): the native interval evaluator encloses the reference point results.
/// `jit_interval_valid` (C11): its results are valid intervals (lower <= upper or both NaN).
/// Same enumeration; each contract records only the failure classes of its own statement.
pub fn jit_interval(thorough: bool) -> Report {
    jit_interval_mode(thorough, false)
}
pub fn jit_interval_valid(thorough: bool) -> Report {
    let mut r = jit_interval_mode(thorough, true);
    r.contract = "jit_interval_valid".into();
    r
}
fn jit_interval_mode(thorough: bool, validity: bool) -> Report {
    let small = interval_values(thorough);
    let ig = interval_grid(&small);
    let table = op_table();
    let places = [Place::Direct(0, 1, 2), Place::Direct(0, 0, 1), Place::Direct(1, 0, 1), Place::Spilled(3, 1, 2)];
    let classes = Classes::default();
    let observations = Classes::default();
    let mut r = par_map(&table, "jit_interval", |case, r| {
        let mut jev = JitFunction::new_interval_eval();
        let mut vev = JVm::new_interval_eval();
        let mut storage: JitStorage = Default::default();
        let is_atan2 = matches!(case.reference, Ref::Bin(fidget_core::context::BinaryOpcode::Atan));
        for &place in &places {
            for &imm in &imms_for(case, &small) {
                let (vm, jit, two_inputs) = one_op_pair(case, place, imm, 1);
                let vt = vm.interval_tape(Default::default());
                let jt = jit.interval_tape(std::mem::take(&mut storage));
                let bs: Vec<Interval> = if two_inputs { ig.clone() } else { vec![Interval::from(0.0)] };
                for &ia in &ig {
                    for &ib in &bs {
                        r.cases += 1;
                        let sig = || format!("{}:{place:?}:A={ia:?}/{:08x?},B={ib:?}/{:08x?},imm={}", case.name, iv_bits(ia), iv_bits(ib), fmt_f(imm));
                        let rep = || json!({"contract":"jit_interval","op":case.name,"place":format!("{place:?}"),"a":iv_bits(ia),"b":iv_bits(ib),"imm":imm.to_bits()});
                        let want = std::panic::catch_unwind(std::panic::AssertUnwindSafe(|| vev.eval(&vt, &[ia, ib]).map(|(o, _)| o.to_vec())));
                        let want = match want {
                            Err(_) => {
                                classes.fail(r, format!("vm-panic:{}", case.name), sig(), "VM interval evaluator panicked".into(), rep());
                                vev = JVm::new_interval_eval();
                                continue;
                            }
                            Ok(w) => w,
                        };
                        let got = jev.eval(&jt, &[ia, ib]).map(|(o, _)| o.to_vec());
                        let gv = match (got, want) {
                            (Ok(gv), Ok(wv)) => {
                                if gv.len() != 1 || wv.len() != 1 {
                                    classes.fail(r, format!("shape:{}", case.name), sig(), format!("output counts {} / {}", gv.len(), wv.len()), rep());
                                    continue;
                                } else if !iv_equal(gv[0], wv[0], IV_ULPS) {
                                    // both backends may return different *sound* intervals; the property (C03) asks for enclosure, not
                                    // for equal intervals, so a difference is an observation, not a failure
                                    observations.hit(format!("differs-from-VM:{}:{}", case.name, iv_relation(gv[0], wv[0])), &sig());
                                }
                                gv[0]
                            }
                            (a, b) => {
                                classes.fail(r, format!("eval-error:{}", case.name), sig(), format!("eval results: jit {:?} vm {:?}", a.err(), b.err()), rep());
                                continue;
                            }
                        };
                        // well-formedness and enclosure of the JIT result itself (C03's own statement)
                        if gv.lower().is_nan() != gv.upper().is_nan() {
                            let vm_nan = vev.eval(&vt, &[ia, ib]).map(|(o, _)| o[0].lower().is_nan() && o[0].upper().is_nan()).unwrap_or(false);
                            classes.fail_first(r, format!("half-NaN-interval:{}{}", case.name, if vm_nan { ":inf-minus-inf" } else { "" }), sig(), format!("JIT result {:?}/{:08x?} has exactly one NaN bound: not a valid Interval (the VM returns {:?}); fed to an out-of-line Interval function this trips the Interval::new assertion inside an extern callback", gv, iv_bits(gv), vev.eval(&vt, &[ia, ib]).map(|(o, _)| o[0])), rep());
                        }
                        if !gv.has_nan() && !(gv.lower() <= gv.upper()) {
                            classes.fail(r, format!("inverted-interval:{}", case.name), sig(), format!("JIT result {:?} has lower > upper", gv), rep());
                            continue;
                        }
                        let pa = points_of(ia, &small);
                        let pb = if two_inputs { points_of(ib, &small) } else { vec![0.0] };
                        'pts: for &x in &pa {
                            for &y in &pb {
                                let (a, b) = operands(case, two_inputs, x, y, imm);
                                if is_atan2 && a == 0.0 && b == 0.0 {
                                    continue; // atan2(0,0) is excluded by the property statement
                                }
                                let v = ref_eval(case.reference, case.kind, a, b);
                                if !encloses(gv, v) {
                                    // cause tag: a corner of the operand boxes evaluates to NaN (0*inf, inf/inf): the known JIT min/max reduction defect
                                    let (la, ua, lb, ub) = (ia.lower(), ia.upper(), if two_inputs { ib.lower() } else { imm }, if two_inputs { ib.upper() } else { imm });
                                    let corner = |p: f32, q: f32| { let (a, b) = operands(case, true, p, q, q); ref_eval(case.reference, case.kind, a, b).is_nan() };
                                    let nan_corner = matches!(case.reference, Ref::Bin(fidget_core::context::BinaryOpcode::Mul) | Ref::Bin(fidget_core::context::BinaryOpcode::Div))
                                        && (corner(la, lb) || corner(la, ub) || corner(ua, lb) || corner(ua, ub));
                                    classes.fail(r, format!("not-enclosing:{}{}", case.name, if nan_corner { ":nan-corner" } else { "" }), sig(), format!("JIT interval {:?} does not contain the point result {} at ({}, {})", gv, fmt_f(v), fmt_f(x), fmt_f(y)), rep());
                                    break 'pts;
                                }
                            }
                        }
                    }
                }
                storage = jt.recycle().unwrap_or_default();
            }
        }
    });
    // wide benign tapes: 13..=40 live interval values (8-byte stack slots), exact arithmetic only
    let n_wide: usize = if thorough { 4000 } else { 600 };
    {
        let idx: Vec<usize> = (0..n_wide).collect();
        let boxes: Vec<Interval> = vec![Interval::new(0.5, 1.0), Interval::new(-2.0, -1.0), Interval::new(-1.0, 3.0), Interval::new(0.25, 0.25), Interval::new(-0.5, 0.5), Interval::new(2.0, 2.5), Interval::new(-3.0, 0.0)];
        let wide = par_map(&idx, "jit_interval", |&i, r| {
            let mut rng = Rng::new((i as u64).wrapping_mul(0x9E37).wrapping_add(0x1A7));
            let n_in = 1 + rng.below(3);
            let (w, n_out) = (13 + rng.below(28), 1 + rng.below(3));
            // every other tape interleaves the two-argument call-outs (atan2, mod: the native code saves and restores all
            // registers around them), so that they happen with 12 registers live
            let ssa = gen_wide(&mut rng, n_in, w, n_out, if i % 2 == 0 { WideOps::BenignInterval } else { WideOps::CallInterval });
            let (vm, jit) = pair_from_ssa(&ssa, n_in);
            let (vt, jt) = (vm.interval_tape(Default::default()), jit.interval_tape(Default::default()));
            let (mut vev, mut jev) = (JVm::new_interval_eval(), JitFunction::new_interval_eval());
            for _ in 0..8 {
                r.cases += 1;
                let inp: Vec<Interval> = (0..n_in).map(|_| boxes[rng.below(boxes.len())]).collect();
                let want = vev.eval(&vt, &inp).map(|(o, t)| (o.to_vec(), t.map(|t| t.as_slice().to_vec())));
                let got = jev.eval(&jt, &inp).map(|(o, t)| (o.to_vec(), t.map(|t| t.as_slice().to_vec())));
                let same = match (&got, &want) {
                    (Ok((g, gt)), Ok((w, wt))) => g.len() == w.len() && g.iter().zip(w).all(|(a, b)| iv_equal(*a, *b, 0)) && gt == wt,
                    _ => false,
                };
                if !same {
                    classes.fail(r, "wide-spilled-tape".into(), format!("wide#{i}:slots={}:box={inp:?}", vm.data().slot_count()), format!("JIT {got:?} != VM {want:?}; ssa tape = {:?}", ssa.tape), json!({"contract":"jit_interval","wide":i}));
                    break;
                }
            }
        });
        merge(&mut r, wide);
    }
    // composed witnesses with FINITE boxes: what the per-op findings mean for whole expressions
    {
        use fidget_core::Context;
        use fidget_core::eval::MathFunction;
        use fidget_core::vm::VmFunction;
        let mut wit: Vec<(&str, Context, fidget_core::context::Node, Vec<Interval>)> = vec![];
        {
            let mut c = Context::new();
            let (x, y, z) = (c.x(), c.y(), c.z());
            let xy = c.mul(x, y).unwrap();
            let root = c.mul(xy, z).unwrap();
            wit.push(("(x*y)*z", c, root, vec![Interval::new(-3.0e38, -1.0), Interval::new(2.5, 1.0e10), Interval::new(0.0, 0.5)]));
        }
        {
            let mut c = Context::new();
            let (x, y) = (c.x(), c.y());
            let xy = c.mul(x, y).unwrap();
            let root = c.div(xy, xy).unwrap();
            wit.push(("(x*y)/(x*y)", c, root, vec![Interval::new(-3.0e38, -1.0), Interval::new(2.5, 1.0e10)]));
        }
        for (name, c, root, b) in wit {
            r.cases += 1;
            let (Ok(vm), Ok(jit)) = (VmFunction::new(&c, &[root]), JitFunction::new(&c, &[root])) else { continue };
            let inp: Vec<Interval> = { let mut v = vec![Interval::from(0.0); vm.vars().len()]; for (k, var) in [fidget_core::var::Var::X, fidget_core::var::Var::Y, fidget_core::var::Var::Z].iter().enumerate() { if let (Some(p), Some(i)) = (vm.vars().get(var), b.get(k)) { v[p] = *i; } } v };
            let out = JitFunction::new_interval_eval().eval(&jit.interval_tape(Default::default()), &inp).map(|(o, _)| o[0]);
            let vout = VmFunction::new_interval_eval().eval(&vm.interval_tape(Default::default()), &inp).map(|(o, _)| o[0]);
            let Ok(out) = out else { continue };
            let sides: Vec<Vec<f32>> = inp.iter().map(|i| points_of(*i, &small)).collect();
            let mut idx = vec![0usize; sides.len()];
            let pt = vm.point_tape(Default::default());
            let mut pev = VmFunction::new_point_eval();
            'w: loop {
                let p: Vec<f32> = (0..sides.len()).map(|k| sides[k][idx[k]]).collect();
                if let Ok((o, _)) = pev.eval(&pt, &p) {
                    if !encloses(out, o[0]) {
                        classes.fail(&mut r, format!("not-enclosing:composed:{name}:nan-corner-witness"), format!("composed:{name}:box={inp:?}"),
                                     format!("JIT interval {out:?} does not contain the point result {} at {:?} (VM interval: {vout:?})", fmt_f(o[0]), p.iter().map(|v| fmt_f(*v)).collect::<Vec<_>>()),
                                     json!({"contract":"jit_interval","composed":name}));
                        break 'w;
                    }
                }
                let mut k = 0;
                loop {
                    if k == sides.len() { break 'w; }
                    idx[k] += 1;
                    if idx[k] < sides[k].len() { break; }
                    idx[k] = 0;
                    k += 1;
                }
            }
        }
    }
    r.space = format!(
        "every op case ({}) x {} placements (direct, out==lhs, out==rhs, through stack spills) x operand intervals = the NaN interval plus all [lo,hi] over {} values incl. +-inf, +-0, MAX ({} intervals per operand; same grid as interp_interval) x immediates from the same values: JitIntervalEval::eval vs VmIntervalEval::<{JN}>::eval on the same VmData.  (1) Equality with the VM: both results have a NaN bound (Interval::has_nan), or lower and upper bounds are numerically equal (so -0 == +0) with a tolerance of {IV_ULPS} ulps.  Tolerance 0 because the native code uses the same IEEE single-precision instructions (add/sub/mul/div/sqrt/round) and calls the very same Rust `Interval::{{sin,cos,tan,asin,acos,atan,exp,ln,rem_euclid,atan2}}` functions for everything else, so no rounding difference is expected; any difference is a different case analysis.  (2) The native result is a valid interval (lower <= upper, or BOTH bounds NaN) and encloses the reference point result at lo, hi, midpoint and every grid value strictly inside each operand (4 ulp slack, NaN interval / NaN point pass, atan2(0,0) excluded), i.e. interp_interval's statement for the native evaluator.  Plus {n_wide} seeded wide tapes (helpers::gen_wide: 13..=40 interval values live at once, i.e. stack spills with 8-byte slots; half of them only add/sub/neg/abs/min/max and multiplication by small immediates, the other half additionally atan2 and mod in reg/reg, reg/imm and imm/reg form folded in while all registers are live; on 8 boxes each from small finite intervals) compared for equality of outputs (both NaN intervals, or equal bounds) and traces.  Plus two composed expressions on FINITE boxes ((x*y)*z and (x*y)/(x*y) with x=[-3e38,-1], y=[2.5,1e10], z=[0,0.5]) checked for enclosure at all corner/midpoint/grid sample points",
        table.len(), places.len(), small.len(), ig.len());
    r.distinct = r.cases;
    r.exhaustive = false;
    r.notes.push("the one-op part is exhaustive for its stated space; the wide tapes are a seeded sample".into());
    classes.notes(&mut r);
    {
        let m = observations.0.lock().unwrap();
        for (k, (n, first)) in m.iter() {
            r.notes.push(format!("observation, not a failure [{k}]: {n} cases; first: {first}"));
        }
    }
    // each contract keeps the classes of its own statement
    r.failures.retain(|f| {
        let w = f["what"].as_str().unwrap_or("");
        let is_validity = w.starts_with("[half-NaN") || w.starts_with("[inverted");
        if validity { is_validity } else { !is_validity }
    });
    // most severe classes first (consumers may look at the first few failures only)
    r.failures.sort_by_key(|f| {
        let w = f["what"].as_str().unwrap_or("");
        if w.starts_with("[not-enclosing") || w.starts_with("[inverted") { 0 } else if w.starts_with("[half-NaN") || w.starts_with("[wide") { 1 } else { 2 }
    });
    r.sample(json!({"op":"MulRegReg","A":"[-2.5, 3]","B":"[-inf, 0.5]"}));
    r
}

fn grad_vals(thorough: bool) -> Vec<f32> {
    let mut v = GRID.to_vec();
    if thorough {
        v.extend_from_slice(&[2.0, -3.0, 0.25, 1.0e-20, 1.0e38, 0.1, std::f32::consts::FRAC_PI_2, 0.99999994]);
    }
    v
}

/// derivative lanes: both NaN, or equal (covers infinities and zeros), or within relative 1e-5
fn d_eq(a: f32, b: f32) -> bool {
    if a.is_nan() || b.is_nan() {
        return a.is_nan() && b.is_nan();
    }
    if a == b {
        return true;
    }
    let m = a.abs().max(b.abs());
    (a - b).abs() <= 1.0e-5 * m
}

const SEEDS: [(f32, f32, f32); 3] = [(1.0, 0.0, 0.0), (0.0, 1.0, 0.0), (0.5, -2.0, 3.0)];

pub fn jit_grad(thorough: bool) -> Report {
    let g = grad_vals(thorough);
    let table = op_table();
    let places = jit_placements(false);
    let max_len = 4 * SIMD_GRAD + 3;
    // lanes: all ordered value pairs x seed configurations (x seeded with s, y seeded with the next one)
    let mut lx: Vec<Grad> = vec![];
    let mut ly: Vec<Grad> = vec![];
    for &x in &g {
        for &y in &g {
            for s in 0..SEEDS.len() {
                let (a, b) = (SEEDS[s], SEEDS[(s + 1) % SEEDS.len()]);
                lx.push(Grad::new(x, a.0, a.1, a.2));
                ly.push(Grad::new(y, b.0, b.1, b.2));
            }
        }
    }
    let classes = Classes::default();
    let outside_diffs = Classes::default();
    let mut r = par_map(&table, "jit_grad", |case, r| {
        let mut jev = JitFunction::new_grad_slice_eval();
        let mut vev = JVm::new_grad_slice_eval();
        let mut storage: JitStorage = Default::default();
        for &place in &places {
            for &imm in &imms_for(case, &g) {
                let (vm, jit, two_inputs) = one_op_pair(case, place, imm, 1);
                let vt = vm.grad_slice_tape(Default::default());
                let jt = jit.grad_slice_tape(std::mem::take(&mut storage));
                // all lanes in windows whose lengths cycle through 0..=max_len
                let mut start = 0;
                let mut len = 0;
                while start < lx.len() {
                    let end = (start + len).min(lx.len());
                    let xs = &lx[start..end];
                    let ys = &ly[start..end];
                    r.cases += 1;
                    let sig = || format!("{}:{place:?}:imm={}:len={len}:start={start}", case.name, fmt_f(imm));
                    let rep = || json!({"contract":"jit_grad","op":case.name,"place":format!("{place:?}"),"imm":imm.to_bits(),"len":len,"start":start,"thorough":thorough});
                    let want: Result<Vec<Vec<Grad>>, String> = vev.eval(&vt, &[xs, ys]).map(|o| (0..o.len()).map(|k| o[k].to_vec()).collect()).map_err(|e| format!("{e:?}"));
                    let got: Result<Vec<Vec<Grad>>, String> = jev.eval(&jt, &[xs, ys]).map(|o| (0..o.len()).map(|k| o[k].to_vec()).collect()).map_err(|e| format!("{e:?}"));
                    match (got, want) {
                        (Ok(gv), Ok(wv)) => {
                            if gv.len() != 1 || wv.len() != 1 || gv[0].len() != xs.len() || wv[0].len() != xs.len() {
                                r.fail(sig(), format!("shape: JIT {} rows / {:?}; expected 1 row of {}", gv.len(), gv.iter().map(|v| v.len()).collect::<Vec<_>>(), xs.len()), rep());
                            } else {
                                for k in 0..xs.len() {
                                    let (a, b) = operands(case, two_inputs, xs[k].v, ys[k].v, imm);
                                    let zero_ok = is_minmax(case) && a == 0.0 && b == 0.0;
                                    let (j, v) = (gv[0][k], wv[0][k]);
                                    // C05 quantifies over points where the expression is differentiable: finite operands and
                                    // value, away from ties of min/max and zeros of abs
                                    let binary = case.kind != Kind::Reg;
                                    let outside = if !a.is_finite() || (binary && !b.is_finite()) {
                                        Some("non-finite operand")
                                    } else if !v.v.is_finite() {
                                        Some("non-finite value")
                                    } else if is_minmax(case) && a == b {
                                        Some("min/max tie")
                                    } else if case.name == "AbsReg" && a == 0.0 {
                                        Some("abs at zero")
                                    } else {
                                        None
                                    };
                                    let what = if !c02_eq(j.v, v.v, zero_ok) {
                                        Some(("value", format!("value lane: JIT {} != VM {}", fmt_f(j.v), fmt_f(v.v))))
                                    } else if !(d_eq(j.dx, v.dx) && d_eq(j.dy, v.dy) && d_eq(j.dz, v.dz)) {
                                        if let Some(why) = outside {
                                            outside_diffs.hit(format!("{}: {why}", case.name), &format!("x={:?} y={:?} imm={}: JIT d=({}, {}, {}) VM d=({}, {}, {}) value {}", xs[k], ys[k], fmt_f(imm), j.dx, j.dy, j.dz, v.dx, v.dy, v.dz, fmt_f(v.v)));
                                            None
                                        } else {
                                            Some(("derivative", format!("derivative lanes: JIT ({}, {}, {}) != VM ({}, {}, {}), value lane {}", fmt_f(j.dx), fmt_f(j.dy), fmt_f(j.dz), fmt_f(v.dx), fmt_f(v.dy), fmt_f(v.dz), fmt_f(j.v))))
                                        }
                                    } else {
                                        None
                                    };
                                    if let Some((kind, what)) = what {
                                        let mut rp = rep();
                                        rp["lane"] = json!(k);
                                        rp["x"] = json!([xs[k].v.to_bits(), xs[k].dx.to_bits(), xs[k].dy.to_bits(), xs[k].dz.to_bits()]);
                                        rp["y"] = json!([ys[k].v.to_bits(), ys[k].dx.to_bits(), ys[k].dy.to_bits(), ys[k].dz.to_bits()]);
                                        classes.fail(r, format!("{kind}:{}", case.name), format!("{}:lane={k}:x={:?},y={:?}", sig(), xs[k], ys[k]), what, rp);
                                    }
                                }
                            }
                        }
                        (a, b) => r.fail(sig(), format!("eval results: jit {:?} vm {:?}", a.err(), b.err()), rep()),
                    }
                    start = end;
                    len = (len + 1) % (max_len + 1);
                }
            }
        }
    });
    let n_wide: usize = if thorough { 4000 } else { 600 };
    {
        let idx: Vec<usize> = (0..n_wide).collect();
        let vals = [0.5f32, -2.0, 1.0, 3.0, 0.25, -0.75, 2.5, 0.0];
        let wide = par_map(&idx, "jit_grad", |&i, r| {
            let mut rng = Rng::new((i as u64).wrapping_mul(0x9E37).wrapping_add(0x6AD));
            let n_in = 1 + rng.below(3);
            let (w, n_out) = (13 + rng.below(28), 1 + rng.below(3));
            let ssa = gen_wide(&mut rng, n_in, w, n_out, WideOps::BenignGrad);
            let (vm, jit) = pair_from_ssa(&ssa, n_in);
            let (vt, jt) = (vm.grad_slice_tape(Default::default()), jit.grad_slice_tape(Default::default()));
            let (mut vev, mut jev) = (JVm::new_grad_slice_eval(), JitFunction::new_grad_slice_eval());
            r.cases += 1;
            let len = rng.below(max_len + 1);
            let cols: Vec<Vec<Grad>> = (0..n_in).map(|j| (0..len).map(|_| { let s = SEEDS[(j + rng.below(2)) % SEEDS.len()]; Grad::new(vals[rng.below(vals.len())], s.0, s.1, s.2) }).collect()).collect();
            let want: Result<Vec<Vec<Grad>>, String> = vev.eval(&vt, &cols).map(|o| (0..o.len()).map(|k| o[k].to_vec()).collect()).map_err(|e| format!("{e:?}"));
            let got: Result<Vec<Vec<Grad>>, String> = jev.eval(&jt, &cols).map(|o| (0..o.len()).map(|k| o[k].to_vec()).collect()).map_err(|e| format!("{e:?}"));
            let same = match (&got, &want) {
                (Ok(g), Ok(w)) => g.len() == w.len() && g.len() == ssa.output_count && g.iter().zip(w).all(|(a, b)| a.len() == len && b.len() == len && a.iter().zip(b).all(|(x, y)| bits_eq(x.v, y.v) && d_eq(x.dx, y.dx) && d_eq(x.dy, y.dy) && d_eq(x.dz, y.dz))),
                _ => false,
            };
            if !same {
                classes.fail(r, "wide-spilled-tape".into(), format!("wide#{i}:slots={}:len={len}", vm.data().slot_count()), format!("JIT {got:?} != VM {want:?}; inputs {cols:?}; ssa tape = {:?}", ssa.tape), json!({"contract":"jit_grad","wide":i}));
            }
        });
        merge(&mut r, wide);
    }
    r.space = format!(
        "every op case ({}) x {} placements (registers < {JN}, memory from {JN}) x every grid immediate ({} values) for reg/imm, imm/reg forms x all ordered pairs of the {}-value grid as value lanes x 3 seed configurations of the derivative lanes (unit x / unit y / non-unit (0.5,-2,3), the second operand seeded with the next configuration), cut into consecutive slices whose lengths cycle through 0..={max_len} (4*SIMD+3 with SIMD = {SIMD_GRAD}): JitGradSliceEval::eval vs VmGradSliceEval::<{JN}>::eval on the same VmData: one row, exactly len samples, value lane bitwise equal (NaN=NaN; either zero for Min/Max of two zeros), and, on C05's own domain (all operand value lanes and the result value finite, not a tie of min/max, not abs at zero), each derivative lane both-NaN or equal or within relative 1e-5; derivative differences outside that domain are counted in the notes, not as failures (the native code may order the multiply/adds of the product, quotient and chain rules differently, which costs at most a few ulps = ~1e-7 relative; 1e-5 leaves two orders of magnitude).  Plus {n_wide} seeded wide tapes (helpers::gen_wide: 13..=40 gradient values live at once, i.e. stack spills with 16-byte slots; only add/sub/neg and multiplication by small immediates) on one slice of random length 0..={max_len}, 1..=3 outputs, same comparison",
        table.len(), places.len(), g.len(), g.len());
    r.distinct = r.cases;
    r.exhaustive = false;
    r.notes.push("the one-op part is exhaustive for its stated space; the wide tapes are a seeded sample".into());
    classes.notes(&mut r);
    {
        let m = outside_diffs.0.lock().unwrap();
        for (k, (n, first)) in m.iter() {
            r.notes.push(format!("derivative lanes differ OUTSIDE the property's domain [{k}]: {n} lanes; first: {first}"));
        }
    }
    r.sample(json!({"op":"DivRegReg","place":"Direct(0, 0, 1)","x":"Grad(3, 0.5, -2, 3)","y":"Grad(0.5, 1, 0, 0)"}));
    r
}

pub fn replay(v: &serde_json::Value) -> bool {
    let contract = v["contract"].as_str().unwrap_or("");
    let f = |k: &str| f32::from_bits(v[k].as_u64().unwrap_or(0) as u32);
    if v["deep"].as_bool().unwrap_or(false) {
        let seed = v["seed"].as_u64().unwrap_or(0);
        let i = v["index"].as_u64().unwrap_or(0) as usize;
        let seed_gen = if contract == "jit_bulk" { seed.wrapping_add(0xB01C) } else { seed };
        let Some((ssa, n_in)) = gen_deep(seed_gen, i) else { return false };
        let (vm, jit) = pair_from_ssa(&ssa, n_in);
        println!("ssa tape (root first): {:?}", ssa.tape);
        println!("reg tape (evaluation order): {:?}", vm.data().iter_asm().collect::<Vec<_>>());
        let inputs: Vec<Vec<f32>> = if contract == "jit_point" {
            vec![v["inputs"].as_array().map(|a| a.iter().map(|b| f32::from_bits(b.as_u64().unwrap_or(0) as u32)).collect()).unwrap_or_default()]
        } else {
            let g = grid(false);
            deep_inputs(seed, i, n_in, &g, bulk_lens())
        };
        let mut ok = true;
        let (vt, jt) = (vm.point_tape(Default::default()), jit.point_tape(Default::default()));
        let (mut vev, mut jev) = (JVm::new_point_eval(), JitFunction::new_point_eval());
        for inp in inputs {
            if bit_ambiguous(&ssa.tape, &inp) {
                continue;
            }
            let w = vev.eval(&vt, &inp).unwrap().0.to_vec();
            let gt = jev.eval(&jt, &inp).unwrap().0.to_vec();
            let same = w.len() == gt.len() && (0..w.len()).all(|k| bits_eq(w[k], gt[k]));
            println!("inputs {:?}: VM {:?} JIT {:?} {}", inp, w.iter().map(|x| fmt_f(*x)).collect::<Vec<_>>(), gt.iter().map(|x| fmt_f(*x)).collect::<Vec<_>>(), if same { "same" } else { "DIFFERENT" });
            ok &= same;
        }
        return ok;
    }
    if v["wide"].is_u64() {
        let rep = if contract == "jit_interval" { jit_interval(true) } else { jit_grad(true) };
        let mine: Vec<_> = rep.failures.iter().filter(|fl| fl["replay"]["wide"] == v["wide"]).collect();
        for fl in &mine {
            println!("{fl}");
        }
        return mine.is_empty();
    }
    if v["composed"].is_string() {
        let rep = jit_interval(false);
        let mine: Vec<_> = rep.failures.iter().filter(|fl| fl["replay"]["composed"] == v["composed"]).collect();
        for fl in &mine {
            println!("{fl}");
        }
        return mine.is_empty();
    }
    let name = v["op"].as_str().unwrap_or("");
    let Some(case) = op_table().into_iter().find(|c| c.name == name) else { return false };
    let place = place_from_str(v["place"].as_str().unwrap_or("Direct(0, 1, 2)"));
    let imm = f("imm");
    match contract {
        "jit_point" => {
            let (x, y) = (f("x"), f("y"));
            let (vm, jit, two_inputs) = one_op_pair(&case, place, imm, 1);
            let w = JVm::new_point_eval().eval(&vm.point_tape(Default::default()), &[x, y]).unwrap().0[0];
            let gt = JitFunction::new_point_eval().eval(&jit.point_tape(Default::default()), &[x, y]).unwrap().0[0];
            let (a, b) = operands(&case, two_inputs, x, y, imm);
            println!("replay {name} {place:?} x={} y={} imm={}: JIT {} VM {}", fmt_f(x), fmt_f(y), fmt_f(imm), fmt_f(gt), fmt_f(w));
            c02_eq(gt, w, is_minmax(&case) && a == 0.0 && b == 0.0)
        }
        "jit_interval" => {
            let (ia, ib) = (iv_from_bits(&v["a"]), iv_from_bits(&v["b"]));
            let (vm, jit, two_inputs) = one_op_pair(&case, place, imm, 1);
            let w = JVm::new_interval_eval().eval(&vm.interval_tape(Default::default()), &[ia, ib]).unwrap().0[0];
            let gt = JitFunction::new_interval_eval().eval(&jit.interval_tape(Default::default()), &[ia, ib]).unwrap().0[0];
            println!("replay {name} {place:?} A={ia:?} B={ib:?} imm={}: JIT {gt:?}/{:08x?} VM {w:?}/{:08x?}", fmt_f(imm), iv_bits(gt), iv_bits(w));
            let mut ok = true;
            if !iv_equal(gt, w, IV_ULPS) {
                println!("  differs from the VM: {}", iv_relation(gt, w));
                ok = false;
            }
            if gt.lower().is_nan() != gt.upper().is_nan() {
                println!("  JIT result has exactly one NaN bound (not a valid Interval)");
                ok = false;
            }
            if !gt.has_nan() && !(gt.lower() <= gt.upper()) {
                println!("  JIT result has lower > upper");
                ok = false;
            }
            let small = interval_values(true);
            let is_atan2 = matches!(case.reference, Ref::Bin(fidget_core::context::BinaryOpcode::Atan));
            let pb = if two_inputs { points_of(ib, &small) } else { vec![0.0] };
            'p: for &x in &points_of(ia, &small) {
                for &y in &pb {
                    let (a, b) = operands(&case, two_inputs, x, y, imm);
                    if is_atan2 && a == 0.0 && b == 0.0 {
                        continue;
                    }
                    let pv = ref_eval(case.reference, case.kind, a, b);
                    if !encloses(gt, pv) {
                        println!("  JIT interval does not contain the point result {} at ({}, {})", fmt_f(pv), fmt_f(x), fmt_f(y));
                        ok = false;
                        break 'p;
                    }
                }
            }
            ok
        }
        "jit_bulk" | "jit_grad" => {
            // the recorded slice is a window of the deterministic lane list: re-run the whole op case
            let thorough = v["thorough"].as_bool().unwrap_or(false);
            let rep = if contract == "jit_bulk" { jit_bulk(thorough, 0) } else { jit_grad(thorough) };
            let mine: Vec<_> = rep.failures.iter().filter(|fl| fl["replay"]["op"] == v["op"]).collect();
            for fl in &mine {
                println!("{fl}");
            }
            mine.is_empty()
        }
        _ => false,
    }
}

// =====================================================================================================
// jit_bulk_guard (C02, last clause: "never reads or writes outside the caller's slices")
//
// Every input slice is placed so that its last element is immediately followed by a PROT_NONE page
// (and its first element immediately preceded by one): a native read or write past either end faults.
// Each (evaluator kind, number of variables, slice length) runs in its own child process (this
// executable re-executed with the hidden sub-command `__guard_child`), so a fault is an observable
// failure of exactly that unit, not the death of the runner.
// =====================================================================================================

/// a region `[guard page][data .. data][guard page]` with `len` elements of T ending exactly at the upper guard
struct Guarded<T> {
    base: *mut u8,
    total: usize,
    ptr: *mut T,
    len: usize,
}

impl<T: Copy> Guarded<T> {
    fn new(vals: &[T]) -> Self {
        let page = 4096usize;
        let bytes = std::mem::size_of_val(vals);
        let data_pages = bytes.div_ceil(page).max(1);
        let total = (data_pages + 2) * page;
        unsafe {
            let base = libc::mmap(std::ptr::null_mut(), total, libc::PROT_READ | libc::PROT_WRITE, libc::MAP_PRIVATE | libc::MAP_ANONYMOUS, -1, 0) as *mut u8;
            assert!(base as isize != -1, "mmap failed");
            assert_eq!(libc::mprotect(base as *mut _, page, libc::PROT_NONE), 0);
            assert_eq!(libc::mprotect(base.add(total - page) as *mut _, page, libc::PROT_NONE), 0);
            let ptr = base.add(total - page - bytes) as *mut T;
            std::ptr::copy_nonoverlapping(vals.as_ptr(), ptr, vals.len());
            Guarded { base, total, ptr, len: vals.len() }
        }
    }
    fn slice(&self) -> &[T] {
        unsafe { std::slice::from_raw_parts(self.ptr, self.len) }
    }
}

impl<T> Drop for Guarded<T> {
    fn drop(&mut self) {
        unsafe {
            libc::munmap(self.base as *mut _, self.total);
        }
    }
}

fn guard_fn(n_vars: usize) -> (JVm, JitFunction) {
    use fidget_core::context::Context;
    use fidget_core::eval::MathFunction;
    let mut ctx = Context::new();
    let vs = [ctx.x(), ctx.y(), ctx.z()];
    let mut acc = ctx.constant(0.25);
    for (i, v) in vs.iter().take(n_vars).enumerate() {
        let t = ctx.mul(*v, (i + 2) as f32).unwrap();
        acc = ctx.add(acc, t).unwrap();
    }
    let second = ctx.sin(acc).unwrap();
    let roots = [acc, second];
    (JVm::new(&ctx, &roots).unwrap(), JitFunction::new(&ctx, &roots).unwrap())
}

fn guard_vals(n_vars: usize, len: usize) -> Vec<Vec<f32>> {
    (0..n_vars).map(|i| (0..len).map(|k| (k as f32) * 0.375 - 3.0 + i as f32 * 0.0625).collect()).collect()
}

/// hidden sub-command: `__guard_child <f32|grad> <n_vars> <len>`; exit 0 = agrees with the VM, 3 = differs, (signal) = fault
pub fn guard_child(args: &[String]) -> i32 {
    let kind = args[2].as_str();
    let n_vars: usize = args[3].parse().unwrap();
    let len: usize = args[4].parse().unwrap();
    let (vm, jit) = guard_fn(n_vars);
    let vals = guard_vals(n_vars, len);
    if kind == "f32" {
        let regions: Vec<Guarded<f32>> = vals.iter().map(|v| Guarded::new(v)).collect();
        let slices: Vec<&[f32]> = regions.iter().map(|g| g.slice()).collect();
        let plain: Vec<&[f32]> = vals.iter().map(|v| v.as_slice()).collect();
        let (vt, jt) = (vm.float_slice_tape(Default::default()), jit.float_slice_tape(Default::default()));
        let (mut vev, mut jev) = (JVm::new_float_slice_eval(), JitFunction::new_float_slice_eval());
        let want: Vec<Vec<f32>> = { let o = vev.eval(&vt, &plain).unwrap(); (0..o.len()).map(|k| o[k].to_vec()).collect() };
        // twice with one evaluator object: the second call sees whatever the first one left in the evaluator
        for round in 0..2 {
            let o = jev.eval(&jt, &slices).unwrap();
            let got: Vec<Vec<f32>> = (0..o.len()).map(|k| o[k].to_vec()).collect();
            let same = got.len() == want.len() && got.iter().zip(&want).all(|(a, b)| a.len() == b.len() && a.iter().zip(b).all(|(x, y)| bits_eq(*x, *y)));
            if !same {
                eprintln!("round {round}: JIT {got:?} VM {want:?}");
                return 3;
            }
        }
    } else {
        let gvals: Vec<Vec<Grad>> = vals.iter().enumerate().map(|(i, v)| v.iter().map(|x| Grad::new(*x, (i == 0) as u8 as f32, (i == 1) as u8 as f32, (i == 2) as u8 as f32)).collect()).collect();
        let regions: Vec<Guarded<Grad>> = gvals.iter().map(|v| Guarded::new(v)).collect();
        let slices: Vec<&[Grad]> = regions.iter().map(|g| g.slice()).collect();
        let plain: Vec<&[Grad]> = gvals.iter().map(|v| v.as_slice()).collect();
        let (vt, jt) = (vm.grad_slice_tape(Default::default()), jit.grad_slice_tape(Default::default()));
        let (mut vev, mut jev) = (JVm::new_grad_slice_eval(), JitFunction::new_grad_slice_eval());
        let want: Vec<Vec<Grad>> = { let o = vev.eval(&vt, &plain).unwrap(); (0..o.len()).map(|k| o[k].to_vec()).collect() };
        for round in 0..2 {
            let o = jev.eval(&jt, &slices).unwrap();
            let got: Vec<Vec<Grad>> = (0..o.len()).map(|k| o[k].to_vec()).collect();
            let geq = |a: &Grad, b: &Grad| bits_eq(a.v, b.v) && bits_eq(a.dx, b.dx) && bits_eq(a.dy, b.dy) && bits_eq(a.dz, b.dz);
            let same = got.len() == want.len() && got.iter().zip(&want).all(|(a, b)| a.len() == b.len() && a.iter().zip(b).all(|(x, y)| geq(x, y)));
            if !same {
                eprintln!("round {round}: JIT {got:?} VM {want:?}");
                return 3;
            }
        }
    }
    0
}

pub fn jit_bulk_guard(thorough: bool) -> Report {
    let mut r = Report::new("jit_bulk_guard");
    let max_len = if thorough { 8 * SIMD + 5 } else { bulk_lens() };
    let exe = match std::env::current_exe() {
        Ok(e) => e,
        Err(e) => {
            r.fail("child-spawn".into(), format!("current_exe failed: {e}"), json!({"contract":"jit_bulk_guard"}));
            return r;
        }
    };
    let mut units = vec![];
    for kind in ["f32", "grad"] {
        for n_vars in 1..=3usize {
            for len in 0..=max_len {
                units.push((kind, n_vars, len));
            }
        }
    }
    let results: Vec<(usize, Option<i32>, String)> = std::thread::scope(|s| {
        let n_workers = 8;
        let hs: Vec<_> = (0..n_workers)
            .map(|w| {
                let (units, exe) = (&units, &exe);
                s.spawn(move || {
                    let mut out = vec![];
                    for (ui, (kind, n_vars, len)) in units.iter().enumerate().filter(|(ui, _)| ui % n_workers == w) {
                        let o = std::process::Command::new(exe).args(["__guard_child", kind, &n_vars.to_string(), &len.to_string()]).output();
                        match o {
                            Ok(o) => out.push((ui, o.status.code(), format!("{:?}; {}", o.status, String::from_utf8_lossy(&o.stderr).lines().last().unwrap_or("").chars().take(300).collect::<String>()))),
                            Err(e) => out.push((ui, Some(-1), format!("could not start the child: {e}"))),
                        }
                    }
                    out
                })
            })
            .collect();
        hs.into_iter().flat_map(|h| h.join().unwrap()).collect()
    });
    for (ui, code, what) in results {
        r.cases += 1;
        let (kind, n_vars, len) = units[ui];
        if code != Some(0) {
            let cause = if code.is_none() { "fault: access outside the caller's slices (child killed by a signal)" } else { "results differ from the interpreter" };
            r.fail(format!("{kind}:vars={n_vars}:len={len}"), format!("{cause}: {what}"), json!({"contract":"jit_bulk_guard","kind":kind,"n_vars":n_vars,"len":len}));
        }
    }
    r.distinct = r.cases;
    r.exhaustive = false;
    r.space = format!("float-slice and grad-slice JIT evaluators x 1..=3 variables x every slice length 0..={max_len}, two outputs, each evaluator object used twice; every input slice ends at a PROT_NONE page and starts after one (a native access outside the caller's slices faults); one child process per unit; results compared bit for bit with the VM");
    r
}

pub fn guard_replay(v: &serde_json::Value) -> bool {
    let args: Vec<String> = vec!["".into(), "__guard_child".into(), v["kind"].as_str().unwrap_or("f32").into(), v["n_vars"].as_u64().unwrap_or(1).to_string(), v["len"].as_u64().unwrap_or(9).to_string()];
    println!("running the unit in this process (a fault here kills the replay: that is the failure): {:?}", &args[2..]);
    guard_child(&args) == 0
}
