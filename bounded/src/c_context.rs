//! C12, constructor clause (bounded companion of the Verus unit `context`): every `Context` constructor, on every operand
//! shape (a variable, a constant from the grid, the same node twice, a compound node), builds a node whose `Context::eval`
//! equals the f32 operation applied to the operand values, bit for bit or up to the sign of a zero result, whenever the
//! operands and the unsimplified result are finite.
use crate::common::*;
use fidget_core::context::{BinaryOpcode, Context, Node, UnaryOpcode};
use serde_json::json;
use fidget_core::types::FloatExt;

/// the meaning of an opcode, written here (not taken from context/op.rs, which is code under test)
fn bin_ref(op: BinaryOpcode, a: f32, b: f32) -> f32 {
    match op {
        BinaryOpcode::Add => a + b, BinaryOpcode::Sub => a - b, BinaryOpcode::Mul => a * b, BinaryOpcode::Div => a / b,
        BinaryOpcode::Atan => a.atan2(b), BinaryOpcode::Min => if a.is_nan() || b.is_nan() { f32::NAN } else if a < b { a } else { b },
        BinaryOpcode::Max => if a.is_nan() || b.is_nan() { f32::NAN } else if a > b { a } else { b },
        BinaryOpcode::Compare => match a.partial_cmp(&b) { Some(std::cmp::Ordering::Less) => -1.0, Some(std::cmp::Ordering::Equal) => 0.0, Some(std::cmp::Ordering::Greater) => 1.0, None => f32::NAN },
        BinaryOpcode::Mod => a.rem_euclid(b), BinaryOpcode::And => if a == 0.0 { a } else { b }, BinaryOpcode::Or => if a != 0.0 { a } else { b },
        BinaryOpcode::Mix => a.mix(b),
    }
}
fn un_ref(op: UnaryOpcode, a: f32) -> f32 {
    match op {
        UnaryOpcode::Neg => -a, UnaryOpcode::Abs => a.abs(), UnaryOpcode::Recip => 1.0 / a, UnaryOpcode::Sqrt => a.sqrt(), UnaryOpcode::Square => a * a,
        UnaryOpcode::Floor => a.floor(), UnaryOpcode::Ceil => a.ceil(), UnaryOpcode::Round => a.round(), UnaryOpcode::Sin => a.sin(), UnaryOpcode::Cos => a.cos(),
        UnaryOpcode::Tan => a.tan(), UnaryOpcode::Asin => a.asin(), UnaryOpcode::Acos => a.acos(), UnaryOpcode::Atan => a.atan(), UnaryOpcode::Exp => a.exp(),
        UnaryOpcode::Ln => a.ln(), UnaryOpcode::Not => if a == 0.0 { 1.0 } else { 0.0 }, UnaryOpcode::Rand => a.rand(),
    }
}

#[derive(Copy, Clone, Debug)]
enum Operand { X, Y, Const(f32), SameAsLhs, Compound }

fn approx(a: f32, b: f32) -> bool {
    a.to_bits() == b.to_bits() || (a == 0.0 && b == 0.0) || (a.is_nan() && b.is_nan())
}

fn mk(ctx: &mut Context, o: Operand, lhs: Option<Node>) -> Node {
    match o {
        Operand::X => ctx.x(),
        Operand::Y => ctx.y(),
        Operand::Const(c) => ctx.constant(c),
        Operand::SameAsLhs => lhs.unwrap(),
        Operand::Compound => { let x = ctx.x(); let y = ctx.y(); ctx.op_binary_for_verif(x, y) }
    }
}

trait VerifCtx { fn op_binary_for_verif(&mut self, a: Node, b: Node) -> Node; }
impl VerifCtx for Context {
    // a compound operand: atan2(x, y) has no rewrite
    fn op_binary_for_verif(&mut self, a: Node, b: Node) -> Node { self.atan2(a, b).unwrap() }
}

fn val(o: Operand, x: f32, y: f32, lhs: f32) -> f32 {
    match o {
        Operand::X => x,
        Operand::Y => y,
        Operand::Const(c) => c,
        Operand::SameAsLhs => lhs,
        Operand::Compound => x.atan2(y),
    }
}

type BinCtor = fn(&mut Context, Node, Node) -> Node;

pub fn context_rewrites(thorough: bool) -> Report {
    let mut r = Report::new("context_rewrites");
    let consts: Vec<f32> = vec![0.0, -0.0, 1.0, -1.0, 2.0, 0.5, -2.5, 3.0, 1.0e-40, 1.0e20, f32::MAX];
    let pts: Vec<f32> = if thorough { grid(false).into_iter().filter(|v| v.is_finite()).collect() } else { vec![0.0, -0.0, 1.0, -1.0, 0.5, -2.5, 3.0, 1.0e-40, 1.0e20, -1.0e20, f32::MAX, std::f32::consts::PI] };
    let bins: Vec<(&str, BinaryOpcode, BinCtor)> = vec![
        ("add", BinaryOpcode::Add, |c, a, b| c.add(a, b).unwrap()), ("sub", BinaryOpcode::Sub, |c, a, b| c.sub(a, b).unwrap()),
        ("mul", BinaryOpcode::Mul, |c, a, b| c.mul(a, b).unwrap()), ("div", BinaryOpcode::Div, |c, a, b| c.div(a, b).unwrap()),
        ("min", BinaryOpcode::Min, |c, a, b| c.min(a, b).unwrap()), ("max", BinaryOpcode::Max, |c, a, b| c.max(a, b).unwrap()),
        ("and", BinaryOpcode::And, |c, a, b| c.and(a, b).unwrap()), ("or", BinaryOpcode::Or, |c, a, b| c.or(a, b).unwrap()),
        ("atan2", BinaryOpcode::Atan, |c, a, b| c.atan2(a, b).unwrap()), ("compare", BinaryOpcode::Compare, |c, a, b| c.compare(a, b).unwrap()),
        ("modulo", BinaryOpcode::Mod, |c, a, b| c.modulo(a, b).unwrap()),
    ];
    let mut operands: Vec<Operand> = vec![Operand::X, Operand::Y, Operand::Compound];
    for &c in &consts { operands.push(Operand::Const(c)); }
    let mut rhs_ops = operands.clone();
    rhs_ops.push(Operand::SameAsLhs);
    for (name, op, ctor) in &bins {
        for &lo in &operands {
            for &ro in &rhs_ops {
                let mut ctx = Context::new();
                let a = mk(&mut ctx, lo, None);
                let b = mk(&mut ctx, ro, Some(a));
                let n = ctor(&mut ctx, a, b);
                for &x in &pts {
                    for &y in &pts {
                        r.cases += 1;
                        let va = val(lo, x, y, 0.0);
                        let vb = val(ro, x, y, va);
                        let want = bin_ref(*op, va, vb);
                        if !(va.is_finite() && vb.is_finite() && want.is_finite()) {
                            continue;
                        }
                        let got = ctx.eval_xyz(n, x, y, 0.0).unwrap();
                        if !approx(got, want) {
                            // cause: a zero constant is represented by the arena's existing zero of the other sign (Op's derived Eq/Hash
                            // compare constants as OrderedFloat), and the operation is sensitive to the sign of a zero operand
                            let stored = |o: Operand, node: Node, v: f32| if matches!(o, Operand::Const(_)) { ctx.get_const(node).unwrap_or(v) } else { v };
                            let (sa, sb) = (stored(lo, a, va), stored(ro, b, vb));
                            let dedup = (sa.to_bits() != va.to_bits() || sb.to_bits() != vb.to_bits()) && sa == va && sb == vb && approx(got, bin_ref(*op, sa, sb));
                            let class = if dedup { format!("signed-zero-constant-dedup:{name}") } else { format!("meaning:{name}") };
                            r.fail(format!("[{class}] {name}:{lo:?}:{ro:?}:x={},y={}", fmt_f(x), fmt_f(y)),
                                   format!("[{class}] Context::{name}({lo:?}, {ro:?}) evaluates to {} but {name}({}, {}) = {}", fmt_f(got), fmt_f(va), fmt_f(vb), fmt_f(want)),
                                   json!({"contract":"context_rewrites","ctor":name,"lhs":format!("{lo:?}"),"rhs":format!("{ro:?}"),"x":x.to_bits(),"y":y.to_bits()}));
                        }
                    }
                }
            }
        }
    }
    // chains: op2(op1(x, c1), c2) and op2(c2, op1(c1, x)) must equal the step-by-step f32 evaluation (no re-association of constants)
    {
        let cs: Vec<f32> = vec![1.0e8, -1.0e8, 0.1, 0.2, 3.0, -0.5, 1.0, 0.0, 1.0e-3, 7.0];
        let chain_ops: Vec<(&str, BinaryOpcode, BinCtor)> = bins.iter().filter(|b| matches!(b.0, "add" | "sub" | "mul" | "div" | "min" | "max")).map(|b| (b.0, b.1, b.2)).collect();
        for (n1, o1, c1f) in &chain_ops { for (n2, o2, c2f) in &chain_ops {
            for &c1 in &cs { for &c2 in &cs {
                for side in 0..2 {
                    let mut ctx = Context::new();
                    let x = ctx.x();
                    let k1 = ctx.constant(c1);
                    let inner = if side == 0 { c1f(&mut ctx, x, k1) } else { c1f(&mut ctx, k1, x) };
                    let k2 = ctx.constant(c2);
                    let outer = if side == 0 { c2f(&mut ctx, inner, k2) } else { c2f(&mut ctx, k2, inner) };
                    for &xv in &pts {
                        r.cases += 1;
                        let i = if side == 0 { bin_ref(*o1, xv, c1) } else { bin_ref(*o1, c1, xv) };
                        let want = if side == 0 { bin_ref(*o2, i, c2) } else { bin_ref(*o2, c2, i) };
                        if !(xv.is_finite() && i.is_finite() && want.is_finite()) { continue; }
                        let got = ctx.eval_xyz(outer, xv, 0.0, 0.0).unwrap();
                        if !approx(got, want) {
                            r.fail(format!("[meaning:chain:{n2}({n1})] side{side}:c1={},c2={},x={}", fmt_f(c1), fmt_f(c2), fmt_f(xv)),
                                   format!("[meaning:chain:{n2}({n1})] {n2}({n1}(x, {}), {}) (side {side}) at x={} evaluates to {} but step by step it is {}", fmt_f(c1), fmt_f(c2), fmt_f(xv), fmt_f(got), fmt_f(want)),
                                   json!({"contract":"context_rewrites","ctor":"chain","x":xv.to_bits()}));
                        }
                    }
                }
            } }
        } }
    }
    // derived constructors: less_than, less_than_or_equal (as 0/1 values), if_nonzero_else (selection)
    {
        let mut three: Vec<Operand> = vec![Operand::X, Operand::Y, Operand::Compound];
        for &c in &[0.0f32, -0.0, 1.0, -2.5, 3.0] { three.push(Operand::Const(c)); }
        for &lo in &three { for &ro in &three {
            for which in 0..2 {
                let mut ctx = Context::new();
                let a = mk(&mut ctx, lo, None);
                let b = mk(&mut ctx, ro, Some(a));
                let n = if which == 0 { ctx.less_than(a, b).unwrap() } else { ctx.less_than_or_equal(a, b).unwrap() };
                for &x in &pts { for &y in &pts {
                    r.cases += 1;
                    let (va, vb) = (val(lo, x, y, 0.0), val(ro, x, y, 0.0));
                    if !(va.is_finite() && vb.is_finite()) { continue; }
                    let want = if which == 0 { (va < vb) as u8 as f32 } else { (va <= vb) as u8 as f32 };
                    let got = ctx.eval_xyz(n, x, y, 0.0).unwrap();
                    if !approx(got, want) {
                        let nm = if which == 0 { "less_than" } else { "less_than_or_equal" };
                        r.fail(format!("[meaning:{nm}] {nm}:{lo:?}:{ro:?}:x={},y={}", fmt_f(x), fmt_f(y)),
                               format!("[meaning:{nm}] Context::{nm}({lo:?}, {ro:?}) evaluates to {} but {} {} {} is {}", fmt_f(got), fmt_f(va), if which == 0 { "<" } else { "<=" }, fmt_f(vb), want),
                               json!({"contract":"context_rewrites","ctor":nm,"x":x.to_bits(),"y":y.to_bits()}));
                    }
                } }
            }
            for &co in &three {
                let mut ctx = Context::new();
                let c = mk(&mut ctx, co, None);
                let a = mk(&mut ctx, lo, None);
                let b = mk(&mut ctx, ro, None);
                let n = ctx.if_nonzero_else(c, a, b).unwrap();
                for &x in &pts { for &y in &pts {
                    r.cases += 1;
                    let (vc, va, vb) = (val(co, x, y, 0.0), val(lo, x, y, 0.0), val(ro, x, y, 0.0));
                    if !(vc.is_finite() && va.is_finite() && vb.is_finite()) { continue; }
                    let want = if vc != 0.0 { va } else { vb };
                    let got = ctx.eval_xyz(n, x, y, 0.0).unwrap();
                    if !approx(got, want) {
                        r.fail(format!("[meaning:if_nonzero_else] {co:?}:{lo:?}:{ro:?}:x={},y={}", fmt_f(x), fmt_f(y)),
                               format!("[meaning:if_nonzero_else] Context::if_nonzero_else({co:?}, {lo:?}, {ro:?}) evaluates to {} but the selected value is {}", fmt_f(got), fmt_f(want)),
                               json!({"contract":"context_rewrites","ctor":"if_nonzero_else","x":x.to_bits(),"y":y.to_bits()}));
                    }
                } }
            }
        } }
    }
    // unary constructors: exact
    type UnCtor = fn(&mut Context, Node) -> Node;
    let uns: Vec<(&str, UnaryOpcode, UnCtor)> = vec![
        ("neg", UnaryOpcode::Neg, |c, a| c.neg(a).unwrap()), ("abs", UnaryOpcode::Abs, |c, a| c.abs(a).unwrap()), ("recip", UnaryOpcode::Recip, |c, a| c.recip(a).unwrap()),
        ("sqrt", UnaryOpcode::Sqrt, |c, a| c.sqrt(a).unwrap()), ("square", UnaryOpcode::Square, |c, a| c.square(a).unwrap()), ("floor", UnaryOpcode::Floor, |c, a| c.floor(a).unwrap()),
        ("ceil", UnaryOpcode::Ceil, |c, a| c.ceil(a).unwrap()), ("round", UnaryOpcode::Round, |c, a| c.round(a).unwrap()), ("sin", UnaryOpcode::Sin, |c, a| c.sin(a).unwrap()),
        ("cos", UnaryOpcode::Cos, |c, a| c.cos(a).unwrap()), ("tan", UnaryOpcode::Tan, |c, a| c.tan(a).unwrap()), ("asin", UnaryOpcode::Asin, |c, a| c.asin(a).unwrap()),
        ("acos", UnaryOpcode::Acos, |c, a| c.acos(a).unwrap()), ("atan", UnaryOpcode::Atan, |c, a| c.atan(a).unwrap()), ("exp", UnaryOpcode::Exp, |c, a| c.exp(a).unwrap()),
        ("ln", UnaryOpcode::Ln, |c, a| c.ln(a).unwrap()), ("not", UnaryOpcode::Not, |c, a| c.not(a).unwrap()),
    ];
    for (name, op, ctor) in &uns {
        for &lo in &operands {
            let mut ctx = Context::new();
            let a = mk(&mut ctx, lo, None);
            let n = ctor(&mut ctx, a);
            let mut upts = pts.clone();
            upts.extend(boundary_values().into_iter().filter(|v| v.is_finite()));
            for &x in &upts {
                r.cases += 1;
                let va = val(lo, x, 0.5, 0.0);
                let want = un_ref(*op, va);
                let got = ctx.eval_xyz(n, x, 0.5, 0.0).unwrap();
                // up to the sign of zero: a folded constant may be represented by the arena's zero of the other sign
                if !approx(got, want) {
                    r.fail(format!("{name}:{lo:?}:x={}", fmt_f(x)), format!("Context::{name}({lo:?}) evaluates to {} but {name}({}) = {}", fmt_f(got), fmt_f(va), fmt_f(want)),
                           json!({"contract":"context_rewrites","ctor":name,"lhs":format!("{lo:?}"),"x":x.to_bits()}));
                }
            }
        }
    }
    r.space = format!("11 binary constructors x {} lhs operand shapes (variable x, variable y, compound node atan2(x,y), {} constants incl. +-0, +-1, 2) x {} rhs shapes (the same plus `the same node as the lhs`) x {}^2 points; 17 unary constructors x the lhs shapes x {} points; plus two-level chains op2(op1(x, c1), c2) (both operand orders) for op1, op2 in {{add, sub, mul, div, min, max}} and 10 constants incl. +-1e8, plus less_than / less_than_or_equal / if_nonzero_else on 8 operand shapes each; oracle: the f32 operation written in this file (not context/op.rs) on the operand values, bit for bit or both zero, skipped when an operand or the unsimplified result is not finite (the property's hedge)",
        operands.len(), consts.len(), rhs_ops.len(), pts.len(), pts.len());
    r.distinct = r.cases;
    r.exhaustive = true;
    r.sample(json!({"ctor":"sub","lhs":"Const(0.0)","rhs":"X","x":"3.0","expected":"0.0 - 3.0"}));
    r
}

pub fn replay(v: &serde_json::Value) -> bool {
    let _ = v;
    !context_rewrites(false).failures.is_empty()
}
