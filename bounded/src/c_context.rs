//! C12, constructor clause (bounded companion of the Verus unit `context`): every `Context` constructor, on every operand
//! shape (a variable, a constant from the grid, the same node twice, a compound node), builds a node whose `Context::eval`
//! equals the f32 operation applied to the operand values, bit for bit or up to the sign of a zero result, whenever the
//! operands and the unsimplified result are finite.
use crate::common::*;
use fidget_core::context::{BinaryOpcode, Context, Node, UnaryOpcode};
use serde_json::json;

#[derive(Copy, Clone, Debug)]
enum Operand { X, Y, Const(f32), SameAsLhs, Compound }

fn approx(a: f32, b: f32) -> bool {
    a.to_bits() == b.to_bits() || (a == 0.0 && b == 0.0) || (a.is_nan() && b.is_nan())
}

fn mk(ctx: &mut Context, o: Operand, lhs: Option<Node>) -> Node {
    match o {
        Operand::X => ctx.x(),
        Operand::Y => ctx.y(),
        Operand::Const(c) => ctx.constant(c),
        Operand::SameAsLhs => lhs.unwrap(),
        Operand::Compound => { let x = ctx.x(); let y = ctx.y(); ctx.op_binary_for_verif(x, y) }
    }
}

trait VerifCtx { fn op_binary_for_verif(&mut self, a: Node, b: Node) -> Node; }
impl VerifCtx for Context {
    // a compound operand: atan2(x, y) has no rewrite
    fn op_binary_for_verif(&mut self, a: Node, b: Node) -> Node { self.atan2(a, b).unwrap() }
}

fn val(o: Operand, x: f32, y: f32, lhs: f32) -> f32 {
    match o {
        Operand::X => x,
        Operand::Y => y,
        Operand::Const(c) => c,
        Operand::SameAsLhs => lhs,
        Operand::Compound => x.atan2(y),
    }
}

type BinCtor = fn(&mut Context, Node, Node) -> Node;

pub fn context_rewrites(thorough: bool) -> Report {
    let mut r = Report::new("context_rewrites");
    let consts: Vec<f32> = vec![0.0, -0.0, 1.0, -1.0, 2.0, 0.5, -2.5, 3.0, 1.0e-40, 1.0e20, f32::MAX];
    let pts: Vec<f32> = if thorough { grid(false).into_iter().filter(|v| v.is_finite()).collect() } else { vec![0.0, -0.0, 1.0, -1.0, 0.5, -2.5, 3.0, 1.0e-40, 1.0e20, -1.0e20, f32::MAX, std::f32::consts::PI] };
    let bins: Vec<(&str, BinaryOpcode, BinCtor)> = vec![
        ("add", BinaryOpcode::Add, |c, a, b| c.add(a, b).unwrap()), ("sub", BinaryOpcode::Sub, |c, a, b| c.sub(a, b).unwrap()),
        ("mul", BinaryOpcode::Mul, |c, a, b| c.mul(a, b).unwrap()), ("div", BinaryOpcode::Div, |c, a, b| c.div(a, b).unwrap()),
        ("min", BinaryOpcode::Min, |c, a, b| c.min(a, b).unwrap()), ("max", BinaryOpcode::Max, |c, a, b| c.max(a, b).unwrap()),
        ("and", BinaryOpcode::And, |c, a, b| c.and(a, b).unwrap()), ("or", BinaryOpcode::Or, |c, a, b| c.or(a, b).unwrap()),
        ("atan2", BinaryOpcode::Atan, |c, a, b| c.atan2(a, b).unwrap()), ("compare", BinaryOpcode::Compare, |c, a, b| c.compare(a, b).unwrap()),
        ("modulo", BinaryOpcode::Mod, |c, a, b| c.modulo(a, b).unwrap()),
    ];
    let mut operands: Vec<Operand> = vec![Operand::X, Operand::Y, Operand::Compound];
    for &c in &consts { operands.push(Operand::Const(c)); }
    let mut rhs_ops = operands.clone();
    rhs_ops.push(Operand::SameAsLhs);
    for (name, op, ctor) in &bins {
        for &lo in &operands {
            for &ro in &rhs_ops {
                let mut ctx = Context::new();
                let a = mk(&mut ctx, lo, None);
                let b = mk(&mut ctx, ro, Some(a));
                let n = ctor(&mut ctx, a, b);
                for &x in &pts {
                    for &y in &pts {
                        r.cases += 1;
                        let va = val(lo, x, y, 0.0);
                        let vb = val(ro, x, y, va);
                        let want = op.eval(va, vb);
                        if !(va.is_finite() && vb.is_finite() && want.is_finite()) {
                            continue;
                        }
                        let got = ctx.eval_xyz(n, x, y, 0.0).unwrap();
                        if !approx(got, want) {
                            // cause: a zero constant is represented by the arena's existing zero of the other sign (Op's derived Eq/Hash
                            // compare constants as OrderedFloat), and the operation is sensitive to the sign of a zero operand
                            let stored = |o: Operand, node: Node, v: f32| if matches!(o, Operand::Const(_)) { ctx.get_const(node).unwrap_or(v) } else { v };
                            let (sa, sb) = (stored(lo, a, va), stored(ro, b, vb));
                            let dedup = (sa.to_bits() != va.to_bits() || sb.to_bits() != vb.to_bits()) && sa == va && sb == vb && approx(got, op.eval(sa, sb));
                            let class = if dedup { format!("signed-zero-constant-dedup:{name}") } else { format!("meaning:{name}") };
                            r.fail(format!("[{class}] {name}:{lo:?}:{ro:?}:x={},y={}", fmt_f(x), fmt_f(y)),
                                   format!("[{class}] Context::{name}({lo:?}, {ro:?}) evaluates to {} but {name}({}, {}) = {}", fmt_f(got), fmt_f(va), fmt_f(vb), fmt_f(want)),
                                   json!({"contract":"context_rewrites","ctor":name,"lhs":format!("{lo:?}"),"rhs":format!("{ro:?}"),"x":x.to_bits(),"y":y.to_bits()}));
                        }
                    }
                }
            }
        }
    }
    // unary constructors: exact
    type UnCtor = fn(&mut Context, Node) -> Node;
    let uns: Vec<(&str, UnaryOpcode, UnCtor)> = vec![
        ("neg", UnaryOpcode::Neg, |c, a| c.neg(a).unwrap()), ("abs", UnaryOpcode::Abs, |c, a| c.abs(a).unwrap()), ("recip", UnaryOpcode::Recip, |c, a| c.recip(a).unwrap()),
        ("sqrt", UnaryOpcode::Sqrt, |c, a| c.sqrt(a).unwrap()), ("square", UnaryOpcode::Square, |c, a| c.square(a).unwrap()), ("floor", UnaryOpcode::Floor, |c, a| c.floor(a).unwrap()),
        ("ceil", UnaryOpcode::Ceil, |c, a| c.ceil(a).unwrap()), ("round", UnaryOpcode::Round, |c, a| c.round(a).unwrap()), ("sin", UnaryOpcode::Sin, |c, a| c.sin(a).unwrap()),
        ("cos", UnaryOpcode::Cos, |c, a| c.cos(a).unwrap()), ("tan", UnaryOpcode::Tan, |c, a| c.tan(a).unwrap()), ("asin", UnaryOpcode::Asin, |c, a| c.asin(a).unwrap()),
        ("acos", UnaryOpcode::Acos, |c, a| c.acos(a).unwrap()), ("atan", UnaryOpcode::Atan, |c, a| c.atan(a).unwrap()), ("exp", UnaryOpcode::Exp, |c, a| c.exp(a).unwrap()),
        ("ln", UnaryOpcode::Ln, |c, a| c.ln(a).unwrap()), ("not", UnaryOpcode::Not, |c, a| c.not(a).unwrap()),
    ];
    for (name, op, ctor) in &uns {
        for &lo in &operands {
            let mut ctx = Context::new();
            let a = mk(&mut ctx, lo, None);
            let n = ctor(&mut ctx, a);
            for &x in &pts {
                r.cases += 1;
                let va = val(lo, x, 0.5, 0.0);
                let want = op.eval(va);
                let got = ctx.eval_xyz(n, x, 0.5, 0.0).unwrap();
                if !(got.to_bits() == want.to_bits() || (got.is_nan() && want.is_nan())) {
                    r.fail(format!("{name}:{lo:?}:x={}", fmt_f(x)), format!("Context::{name}({lo:?}) evaluates to {} but {name}({}) = {}", fmt_f(got), fmt_f(va), fmt_f(want)),
                           json!({"contract":"context_rewrites","ctor":name,"lhs":format!("{lo:?}"),"x":x.to_bits()}));
                }
            }
        }
    }
    r.space = format!("11 binary constructors x {} lhs operand shapes (variable x, variable y, compound node atan2(x,y), {} constants incl. +-0, +-1, 2) x {} rhs shapes (the same plus `the same node as the lhs`) x {}^2 points; 17 unary constructors x the lhs shapes x {} points; oracle: BinaryOpcode::eval / UnaryOpcode::eval on the operand values, bit for bit or both zero, skipped when an operand or the unsimplified result is not finite (the property's hedge)",
        operands.len(), consts.len(), rhs_ops.len(), pts.len(), pts.len());
    r.distinct = r.cases;
    r.exhaustive = true;
    r.sample(json!({"ctor":"sub","lhs":"Const(0.0)","rhs":"X","x":"3.0","expected":"0.0 - 3.0"}));
    r
}

pub fn replay(v: &serde_json::Value) -> bool {
    let _ = v;
    !context_rewrites(false).failures.is_empty()
}
