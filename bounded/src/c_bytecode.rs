//! C15: the serialized bytecode, read ONLY per the module documentation of `fidget-bytecode`,
//! computes the tape.
//!
//! What the decoder below takes from the documentation (and nothing from `Bytecode::new`'s source):
//!  * little-endian u32 words, two per operation, forward evaluation order;
//!  * first two words `0xFFFF_FFFF 0x0000_0000`, last two `0xFFFF_FFFF 0xFFFF_FFFF`;
//!  * word 0: byte 0 opcode, byte 1 output register, byte 2 first input, byte 3 second input;
//!  * opcode numbers = positions in `iter_ops()` (names in CamelCase);
//!  * an input byte of 0xFF = "use the second word, bit-cast to f32, as the immediate";
//!  * `Mem`: the 0xFF flag says whether it reads or writes memory (0xFF in the input byte: load into
//!    the output register; 0xFF in the output byte: store the input register), second word = memory slot.
//! Not spelled out in the documentation and therefore stated here as the decoder's reading: `Input`
//! writes register byte 1 from variable index = second word; `Output` reads register byte 1 and
//! writes output index = second word.
use crate::common::*;
use crate::helpers::*;
use fidget_bytecode::{Bytecode, iter_ops};
use fidget_core::compiler::{RegOp, RegTape, SsaTape};
use fidget_core::context::{BinaryOpcode as B, UnaryOpcode as U};
use fidget_core::eval::{Function, TracingEvaluator};
use fidget_core::vm::{GenericVmFunction, VmData};
use serde_json::json;
use std::collections::HashMap;

#[derive(Clone, Debug)]
struct Ins {
    name: &'static str,
    b1: u8,
    b2: u8,
    b3: u8,
    imm: u32,
}

enum Sem {
    Input,
    Output,
    Copy,
    Mem,
    Un(U),
    Bin(B),
}

fn sem_of(name: &str) -> Option<Sem> {
    Some(match name {
        "Input" => Sem::Input,
        "Output" => Sem::Output,
        "Copy" => Sem::Copy,
        "Mem" => Sem::Mem,
        "Neg" => Sem::Un(U::Neg),
        "Abs" => Sem::Un(U::Abs),
        "Recip" => Sem::Un(U::Recip),
        "Sqrt" => Sem::Un(U::Sqrt),
        "Square" => Sem::Un(U::Square),
        "Floor" => Sem::Un(U::Floor),
        "Ceil" => Sem::Un(U::Ceil),
        "Round" => Sem::Un(U::Round),
        "Not" => Sem::Un(U::Not),
        "Rand" => Sem::Un(U::Rand),
        "Sin" => Sem::Un(U::Sin),
        "Cos" => Sem::Un(U::Cos),
        "Tan" => Sem::Un(U::Tan),
        "Asin" => Sem::Un(U::Asin),
        "Acos" => Sem::Un(U::Acos),
        "Atan" => Sem::Un(U::Atan),
        "Exp" => Sem::Un(U::Exp),
        "Ln" => Sem::Un(U::Ln),
        "Add" => Sem::Bin(B::Add),
        "Sub" => Sem::Bin(B::Sub),
        "Mul" => Sem::Bin(B::Mul),
        "Div" => Sem::Bin(B::Div),
        "Atan2" => Sem::Bin(B::Atan),
        "Compare" => Sem::Bin(B::Compare),
        "Mix" => Sem::Bin(B::Mix),
        "Mod" => Sem::Bin(B::Mod),
        "Min" => Sem::Bin(B::Min),
        "Max" => Sem::Bin(B::Max),
        "And" => Sem::Bin(B::And),
        "Or" => Sem::Bin(B::Or),
        _ => return None,
    })
}

fn decode(data: &[u32]) -> Result<Vec<Ins>, String> {
    let table: Vec<(&'static str, u8)> = iter_ops().collect();
    for (i, (_, code)) in table.iter().enumerate() {
        if *code as usize != i {
            return Err(format!("iter_ops() entry {i} carries opcode {code}"));
        }
    }
    if data.len() < 4 || data.len() % 2 != 0 {
        return Err(format!("length {} is not an even number >= 4", data.len()));
    }
    if data[0] != 0xFFFF_FFFF || data[1] != 0 {
        return Err(format!("start marker is {:08x} {:08x}, expected ffffffff 00000000", data[0], data[1]));
    }
    let n = data.len();
    if data[n - 2] != 0xFFFF_FFFF || data[n - 1] != 0xFFFF_FFFF {
        return Err(format!("end marker is {:08x} {:08x}, expected ffffffff ffffffff", data[n - 2], data[n - 1]));
    }
    let mut out = vec![];
    for k in 1..(n / 2 - 1) {
        let b = data[2 * k].to_le_bytes();
        let Some((name, _)) = table.get(b[0] as usize) else {
            return Err(format!("instruction {}: opcode byte {:#x} is not in iter_ops()", k - 1, b[0]));
        };
        out.push(Ins { name, b1: b[1], b2: b[2], b3: b[3], imm: data[2 * k + 1] });
    }
    Ok(out)
}

struct Machine {
    regs: Vec<Option<f32>>,
    mem: HashMap<u32, f32>,
    mem_count: u32,
}

impl Machine {
    fn reg(&self, b: u8, what: &str) -> Result<f32, String> {
        if b == 0xFF {
            return Err(format!("{what}: byte 0xFF where a register is required"));
        }
        match self.regs.get(b as usize) {
            None => Err(format!("{what}: register {b} >= reg_count {}", self.regs.len())),
            Some(None) => Err(format!("{what}: register {b} read before it is written")),
            Some(Some(v)) => Ok(*v),
        }
    }
    fn set(&mut self, b: u8, v: f32, what: &str) -> Result<(), String> {
        if b == 0xFF {
            return Err(format!("{what}: byte 0xFF as the output register"));
        }
        match self.regs.get_mut(b as usize) {
            None => Err(format!("{what}: output register {b} >= reg_count {}", self.regs.len())),
            Some(slot) => {
                *slot = Some(v);
                Ok(())
            }
        }
    }
    fn arg(&self, b: u8, imm: u32, what: &str) -> Result<f32, String> {
        if b == 0xFF { Ok(f32::from_bits(imm)) } else { self.reg(b, what) }
    }
}

fn execute(prog: &[Ins], reg_count: u8, mem_count: u32, vars: &[f32], n_out: usize) -> Result<Vec<f32>, String> {
    let mut m = Machine { regs: vec![None; reg_count as usize], mem: HashMap::new(), mem_count };
    let mut outs: Vec<Option<f32>> = vec![None; n_out];
    for (k, ins) in prog.iter().enumerate() {
        let what = format!("instruction {k} ({} {:#04x} {:#04x} {:#04x} / {:#010x})", ins.name, ins.b1, ins.b2, ins.b3, ins.imm);
        match sem_of(ins.name).ok_or(format!("{what}: no documented meaning for opcode name"))? {
            Sem::Input => {
                let v = *vars.get(ins.imm as usize).ok_or(format!("{what}: variable index out of range"))?;
                m.set(ins.b1, v, &what)?;
            }
            Sem::Output => {
                let v = m.reg(ins.b1, &what)?;
                *outs.get_mut(ins.imm as usize).ok_or(format!("{what}: output index out of range"))? = Some(v);
            }
            Sem::Copy => {
                let v = m.arg(ins.b2, ins.imm, &what)?;
                m.set(ins.b1, v, &what)?;
            }
            Sem::Un(u) => {
                let v = m.arg(ins.b2, ins.imm, &what)?;
                m.set(ins.b1, u.eval(v), &what)?;
            }
            Sem::Bin(b) => {
                if ins.b2 == 0xFF && ins.b3 == 0xFF {
                    return Err(format!("{what}: both inputs are immediates"));
                }
                let l = m.arg(ins.b2, ins.imm, &what)?;
                let r = m.arg(ins.b3, ins.imm, &what)?;
                m.set(ins.b1, b.eval(l, r), &what)?;
            }
            Sem::Mem => {
                if ins.imm >= m.mem_count {
                    return Err(format!("{what}: memory slot {} >= mem_count {}", ins.imm, m.mem_count));
                }
                if ins.b2 == 0xFF && ins.b1 != 0xFF {
                    let v = *m.mem.get(&ins.imm).ok_or(format!("{what}: memory slot read before it is written"))?;
                    m.set(ins.b1, v, &what)?;
                } else if ins.b1 == 0xFF && ins.b2 != 0xFF {
                    let v = m.reg(ins.b2, &what)?;
                    m.mem.insert(ins.imm, v);
                } else {
                    return Err(format!("{what}: Mem needs exactly one 0xFF direction flag"));
                }
            }
        }
    }
    outs.into_iter().enumerate().map(|(i, o)| o.ok_or(format!("output {i} never written"))).collect()
}

/// instruction k must be op k with a consistent injective renaming of registers, memory rebased to 0
fn structural<const N: usize>(prog: &[Ins], ops: &[RegOp], rename: &mut HashMap<u32, u8>) -> Result<(), String> {
    if prog.len() != ops.len() {
        return Err(format!("{} instructions for {} tape ops", prog.len(), ops.len()));
    }
    let mut check_reg = |orig: u32, byte: u8, k: usize| -> Result<(), String> {
        if byte == 0xFF {
            return Err(format!("instruction {k}: register {orig} encoded as 0xFF"));
        }
        match rename.get(&orig) {
            Some(&b) if b != byte => Err(format!("instruction {k}: register {orig} was renamed to {b} before, now {byte}")),
            Some(_) => Ok(()),
            None => {
                if rename.values().any(|&b| b == byte) {
                    return Err(format!("instruction {k}: two registers renamed to {byte}"));
                }
                rename.insert(orig, byte);
                Ok(())
            }
        }
    };
    for (k, (ins, &op)) in prog.iter().zip(ops).enumerate() {
        let dec = reg_decode(op);
        let mut arg = |a: Arg, byte: u8| -> Result<(), String> {
            match a {
                Arg::Slot(r) => check_reg(r, byte, k),
                Arg::Imm(c) => {
                    if byte != 0xFF || ins.imm != c.to_bits() {
                        Err(format!("instruction {k}: immediate {} encoded as byte {byte:#x} word {:#010x}", fmt_f(c), ins.imm))
                    } else {
                        Ok(())
                    }
                }
            }
        };
        let want_name: String;
        match dec {
            Dec::Input(r, i) | Dec::Output(r, i) => {
                want_name = if matches!(dec, Dec::Input(..)) { "Input".into() } else { "Output".into() };
                arg(Arg::Slot(r), ins.b1)?;
                if ins.imm != i {
                    return Err(format!("instruction {k}: index word {} != {i}", ins.imm));
                }
            }
            Dec::Copy(o, a) => {
                want_name = "Copy".into();
                arg(Arg::Slot(o), ins.b1)?;
                arg(a, ins.b2)?;
            }
            Dec::Un(o, u, a) => {
                want_name = format!("{u:?}");
                arg(Arg::Slot(o), ins.b1)?;
                arg(Arg::Slot(a), ins.b2)?;
            }
            Dec::Bin(o, b, l, r) => {
                want_name = if b == B::Atan { "Atan2".into() } else { format!("{b:?}") };
                arg(Arg::Slot(o), ins.b1)?;
                arg(l, ins.b2)?;
                arg(r, ins.b3)?;
            }
            Dec::Load(r, m) => {
                want_name = "Mem".into();
                arg(Arg::Slot(r), ins.b1)?;
                if ins.b2 != 0xFF || ins.imm != m - N as u32 {
                    return Err(format!("instruction {k}: Load({r}, {m}) encoded as bytes {:#x} {:#x} slot {}", ins.b1, ins.b2, ins.imm));
                }
            }
            Dec::Store(r, m) => {
                want_name = "Mem".into();
                arg(Arg::Slot(r), ins.b2)?;
                if ins.b1 != 0xFF || ins.imm != m - N as u32 {
                    return Err(format!("instruction {k}: Store({r}, {m}) encoded as bytes {:#x} {:#x} slot {}", ins.b1, ins.b2, ins.imm));
                }
            }
        }
        if ins.name != want_name {
            return Err(format!("instruction {k}: opcode name {} for {op:?}", ins.name));
        }
    }
    Ok(())
}

/// the whole C15 check for one VmData and a list of input vectors
fn check<const N: usize>(data: VmData<N>, inputs: &[Vec<f32>], sig: &str, rep: serde_json::Value, r: &mut Report, classes: &Classes) {
    r.cases += 1;
    let ops: Vec<RegOp> = data.iter_asm().collect();
    let n_out = data.output_count();
    let bc = match std::panic::catch_unwind(std::panic::AssertUnwindSafe(|| Bytecode::new(&data))) {
        Err(_) => {
            classes.fail(r, "bytecode-new-panic".into(), sig.into(), format!("Bytecode::new panicked; tape = {ops:?}"), rep);
            return;
        }
        Ok(Err(e)) => {
            classes.fail(r, "bytecode-new-err".into(), sig.into(), format!("Bytecode::new returned {e:?} for a tape with {} distinct registers", distinct_regs(&ops)), rep);
            return;
        }
        Ok(Ok(bc)) => bc,
    };
    if bc.len() != bc.data().len() || bc.as_bytes().len() != 4 * bc.len() {
        classes.fail(r, "getters".into(), sig.into(), "len()/data()/as_bytes() disagree".into(), rep.clone());
    }
    let le: Vec<u32> = bc.as_bytes().chunks(4).map(|c| u32::from_le_bytes([c[0], c[1], c[2], c[3]])).collect();
    if le != bc.data() {
        classes.fail(r, "endianness".into(), sig.into(), "as_bytes() is not the little-endian image of data()".into(), rep.clone());
    }
    let prog = match decode(bc.data()) {
        Err(e) => {
            classes.fail(r, "decode".into(), sig.into(), format!("{e}; tape = {ops:?}"), rep);
            return;
        }
        Ok(p) => p,
    };
    if let Err(e) = structural::<N>(&prog, &ops, &mut HashMap::new()) {
        classes.fail(r, "structure".into(), sig.into(), format!("{e}; tape = {ops:?}; words = {:08x?}", bc.data()), rep.clone());
    }
    // strict bounds: reg_count / mem_count are the least strict upper bounds of what is used
    let max_reg = prog.iter().flat_map(|i| [i.b1, i.b2, i.b3]).filter(|b| *b != 0xFF).max();
    // (bytes 2/3 of Input/Output and byte 3 of unary ops are unused and documented as such; they are 0xFF in practice)
    if let Some(mr) = max_reg {
        if mr >= bc.reg_count() {
            classes.fail(r, "reg_count".into(), sig.into(), format!("register byte {mr} >= reg_count {}", bc.reg_count()), rep.clone());
        }
    }
    let max_mem = prog.iter().filter(|i| i.name == "Mem").map(|i| i.imm).max();
    if let Some(mm) = max_mem {
        if mm >= bc.mem_count() {
            classes.fail(r, "mem_count".into(), sig.into(), format!("memory slot {mm} >= mem_count {}", bc.mem_count()), rep.clone());
        }
    }
    let f = GenericVmFunction::<N>::from(data);
    let tape = f.point_tape(Default::default());
    let mut ev = GenericVmFunction::<N>::new_point_eval();
    for inp in inputs {
        let want = match ev.eval(&tape, inp) {
            Ok((o, _)) => o.to_vec(),
            Err(e) => {
                classes.fail(r, "vm-eval".into(), sig.into(), format!("{e:?}"), rep.clone());
                return;
            }
        };
        match execute(&prog, bc.reg_count(), bc.mem_count(), inp, n_out) {
            Err(e) => {
                classes.fail(r, "execute".into(), format!("{sig}:inputs={:?}", inp.iter().map(|v| fmt_f(*v)).collect::<Vec<_>>()), format!("{e}; tape = {ops:?}; words = {:08x?}", bc.data()), rep.clone());
                return;
            }
            Ok(got) => {
                if got.len() != want.len() || (0..got.len()).any(|k| !bits_eq(got[k], want[k])) {
                    classes.fail(r, "value".into(), format!("{sig}:inputs={:?}", inp.iter().map(|v| fmt_f(*v)).collect::<Vec<_>>()),
                                 format!("bytecode interpreter gives {:?} but the VM gives {:?}; tape = {ops:?}; words = {:08x?}", got.iter().map(|v| fmt_f(*v)).collect::<Vec<_>>(), want.iter().map(|v| fmt_f(*v)).collect::<Vec<_>>(), bc.data()), rep.clone());
                    return;
                }
            }
        }
    }
}

fn distinct_regs(ops: &[RegOp]) -> usize {
    let mut s = std::collections::BTreeSet::new();
    for op in ops {
        for r in reg_parts(*op).0 {
            s.insert(r);
        }
    }
    s.len()
}

fn hook_data<const N: usize>(mut ev: Vec<RegOp>, slot_count: u32, n_vars: usize, choice_count: usize) -> VmData<N> {
    ev.reverse();
    VmData::<N>::verif_from_parts(SsaTape { tape: vec![], choice_count, output_count: 1 }, RegTape::verif_from_ops(ev, slot_count), varmap(n_vars))
}

const POINTS: [(f32, f32); 5] = [(0.5, -2.5), (0.0, -0.0), (f32::NAN, 1.0), (3.0, 3.0), (-1.0, f32::INFINITY)];

fn hook_part<const N: usize>(case: &OpCase, g: &[f32], r: &mut Report, classes: &Classes) {
    let top = (N - 1) as u8;
    let regs = [0u8, 1, top];
    let mems = [N as u32, N as u32 + 1, 1 << 20];
    let inputs: Vec<Vec<f32>> = POINTS.iter().map(|p| vec![p.0, p.1]).collect();
    let two = case.kind == Kind::RegReg;
    for &imm in &imms_for(case, g) {
        for &o in &regs {
            for &a in &regs {
                for &b in if two { &regs[..] } else { &regs[..1] } {
                    let two_inputs = two && a != b;
                    let n_vars = if two_inputs { 2 } else { 1 };
                    let head = |ev: &mut Vec<RegOp>| {
                        ev.push(RegOp::Input(a, 0));
                        if two_inputs {
                            ev.push(RegOp::Input(b, 1));
                        }
                        ev.push((case.mk_reg)(o, a, if two { b } else { 0 }, imm));
                    };
                    let sig = format!("N={N}:{}:out={o},a={a},b={b}:imm={}", case.name, fmt_f(imm));
                    let rep = json!({"contract":"bytecode","part":"hook","N":N,"op":case.name,"o":o,"a":a,"b":b,"imm":imm.to_bits()});
                    // 1-op tape
                    let mut ev = vec![];
                    head(&mut ev);
                    ev.push(RegOp::Output(o, 0));
                    check::<N>(hook_data::<N>(ev, N as u32, n_vars, case.choice as usize), &inputs, &format!("{sig}:1-op"), rep.clone(), r, classes);
                    // 2-op tape: the result feeds an imm/reg op in another register
                    for &o2 in &[regs[(o as usize + 1) % 3], o] {
                        let mut ev = vec![];
                        head(&mut ev);
                        ev.push(RegOp::SubImmReg(o2, o, 1.5));
                        ev.push(RegOp::Output(o2, 0));
                        check::<N>(hook_data::<N>(ev, N as u32, n_vars, case.choice as usize), &inputs, &format!("{sig}:2-op:o2={o2}"), rep.clone(), r, classes);
                    }
                    // result through memory
                    if imm.to_bits() == imms_for(case, g)[0].to_bits() {
                        for &m in &mems {
                            let mut ev = vec![];
                            head(&mut ev);
                            ev.push(RegOp::Store(o, m));
                            ev.push(RegOp::Load(a, m));
                            ev.push(RegOp::Output(a, 0));
                            check::<N>(hook_data::<N>(ev, m + 1, n_vars, case.choice as usize), &inputs, &format!("{sig}:mem={m}"), rep.clone(), r, classes);
                        }
                    }
                }
            }
        }
    }
}

/// k distinct registers in one tape: CopyImm into each, summed into register 0
fn many_regs<const N: usize>(k: usize) -> VmData<N> {
    let mut ev = vec![];
    for r in 0..k {
        ev.push(RegOp::CopyImm(r as u8, r as f32));
    }
    for r in 1..k {
        ev.push(RegOp::AddRegReg(0, 0, r as u8));
    }
    ev.push(RegOp::Output(0, 0));
    hook_data::<N>(ev, N as u32, 0, 0)
}

const CFG: ExprCfg = ExprCfg { max_vars: 3, max_steps: 14, choice_pct: 25, max_out: 3, overflow: false };

fn compiled_one(seed: u64, i: usize, g: &[f32], r: &mut Report, classes: &Classes) {
    let mut rng = Rng::new(seed.wrapping_mul(0xB17E).wrapping_add(i as u64).wrapping_add(0xC15));
    let e = gen_expr(&mut rng, CFG);
    let rep = json!({"contract":"bytecode","part":"compiled","seed":seed,"index":i});
    macro_rules! with_n {
        ($n:literal) => {{
            match VmData::<$n>::new(&e.ctx, &e.roots) {
                Err(err) => classes.fail(r, "vmdata-new".into(), format!("seed={seed}:expr#{i}:N={}", $n), format!("{err:?}"), rep.clone()),
                Ok(data) => {
                    let n_in = data.vars.len();
                    let inputs: Vec<Vec<f32>> = (0..6).map(|_| (0..n_in).map(|_| g[rng.below(g.len())]).collect()).collect();
                    check::<$n>(data, &inputs, &format!("seed={seed}:expr#{i}:N={}:program={}", $n, e.text.join("; ")), rep.clone(), r, classes);
                }
            }
        }};
    }
    with_n!(3);
    with_n!(4);
    with_n!(12);
}

pub fn bytecode(thorough: bool, seed: u64) -> Report {
    let g = grid(thorough);
    let table = op_table();
    let classes = Classes::default();
    let mut r = par_map(&table, "bytecode", |case, r| {
        hook_part::<255>(case, &g, r, &classes);
        hook_part::<12>(case, &g, r, &classes);
    });
    // reserved register: 255 distinct registers are fine, 256 must be refused with an Err (never a wrong encoding)
    r.cases += 2;
    check::<256>(many_regs::<256>(255), &[vec![]], "N=256:255 distinct registers", json!({"contract":"bytecode","part":"reserved","k":255}), &mut r, &classes);
    match std::panic::catch_unwind(|| Bytecode::new(&many_regs::<256>(256)).map(|b| b.data().to_vec())) {
        Ok(Err(_)) => {}
        Ok(Ok(words)) => classes.fail(&mut r, "reserved-register".into(), "N=256:256 distinct registers".into(), format!("Bytecode::new accepted a tape with 256 live registers: {} words", words.len()), json!({"contract":"bytecode","part":"reserved","k":256})),
        Err(_) => classes.fail(&mut r, "reserved-register".into(), "N=256:256 distinct registers".into(), "Bytecode::new panicked instead of returning ReservedRegister".into(), json!({"contract":"bytecode","part":"reserved","k":256})),
    }
    let hook_cases = r.cases;
    let rounds: usize = if thorough { 12000 } else { 1500 };
    let idx: Vec<usize> = (0..rounds).collect();
    let comp = par_map(&idx, "bytecode", |&i, r| compiled_one(seed, i, &g, r, &classes));
    let comp_cases = comp.cases;
    merge(&mut r, comp);
    r.space = format!(
        "decoder/interpreter written from the fidget-bytecode module documentation only (see c_bytecode.rs header; opcode numbers from iter_ops()).  PART 1 (complete): hook-built VmData<255> and VmData<12>: every op case ({}) x registers (out, lhs, rhs) each in {{0, 1, N-1}} x every grid immediate ({} values) for reg/imm and imm/reg forms: the 1-op tape [Input.., op, Output]; two 2-op tapes (result consumed by SubImmReg into another / the same register); and for the first immediate the result routed through memory slot N, N+1 and 2^20 (Store, Load); plus a tape with 255 distinct registers (must encode) and one with 256 (must return Err(ReservedRegister)) ({hook_cases} tapes).  PART 2 (seeded, seed {seed}): {rounds} random expressions (1..=3 variables, 1..=14 steps, all opcodes, 1..=3 outputs) compiled by VmData::<3>/<4>/<12>::new ({comp_cases} tapes).  For each tape: Bytecode::new; start marker ffffffff 00000000, end marker ffffffff ffffffff, every opcode byte is in iter_ops(); instruction k is tape op k (opcode name, operand positions, immediates bit-identical, Input/Output index, memory slot rebased by N) under one injective renaming of registers; no 0xFF where a register is required; reg_count / mem_count strictly bound every register byte / memory slot; as_bytes() is the little-endian image; the decoded program, executed with the reference opcode meaning, returns bit-identical outputs (NaN=NaN) to VmPointEval on 5 (part 1) / 6 random grid (part 2) input vectors",
        table.len(), g.len());
    r.distinct = r.cases;
    r.exhaustive = false;
    r.notes.push(format!("part 1 is exhaustive for its stated space ({hook_cases} tapes); part 2 is a seeded sample"));
    classes.notes(&mut r);
    r.sample(json!({"tape":"[Input(254,0), Input(0,1), DivImmReg.. / SubRegReg(1,254,0), Store(1, 1048576), Load(254, 1048576), Output(254,0)]","N":255}));
    r
}

pub fn replay(v: &serde_json::Value) -> bool {
    let classes = Classes::default();
    let mut r = Report::new("bytecode");
    let g = grid(true);
    match v["part"].as_str() {
        Some("hook") => {
            let name = v["op"].as_str().unwrap_or("");
            let Some(case) = op_table().into_iter().find(|c| c.name == name) else { return false };
            if v["N"].as_u64() == Some(12) { hook_part::<12>(&case, &g, &mut r, &classes) } else { hook_part::<255>(&case, &g, &mut r, &classes) }
        }
        Some("compiled") => compiled_one(v["seed"].as_u64().unwrap_or(0), v["index"].as_u64().unwrap_or(0) as usize, &grid(false), &mut r, &classes),
        _ => {
            let rep = bytecode(false, 0);
            return !rep.failures.iter().any(|f| f["replay"]["part"] == "reserved");
        }
    }
    for f in &r.failures {
        println!("{f}");
    }
    r.failures.is_empty()
}
