//! Shared pieces of the bounded contract runner: operand grid, bit-exact comparison, the table of
//! opcodes (written once; the reference interpreters below match on every variant without a
//! wildcard, so a new variant is a compile error, not a silent gap) and two reference machines:
//! `ssa_run` (the meaning of an SSA tape) and `reg_run` (the meaning of a register tape), both
//! defined through `UnaryOpcode::eval` / `BinaryOpcode::eval`, the reference meaning the property
//! statement names.
use fidget_core::compiler::{RegOp, SsaOp};
use fidget_core::context::{BinaryOpcode as B, UnaryOpcode as U};

pub fn bits_eq(a: f32, b: f32) -> bool {
    (a.is_nan() && b.is_nan()) || a.to_bits() == b.to_bits()
}

/// special-value grid (17 values)
pub const GRID: [f32; 17] = [
    f32::NAN,
    0.0,
    -0.0,
    f32::INFINITY,
    f32::NEG_INFINITY,
    1.0e-40,
    -1.0e-40,
    1.0,
    -1.0,
    std::f32::consts::PI,
    -std::f32::consts::PI,
    f32::MAX,
    f32::MIN,
    0.5,
    -2.5,
    3.0,
    1.0e20,
];

/// operands at which unary operations change behaviour (rounding ties and their neighbours, the 2^23/2^24 integer thresholds, domain
/// edges of asin/acos/ln/sqrt, large trigonometric arguments): used for the unary opcodes in addition to the operand grid
pub fn boundary_values() -> Vec<f32> {
    let mut v = vec![];
    for &b in &[0.49999997f32, 0.5, 0.50000006, 1.5, 2.5, 3.5, 0.99999994, 1.0000001, 4194303.5, 4194304.5, 8388607.5, 8388608.0, 8388609.0,
                16777215.0, 16777216.0, 2147483648.0, 1.1754942e-38, 1.4e-45, 1.0e5, 1.0e10, 1.5707964, 0.7853982, 88.72284, 88.8, 103.97, 1.0e-4, 7.0] {
        v.push(b);
        v.push(-b);
    }
    v
}

/// larger grid for the thorough tier
pub fn grid(thorough: bool) -> Vec<f32> {
    let mut v = GRID.to_vec();
    if thorough {
        v.extend_from_slice(&[
            2.0, -3.0, 0.25, -0.75, 1.5, 7.0, -7.0, 100.5, -1.0e-20, 1.0e-20, 1.0e38, -1.0e38, f32::MIN_POSITIVE,
            -f32::MIN_POSITIVE, 1.0e10, -1.0e10, 0.1, -0.1, std::f32::consts::FRAC_PI_2, -std::f32::consts::FRAC_PI_2,
            16777216.0, -16777217.0, 1.0000001, 0.99999994,
        ]);
    }
    v
}

#[derive(Copy, Clone, Debug, PartialEq, Eq)]
pub enum Kind {
    Reg,
    RegImm,
    ImmReg,
    RegReg,
}

#[derive(Copy, Clone, Debug)]
pub enum Ref {
    Id,
    Un(U),
    Bin(B),
}

#[derive(Copy, Clone)]
pub struct OpCase {
    pub name: &'static str,
    pub kind: Kind,
    pub reference: Ref,
    pub mk_reg: fn(u8, u8, u8, f32) -> RegOp,
    pub mk_ssa: fn(u32, u32, u32, f32) -> SsaOp,
    pub choice: bool,
}

macro_rules! all_ops {
    ($m:ident) => {
        $m! {
            un: [ (NegReg, Neg), (AbsReg, Abs), (RecipReg, Recip), (SqrtReg, Sqrt), (SquareReg, Square), (FloorReg, Floor),
                  (CeilReg, Ceil), (RoundReg, Round), (SinReg, Sin), (CosReg, Cos), (TanReg, Tan), (AsinReg, Asin),
                  (AcosReg, Acos), (AtanReg, Atan), (ExpReg, Exp), (LnReg, Ln), (NotReg, Not), (RandReg, Rand) ],
            ri: [ (AddRegImm, Add), (MulRegImm, Mul), (DivRegImm, Div), (SubRegImm, Sub), (ModRegImm, Mod), (AtanRegImm, Atan),
                  (CompareRegImm, Compare), (MixRegImm, Mix), (MinRegImm, Min), (MaxRegImm, Max), (AndRegImm, And), (OrRegImm, Or) ],
            ir: [ (DivImmReg, Div), (SubImmReg, Sub), (ModImmReg, Mod), (AtanImmReg, Atan), (CompareImmReg, Compare), (MixImmReg, Mix) ],
            rr: [ (AddRegReg, Add), (MulRegReg, Mul), (DivRegReg, Div), (SubRegReg, Sub), (ModRegReg, Mod), (AtanRegReg, Atan),
                  (CompareRegReg, Compare), (MixRegReg, Mix), (MinRegReg, Min), (MaxRegReg, Max), (AndRegReg, And), (OrRegReg, Or) ],
        }
    };
}

macro_rules! gen_table {
    (un: [$(($un:ident, $uo:ident)),*], ri: [$(($ri:ident, $rio:ident)),*], ir: [$(($ir:ident, $iro:ident)),*], rr: [$(($rr:ident, $rro:ident)),*],) => {
        pub fn op_table() -> Vec<OpCase> {
            let mut v = vec![OpCase { name: "CopyReg", kind: Kind::Reg, reference: Ref::Id, choice: false,
                mk_reg: |o, a, _b, _i| RegOp::CopyReg(o, a), mk_ssa: |o, a, _b, _i| SsaOp::CopyReg(o, a) }];
            $( v.push(OpCase { name: stringify!($un), kind: Kind::Reg, reference: Ref::Un(U::$uo), choice: false,
                mk_reg: |o, a, _b, _i| RegOp::$un(o, a), mk_ssa: |o, a, _b, _i| SsaOp::$un(o, a) }); )*
            $( v.push(OpCase { name: stringify!($ri), kind: Kind::RegImm, reference: Ref::Bin(B::$rio), choice: is_choice(B::$rio),
                mk_reg: |o, a, _b, i| RegOp::$ri(o, a, i), mk_ssa: |o, a, _b, i| SsaOp::$ri(o, a, i) }); )*
            $( v.push(OpCase { name: stringify!($ir), kind: Kind::ImmReg, reference: Ref::Bin(B::$iro), choice: false,
                mk_reg: |o, a, _b, i| RegOp::$ir(o, a, i), mk_ssa: |o, a, _b, i| SsaOp::$ir(o, a, i) }); )*
            $( v.push(OpCase { name: stringify!($rr), kind: Kind::RegReg, reference: Ref::Bin(B::$rro), choice: is_choice(B::$rro),
                mk_reg: |o, a, b, _i| RegOp::$rr(o, a, b), mk_ssa: |o, a, b, _i| SsaOp::$rr(o, a, b) }); )*
            v
        }

        /// reference meaning of one RegOp on a slot file (registers and memory in one index space)
        pub fn reg_step(op: RegOp, slots: &mut [f32], outs: &mut [f32], inp: &[f32]) {
            match op {
                RegOp::Output(r, i) => outs[i as usize] = slots[r as usize],
                RegOp::Input(r, i) => slots[r as usize] = inp[i as usize],
                RegOp::CopyReg(o, a) => slots[o as usize] = slots[a as usize],
                RegOp::CopyImm(o, c) => slots[o as usize] = c,
                RegOp::Load(r, m) => slots[r as usize] = slots[m as usize],
                RegOp::Store(r, m) => slots[m as usize] = slots[r as usize],
                $( RegOp::$un(o, a) => slots[o as usize] = U::$uo.eval(slots[a as usize]), )*
                $( RegOp::$ri(o, a, i) => slots[o as usize] = B::$rio.eval(slots[a as usize], i), )*
                $( RegOp::$ir(o, a, i) => slots[o as usize] = B::$iro.eval(i, slots[a as usize]), )*
                $( RegOp::$rr(o, a, b) => slots[o as usize] = B::$rro.eval(slots[a as usize], slots[b as usize]), )*
            }
        }

        /// reference meaning of one SsaOp on an environment
        pub fn ssa_step(op: SsaOp, env: &mut [f32], outs: &mut [f32], inp: &[f32]) {
            match op {
                SsaOp::Output(r, i) => outs[i as usize] = env[r as usize],
                SsaOp::Input(r, i) => env[r as usize] = inp[i as usize],
                SsaOp::CopyReg(o, a) => env[o as usize] = env[a as usize],
                SsaOp::CopyImm(o, c) => env[o as usize] = c,
                $( SsaOp::$un(o, a) => env[o as usize] = U::$uo.eval(env[a as usize]), )*
                $( SsaOp::$ri(o, a, i) => env[o as usize] = B::$rio.eval(env[a as usize], i), )*
                $( SsaOp::$ir(o, a, i) => env[o as usize] = B::$iro.eval(i, env[a as usize]), )*
                $( SsaOp::$rr(o, a, b) => env[o as usize] = B::$rro.eval(env[a as usize], env[b as usize]), )*
            }
        }

        /// (out, args) of an SsaOp; out is None for Output (whose single arg is the slot it reads)
        pub fn ssa_parts(op: SsaOp) -> (Option<u32>, Vec<u32>) {
            match op {
                SsaOp::Output(r, _) => (None, vec![r]),
                SsaOp::Input(r, _) => (Some(r), vec![]),
                SsaOp::CopyReg(o, a) => (Some(o), vec![a]),
                SsaOp::CopyImm(o, _) => (Some(o), vec![]),
                $( SsaOp::$un(o, a) => (Some(o), vec![a]), )*
                $( SsaOp::$ri(o, a, _) => (Some(o), vec![a]), )*
                $( SsaOp::$ir(o, a, _) => (Some(o), vec![a]), )*
                $( SsaOp::$rr(o, a, b) => (Some(o), vec![a, b]), )*
            }
        }

        /// registers and memory slots mentioned by a RegOp: (registers, memory)
        pub fn reg_parts(op: RegOp) -> (Vec<u8>, Vec<u32>) {
            match op {
                RegOp::Output(r, _) | RegOp::Input(r, _) | RegOp::CopyImm(r, _) => (vec![r], vec![]),
                RegOp::CopyReg(o, a) => (vec![o, a], vec![]),
                RegOp::Load(r, m) | RegOp::Store(r, m) => (vec![r], vec![m]),
                $( RegOp::$un(o, a) => (vec![o, a], vec![]), )*
                $( RegOp::$ri(o, a, _) => (vec![o, a], vec![]), )*
                $( RegOp::$ir(o, a, _) => (vec![o, a], vec![]), )*
                $( RegOp::$rr(o, a, b) => (vec![o, a, b], vec![]), )*
            }
        }
    };
}

pub fn is_choice(b: B) -> bool {
    matches!(b, B::Min | B::Max | B::And | B::Or)
}

all_ops!(gen_table);

/// operand of a decoded op: a slot (register / memory / SSA index) or an immediate
#[derive(Copy, Clone, Debug, PartialEq)]
pub enum Arg {
    Slot(u32),
    Imm(f32),
}

/// opcode-independent view of an op: which reference opcode it applies to which operands, in the
/// operand order of the opcode's `eval(lhs, rhs)`.  Generated from the same table as `reg_step` /
/// `ssa_step` (no wildcard arm).
#[derive(Copy, Clone, Debug, PartialEq)]
pub enum Dec {
    /// (slot read, output index)
    Output(u32, u32),
    /// (slot written, input index)
    Input(u32, u32),
    /// out = arg
    Copy(u32, Arg),
    Un(u32, U, u32),
    Bin(u32, B, Arg, Arg),
    /// register <- memory
    Load(u32, u32),
    /// memory <- register: (register, memory)
    Store(u32, u32),
}

macro_rules! gen_decode {
    (un: [$(($un:ident, $uo:ident)),*], ri: [$(($ri:ident, $rio:ident)),*], ir: [$(($ir:ident, $iro:ident)),*], rr: [$(($rr:ident, $rro:ident)),*],) => {
        pub fn reg_decode(op: RegOp) -> Dec {
            match op {
                RegOp::Output(r, i) => Dec::Output(r as u32, i),
                RegOp::Input(r, i) => Dec::Input(r as u32, i),
                RegOp::CopyReg(o, a) => Dec::Copy(o as u32, Arg::Slot(a as u32)),
                RegOp::CopyImm(o, c) => Dec::Copy(o as u32, Arg::Imm(c)),
                RegOp::Load(r, m) => Dec::Load(r as u32, m),
                RegOp::Store(r, m) => Dec::Store(r as u32, m),
                $( RegOp::$un(o, a) => Dec::Un(o as u32, U::$uo, a as u32), )*
                $( RegOp::$ri(o, a, i) => Dec::Bin(o as u32, B::$rio, Arg::Slot(a as u32), Arg::Imm(i)), )*
                $( RegOp::$ir(o, a, i) => Dec::Bin(o as u32, B::$iro, Arg::Imm(i), Arg::Slot(a as u32)), )*
                $( RegOp::$rr(o, a, b) => Dec::Bin(o as u32, B::$rro, Arg::Slot(a as u32), Arg::Slot(b as u32)), )*
            }
        }
        pub fn ssa_decode(op: SsaOp) -> Dec {
            match op {
                SsaOp::Output(r, i) => Dec::Output(r, i),
                SsaOp::Input(r, i) => Dec::Input(r, i),
                SsaOp::CopyReg(o, a) => Dec::Copy(o, Arg::Slot(a)),
                SsaOp::CopyImm(o, c) => Dec::Copy(o, Arg::Imm(c)),
                $( SsaOp::$un(o, a) => Dec::Un(o, U::$uo, a), )*
                $( SsaOp::$ri(o, a, i) => Dec::Bin(o, B::$rio, Arg::Slot(a), Arg::Imm(i)), )*
                $( SsaOp::$ir(o, a, i) => Dec::Bin(o, B::$iro, Arg::Imm(i), Arg::Slot(a)), )*
                $( SsaOp::$rr(o, a, b) => Dec::Bin(o, B::$rro, Arg::Slot(a), Arg::Slot(b)), )*
            }
        }
    };
}
all_ops!(gen_decode);

pub fn ref_eval(r: Ref, kind: Kind, a: f32, b_or_imm: f32) -> f32 {
    match (r, kind) {
        (Ref::Id, _) => a,
        (Ref::Un(u), _) => u.eval(a),
        (Ref::Bin(b), Kind::ImmReg) => b.eval(b_or_imm, a),
        (Ref::Bin(b), _) => b.eval(a, b_or_imm),
    }
}

/// run an SSA tape (stored root first) in evaluation order
pub fn ssa_run(tape: &[SsaOp], n_slots: usize, n_out: usize, inp: &[f32]) -> Vec<f32> {
    let mut env = vec![f32::from_bits(0x7fc0_dead); n_slots];
    let mut outs = vec![f32::from_bits(0x7fc0_beef); n_out];
    for &op in tape.iter().rev() {
        ssa_step(op, &mut env, &mut outs, inp);
    }
    outs
}

/// run a register tape (stored root first) from a poisoned slot file
pub fn reg_run(tape: &[RegOp], slot_count: usize, n_out: usize, inp: &[f32], poison: f32) -> Vec<f32> {
    let mut slots = vec![poison; slot_count.max(1)];
    let mut outs = vec![f32::from_bits(0x7fc0_beef); n_out];
    for &op in tape.iter().rev() {
        reg_step(op, &mut slots, &mut outs, inp);
    }
    outs
}

/// The spec's `ssa_wf` (liveness form) plus the strict clause: returns Err(reason) if violated.
pub fn ssa_wf(tape: &[SsaOp], n_slots: usize, strict: bool) -> Result<(), String> {
    let mut live = vec![false; n_slots];
    let mut defined_before = vec![false; n_slots]; // a definition seen earlier in list order
    for (j, &op) in tape.iter().enumerate() {
        let (out, args) = ssa_parts(op);
        for &a in &args {
            if a as usize >= n_slots {
                return Err(format!("op {j}: argument slot {a} out of range"));
            }
        }
        if let Some(o) = out {
            if o as usize >= n_slots {
                return Err(format!("op {j}: output slot {o} out of range"));
            }
            if !live[o as usize] {
                return Err(format!("op {j}: defines slot {o} that no later-evaluated op uses (dead definition)"));
            }
            if args.contains(&o) {
                return Err(format!("op {j}: output slot {o} is also an argument"));
            }
            live[o as usize] = false;
            if strict && defined_before[o as usize] {
                return Err(format!("op {j}: slot {o} defined twice"));
            }
        }
        for &a in &args {
            if strict && defined_before[a as usize] {
                return Err(format!("op {j}: uses slot {a} after (in list order) its definition"));
            }
            live[a as usize] = true;
        }
        if let Some(o) = out {
            defined_before[o as usize] = true;
        }
    }
    if let Some(s) = live.iter().position(|&l| l) {
        return Err(format!("slot {s} is read but never written"));
    }
    Ok(())
}

pub fn fmt_f(v: f32) -> String {
    format!("{v:?}/0x{:08x}", v.to_bits())
}

/// tiny deterministic PRNG (xorshift) so runs are reproducible from VERIF_SEED
pub struct Rng(pub u64);
impl Rng {
    pub fn new(seed: u64) -> Self {
        Rng(seed.wrapping_mul(0x9E37_79B9_7F4A_7C15) ^ 0xD1B5_4A32_D192_ED03)
    }
    pub fn next(&mut self) -> u64 {
        let mut x = self.0;
        x ^= x << 13;
        x ^= x >> 7;
        x ^= x << 17;
        self.0 = x;
        x
    }
    pub fn below(&mut self, n: usize) -> usize {
        (self.next() % n as u64) as usize
    }
}

#[derive(Default)]
pub struct Report {
    pub contract: String,
    pub space: String,
    pub cases: u64,
    pub distinct: u64,
    pub exhaustive: bool,
    pub failures: Vec<serde_json::Value>,
    pub samples: Vec<serde_json::Value>,
    pub notes: Vec<String>,
    /// failures recorded per cause class (the `[class]` prefix of `what`; '' when there is none)
    pub class_counts: std::collections::HashMap<String, usize>,
}

impl Report {
    pub fn new(contract: &str) -> Self {
        Report { contract: contract.to_string(), ..Default::default() }
    }
    pub fn fail(&mut self, signature: String, what: String, replay: serde_json::Value) {
        // cap per cause class, so that a recorded known finding cannot crowd out a failure of a different cause
        let class = if what.starts_with('[') { what[1..].split(']').next().unwrap_or("").to_string() } else { String::new() };
        let n = self.class_counts.entry(class.clone()).or_insert(0);
        *n += 1;
        let cap = if class.is_empty() { 25 } else { 4 };
        if *n <= cap && self.failures.len() < 60 {
            self.failures.push(serde_json::json!({"signature": signature, "what": what, "replay": replay}));
        }
    }
    pub fn sample(&mut self, v: serde_json::Value) {
        if self.samples.len() < 4 {
            self.samples.push(v);
        }
    }
    pub fn to_json(&self) -> serde_json::Value {
        serde_json::json!({
            "contract": self.contract, "space": self.space, "cases": self.cases, "distinct": self.distinct,
            "exhaustive": self.exhaustive, "failures": self.failures, "samples": self.samples, "notes": self.notes,
        })
    }
}
