//! verif-bounded: native contract runner (E-bounded of DESIGN.md).
//!
//! Evaluates a function's contract on an enumerated, *stated* finite space and reports counts.
//! Used only for functions outside Verus'/Kani's reach and as counterexample search for failed
//! Verus obligations.  Results are labelled `bounded` and never counted as proved.
//!
//! usage: verif-bounded <contract> [quick|thorough] [seed]       -> JSON report on stdout
//!        verif-bounded replay <json-file>                       -> re-run one recorded failing input
mod common;
mod c_alloc;
mod c_flatten;
mod c_interp;
mod c_misc;

use common::Report;

fn main() {
    let args: Vec<String> = std::env::args().collect();
    if args.len() < 2 {
        eprintln!("usage: verif-bounded <contract> [quick|thorough] [seed]");
        std::process::exit(2);
    }
    let contract = args[1].as_str();
    if contract == "replay" {
        let txt = std::fs::read_to_string(&args[2]).expect("replay file");
        let v: serde_json::Value = serde_json::from_str(&txt).expect("json");
        std::process::exit(replay(&v));
    }
    let thorough = args.get(2).map(|s| s == "thorough").unwrap_or(false);
    let seed: u64 = args.get(3).and_then(|s| s.parse().ok()).unwrap_or(0);
    let rep = run(contract, thorough, seed);
    println!("{}", serde_json::to_string(&rep.to_json()).unwrap());
}

pub fn run(contract: &str, thorough: bool, seed: u64) -> Report {
    match contract {
        "rev_range" => c_misc::rev_range(),
        "interp_point" => c_interp::interp_point(thorough),
        "interp_bulk" => c_interp::interp_bulk(thorough),
        "interp_interval" => c_interp::interp_interval(thorough),
        "flatten" => c_flatten::flatten(thorough, seed),
        "alloc_cex" => c_alloc::alloc_cex(thorough, seed),
        "alloc_small_n" => c_alloc::alloc_small_n(thorough, seed),
        _ => {
            eprintln!("unknown contract {contract}");
            std::process::exit(2);
        }
    }
}

fn replay(v: &serde_json::Value) -> i32 {
    let contract = v["contract"].as_str().unwrap_or("");
    let ok = match contract {
        "alloc_cex" | "alloc_small_n" => c_alloc::replay(v),
        "flatten" => c_flatten::replay(v),
        "interp_point" | "interp_bulk" | "interp_interval" => c_interp::replay(v),
        _ => {
            eprintln!("no replay for contract {contract}");
            return 2;
        }
    };
    if ok { 0 } else { 1 }
}
