//! verif-bounded: native contract runner (E-bounded of DESIGN.md).
//!
//! Evaluates a function's contract on an enumerated, *stated* finite space and reports counts.
//! Used only for functions outside Verus'/Kani's reach and as counterexample search for failed
//! Verus obligations.  Results are labelled `bounded` and never counted as proved.
//!
//! usage: verif-bounded <contract> [quick|thorough] [seed]       -> JSON report on stdout
//!        verif-bounded replay <json-file>                       -> re-run one recorded failing input
mod common;
mod c_alloc;
mod c_flatten;
mod c_interp;
mod c_misc;
mod c_grad;
mod c_view;
mod c_jit;
mod c_trace;
mod c_simplify;
mod c_reuse;
mod c_bytecode;
mod c_total;
mod c_context;
mod c_shape;
mod c_solver;
mod c_render;
mod c_tree;
mod c_raster;
mod c_voxel;
mod c_deriv;
mod helpers;

use common::Report;

fn main() {
    let args: Vec<String> = std::env::args().collect();
    if args.len() < 2 {
        eprintln!("usage: verif-bounded <contract> [quick|thorough] [seed]");
        std::process::exit(2);
    }
    let contract = args[1].as_str();
    if contract == "__total_child" {
        // hidden sub-command: JIT legs of the `total` contract, run in a child so that an abort is observable
        std::process::exit(c_total::child_main(&args));
    }
    if contract == "__guard_child" {
        std::process::exit(c_jit::guard_child(&args));
    }
    if contract == "replay" {
        let txt = std::fs::read_to_string(&args[2]).expect("replay file");
        let v: serde_json::Value = serde_json::from_str(&txt).expect("json");
        std::process::exit(replay(&v));
    }
    let thorough = args.get(2).map(|s| s == "thorough").unwrap_or(false);
    let seed: u64 = args.get(3).and_then(|s| s.parse().ok()).unwrap_or(0);
    if JIT_IN_PROCESS.contains(&contract) && std::env::var("VERIF_BOUNDED_INPROC").is_err() {
        // these contracts call native code in this process; a panic inside one of its `extern "sysv64"`
        // callbacks aborts the process.  Run them in a child so that a report is produced in every case.
        println!("{}", serde_json::to_string(&guarded(contract, &args[2..])).unwrap());
        return;
    }
    let rep = run(contract, thorough, seed);
    println!("{}", serde_json::to_string(&rep.to_json()).unwrap());
}

/// contracts that run JIT evaluators in-process (`total` manages its own children)
const JIT_IN_PROCESS: [&str; 15] = ["render3d", "render2d", "interval_sweep", "solver_linear", "render_handle", "solver_bind", "shape_transform", "jit_point", "jit_bulk", "jit_interval", "jit_interval_valid", "jit_grad", "jit_trace", "simplify_sem", "reuse"];

fn guarded(contract: &str, rest: &[String]) -> serde_json::Value {
    let died = |what: String| {
        let mut r = Report::new(contract);
        r.space = "the contract's process died before it could report; nothing is claimed".into();
        r.fail(format!("{contract}:process-died"), what, serde_json::json!({"contract": contract}));
        r.to_json()
    };
    let exe = match std::env::current_exe() {
        Ok(e) => e,
        Err(e) => return died(format!("current_exe failed: {e}")),
    };
    match std::process::Command::new(exe).arg(contract).args(rest).env("VERIF_BOUNDED_INPROC", "1").output() {
        Err(e) => died(format!("could not start the child process: {e}")),
        Ok(out) => {
            let text = String::from_utf8_lossy(&out.stdout);
            match (out.status.success(), text.lines().last().and_then(|l| serde_json::from_str::<serde_json::Value>(l).ok())) {
                (true, Some(v)) => v,
                _ => {
                    let err = String::from_utf8_lossy(&out.stderr);
                    let tail: Vec<&str> = err.lines().rev().take(12).collect::<Vec<_>>().into_iter().rev().collect();
                    died(format!("child process ended with {:?} (an abort here is most likely a panic inside an extern \"sysv64\" callback of the native evaluators); last stderr lines: {}", out.status, tail.join(" | ")))
                }
            }
        }
    }
}

pub fn run(contract: &str, thorough: bool, seed: u64) -> Report {
    match contract {
        "rev_range" => c_misc::rev_range(),
        "grad_rules" => c_grad::grad_rules(thorough),
        "view" => c_view::view(thorough),
        "interp_point" => c_interp::interp_point(thorough),
        "interp_bulk" => c_interp::interp_bulk(thorough),
        "interp_interval" => c_interp::interp_interval(thorough),
        "interval_sweep" => c_interp::interval_sweep(thorough),
        "tree_clauses" => c_tree::tree_clauses(thorough, seed),
        "render2d" => c_raster::render2d(thorough),
        "render3d" => c_voxel::render3d(thorough),
        "flatten" => c_flatten::flatten(thorough, seed),
        "alloc_cex" => c_alloc::alloc_cex(thorough, seed),
        "alloc_small_n" => c_alloc::alloc_small_n(thorough, seed),
        "jit_point" => c_jit::jit_point(thorough, seed),
        "jit_bulk" => c_jit::jit_bulk(thorough, seed),
        "jit_bulk_guard" => c_jit::jit_bulk_guard(thorough),
        "jit_interval" => c_jit::jit_interval(thorough),
        "jit_interval_valid" => c_jit::jit_interval_valid(thorough),
        "jit_grad" => c_jit::jit_grad(thorough),
        "trace_vm" => c_trace::trace_vm(thorough),
        "jit_trace" => c_trace::jit_trace(thorough),
        "simplify_sem" => c_simplify::simplify_sem(thorough, seed),
        "reuse" => c_reuse::reuse(thorough),
        "bytecode" => c_bytecode::bytecode(thorough, seed),
        "total" => c_total::total(thorough, seed),
        "context_rewrites" => c_context::context_rewrites(thorough),
        "shape_bind" => c_shape::shape_bind(thorough),
        "shape_transform" => c_shape::shape_transform(thorough),
        "solver_bind" => c_solver::solver_bind(thorough),
        "solver_linear" => c_solver::solver_linear(thorough),
        "shape_reuse" => c_shape::shape_reuse(thorough),
        "render_handle" => c_render::render_handle(thorough),
        "deriv_rules" => c_deriv::deriv_rules(thorough),
        _ => {
            eprintln!("unknown contract {contract}");
            std::process::exit(2);
        }
    }
}

fn replay(v: &serde_json::Value) -> i32 {
    let contract = v["contract"].as_str().unwrap_or("");
    let ok = match contract {
        "alloc_cex" | "alloc_small_n" => c_alloc::replay(v),
        "flatten" => c_flatten::replay(v),
        "interp_point" | "interp_bulk" | "interp_interval" => c_interp::replay(v),
        "jit_bulk_guard" => c_jit::guard_replay(v),
        "interval_sweep" => c_interp::sweep_replay(v),
        "tree_clauses" => c_tree::replay(v),
        "render2d" => c_raster::replay(v),
        "render3d" => c_voxel::replay(v),
        "jit_point" | "jit_bulk" | "jit_interval" | "jit_interval_valid" | "jit_grad" => c_jit::replay(v),
        "trace_vm" | "jit_trace" => c_trace::replay(v),
        "simplify_sem" => c_simplify::replay(v),
        "reuse" => c_reuse::replay(v),
        "bytecode" => c_bytecode::replay(v),
        "total" => c_total::replay(v),
        "context_rewrites" => c_context::replay(v),
        "shape_bind" => c_shape::replay(v),
        "shape_transform" => c_shape::replay_transform(v),
        "solver_bind" => c_solver::replay(v),
        "solver_linear" => c_solver::replay_linear(v),
        "shape_reuse" => c_shape::replay_reuse(v),
        "render_handle" => c_render::replay(v),
        "deriv_rules" => c_deriv::replay(v),
        _ => {
            eprintln!("no replay for contract {contract}");
            return 2;
        }
    };
    if ok { 0 } else { 1 }
}
