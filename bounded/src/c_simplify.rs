//! C04 bounded leg / counterexample search for the simplify proof: for random expressions with
//! choices, every trace any tracing evaluator returns can be fed to `simplify` (same and different
//! register budgets), and the simplified function returns bit-identical outputs on the traced domain.
use crate::common::*;
use crate::helpers::*;
use fidget_core::eval::{Function, MathFunction, TracingEvaluator};
use fidget_core::types::Interval;
use fidget_core::vm::{GenericVmFunction, VmFunction, VmTrace};
use fidget_jit::JitFunction;
use serde_json::json;

const CFG: ExprCfg = ExprCfg { max_vars: 3, max_steps: 12, choice_pct: 50, max_out: 3, overflow: false };
const PT_VALS: [f32; 12] = [0.0, -0.0, 1.0, -1.0, 0.5, -2.5, 3.0, f32::NAN, f32::INFINITY, 1.0e20, 0.25, -0.75];
const BOX_VALS: [f32; 11] = [-2.5, -1.0, -0.0, 0.0, 0.25, 0.5, 1.0, 3.0, 1.0e20, f32::NEG_INFINITY, f32::INFINITY];

struct Fx {
    e: Expr,
    vm: VmFunction,
    jit: JitFunction,
    pos: Vec<Option<usize>>,
    n_inputs: usize,
    sig: String,
    rep: serde_json::Value,
}

struct Cx<'a> {
    r: &'a mut Report,
    classes: &'a Classes,
    outside: &'a Classes,
    simplifications: &'a std::sync::atomic::AtomicU64,
}

fn outs_vm<const N: usize>(f: &GenericVmFunction<N>, inp: &[f32]) -> Result<Vec<f32>, String> {
    let tape = f.point_tape(Default::default());
    GenericVmFunction::<N>::new_point_eval().eval(&tape, inp).map(|(o, _)| o.to_vec()).map_err(|e| format!("{e:?}"))
}

fn outs_jit(f: &JitFunction, inps: &[Vec<f32>]) -> Vec<Result<Vec<f32>, String>> {
    let tape = f.point_tape(Default::default());
    let mut ev = JitFunction::new_point_eval();
    inps.iter().map(|inp| ev.eval(&tape, inp).map(|(o, _)| o.to_vec()).map_err(|e| format!("{e:?}"))).collect()
}

fn same_outs(a: &Result<Vec<f32>, String>, b: &Result<Vec<f32>, String>) -> bool {
    match (a, b) {
        (Ok(a), Ok(b)) => a.len() == b.len() && a.iter().zip(b).all(|(x, y)| bits_eq(*x, *y)),
        _ => false,
    }
}

fn fmt_outs(a: &Result<Vec<f32>, String>) -> String {
    match a {
        Ok(v) => format!("{:?}", v.iter().map(|x| fmt_f(*x)).collect::<Vec<_>>()),
        Err(e) => format!("Err({e})"),
    }
}

/// (c): output_count and vars preserved, choice_count == remaining choice ops, result tape well-formed
fn structural<const M: usize, P: Function>(g: &GenericVmFunction<M>, parent: &P) -> Option<String> {
    if g.output_count() != parent.output_count() {
        return Some(format!("output_count {} != parent's {}", g.output_count(), parent.output_count()));
    }
    let mut a: Vec<_> = Function::vars(g).iter().collect();
    let mut b: Vec<_> = parent.vars().iter().collect();
    a.sort();
    b.sort();
    if a != b {
        return Some(format!("vars {a:?} != parent's {b:?}"));
    }
    let ssa = g.data().verif_ssa();
    let n_choice = ssa.tape.iter().filter(|o| o.has_choice()).count();
    if g.choice_count() != n_choice {
        return Some(format!("choice_count {} != {} choice ops in the simplified SSA tape", g.choice_count(), n_choice));
    }
    if ssa.output_count != g.output_count() {
        return Some("ssa.output_count differs from output_count()".into());
    }
    if let Err(why) = ssa_wf(&ssa.tape, ssa.tape.len() + 1, true) {
        return Some(format!("simplified SSA tape is not well-formed: {why}; tape = {:?}", ssa.tape));
    }
    None
}

fn catch<T>(f: impl FnOnce() -> T) -> Result<T, String> {
    std::panic::catch_unwind(std::panic::AssertUnwindSafe(f)).map_err(|p| {
        if let Some(s) = p.downcast_ref::<String>() {
            s.clone()
        } else if let Some(s) = p.downcast_ref::<&str>() {
            s.to_string()
        } else {
            "panic".into()
        }
    })
}

impl Fx {
    /// C04's domain for a differing sample point: a point with a non-finite coordinate is only noted;
    /// a finite point whose original run has a NaN intermediate is its own failure class
    fn value_class(&self, base: &str, inp: &[f32], cross: bool) -> (String, bool) {
        let sc = scan(&self.vm.data().verif_ssa().tape, inp);
        if cross && sc.minmax_zero_tie {
            (format!("{base} with a trace from the other backend at a point where a Min/Max sees opposite-sign zeros (C02 lets the backends differ in that zero's sign)"), false)
        } else if inp.iter().any(|v| !v.is_finite()) {
            (format!("{base} at a point with a non-finite coordinate"), false)
        } else if sc.nan_into_bits {
            (format!("{base} at a point where a NaN reaches Rand/Mix (NaN payload is outside the property's equality)"), false)
        } else if sc.atan2_zero_zero {
            (format!("{base} at a point where an atan2 has two zero arguments (excluded by C03's statement)"), false)
        } else if sc.zero_into_bits {
            (format!("{base}-zero-into-rand-mix"), true)
        } else if sc.has_nan {
            (format!("{base}-nan-intermediate"), true)
        } else {
            (base.to_string(), true)
        }
    }

    fn value_diff(&self, cx: &mut Cx, base: &str, stage: &str, inp: &[f32], what: String, trace: &VmTrace, domain: &serde_json::Value) {
        // the trace comes from the VM for stages "vm-*" and from the JIT for stages "jit-*"
        let cross = (base == "value-jit") != stage.starts_with("jit");
        let (class, hard) = self.value_class(base, inp, cross);
        if hard {
            self.fail(cx, &class, stage, what, trace, domain);
        } else {
            cx.outside.hit(class, &format!("{}:{stage}:domain={domain}: {what}; program: {}", self.sig, self.e.text.join("; ")));
        }
    }

    fn fail(&self, cx: &mut Cx, class: &str, stage: &str, what: String, trace: &VmTrace, domain: &serde_json::Value) {
        let mut rep = self.rep.clone();
        rep["stage"] = json!(stage);
        rep["domain"] = domain.clone();
        let class = if self.sig.starts_with("witness") { format!("{class}(witness)") } else { class.to_string() };
        cx.classes.fail(cx.r, class, format!("{}:{stage}:domain={domain}:trace={:?}", self.sig, trace.as_slice()), format!("{what}; program: {}", self.e.text.join("; ")), rep);
    }

    /// checks one simplified function (budget M) against the ORIGINAL function at the sample inputs
    fn check_result<const M: usize, P: Function>(&self, cx: &mut Cx, stage: &str, res: Result<Result<GenericVmFunction<M>, fidget_core::vm::BadTrace>, String>, parent: &P,
                                                  trace: &VmTrace, domain: &serde_json::Value, inps: &[Vec<f32>], want_vm: &[Result<Vec<f32>, String>]) -> Option<GenericVmFunction<M>> {
        cx.simplifications.fetch_add(1, std::sync::atomic::Ordering::Relaxed);
        let g = match res {
            Err(p) => {
                self.fail(cx, "simplify-panic", stage, format!("simplify::<{M}> panicked: {p}"), trace, domain);
                return None;
            }
            Ok(Err(e)) => {
                self.fail(cx, "simplify-err", stage, format!("simplify::<{M}> returned Err({e:?})"), trace, domain);
                return None;
            }
            Ok(Ok(g)) => g,
        };
        if let Some(why) = structural(&g, parent) {
            self.fail(cx, "structure", stage, format!("budget {M}: {why}"), trace, domain);
        }
        for (inp, want) in inps.iter().zip(want_vm) {
            let got = catch(|| outs_vm(&g, inp)).unwrap_or_else(|p| Err(format!("panic {p}")));
            if !same_outs(&got, want) {
                self.value_diff(cx, "value-vm", stage, inp, format!("budget {M}: at inputs {:?} simplified gives {} but original gives {} (VM point evaluator); simplified ssa = {:?}", inp.iter().map(|v| fmt_f(*v)).collect::<Vec<_>>(), fmt_outs(&got), fmt_outs(want), g.data().verif_ssa().tape), trace, domain);
                break;
            }
        }
        Some(g)
    }

    fn check_jit(&self, cx: &mut Cx, stage: &str, gj: &JitFunction, trace: &VmTrace, domain: &serde_json::Value, inps: &[Vec<f32>], want_jit: &[Result<Vec<f32>, String>]) {
        let got = outs_jit(gj, inps);
        for k in 0..inps.len() {
            if !same_outs(&got[k], &want_jit[k]) {
                self.value_diff(cx, "value-jit", stage, &inps[k], format!("at inputs {:?} simplified gives {} but original gives {} (JIT point evaluator)", inps[k].iter().map(|v| fmt_f(*v)).collect::<Vec<_>>(), fmt_outs(&got[k]), fmt_outs(&want_jit[k])), trace, domain);
                break;
            }
        }
    }

    /// trace obtained from a VM evaluator on `source` (the original or an already simplified VmFunction)
    fn after_trace_vm(&self, cx: &mut Cx, stage: &str, source: &VmFunction, trace: &VmTrace, domain: &serde_json::Value, inps: &[Vec<f32>]) -> Option<VmFunction> {
        let want_vm: Vec<_> = inps.iter().map(|i| outs_vm(&self.vm, i)).collect();
        let r255 = catch(|| Function::simplify(source, trace, Default::default(), &mut Default::default()));
        let g255 = self.check_result::<255, _>(cx, stage, r255, source, trace, domain, inps, &want_vm);
        let r12 = catch(|| source.simplify_with::<JN>(trace, Default::default(), &mut Default::default()));
        if let Some(g12) = self.check_result::<JN, _>(cx, stage, r12, source, trace, domain, inps, &want_vm) {
            let want_jit = outs_jit(&self.jit, inps);
            self.check_jit(cx, stage, &JitFunction::from(g12), trace, domain, inps, &want_jit);
        }
        let r3 = catch(|| source.simplify_with::<3>(trace, Default::default(), &mut Default::default()));
        self.check_result::<3, _>(cx, stage, r3, source, trace, domain, inps, &want_vm);
        g255
    }

    /// trace obtained from a JIT evaluator on `source`
    fn after_trace_jit(&self, cx: &mut Cx, stage: &str, source: &JitFunction, trace: &VmTrace, domain: &serde_json::Value, inps: &[Vec<f32>]) -> Option<JitFunction> {
        let want_vm: Vec<_> = inps.iter().map(|i| outs_vm(&self.vm, i)).collect();
        let want_jit = outs_jit(&self.jit, inps);
        let inner: &GenericVmFunction<JN> = source.into();
        let rj = catch(|| Function::simplify(source, trace, Default::default(), &mut Default::default()));
        cx.simplifications.fetch_add(1, std::sync::atomic::Ordering::Relaxed);
        let gj = match rj {
            Err(p) => {
                self.fail(cx, "simplify-panic", stage, format!("JitFunction::simplify panicked: {p}"), trace, domain);
                None
            }
            Ok(Err(e)) => {
                self.fail(cx, "simplify-err", stage, format!("JitFunction::simplify returned Err({e:?})"), trace, domain);
                None
            }
            Ok(Ok(g)) => Some(g),
        };
        if let Some(gj) = &gj {
            let gi: &GenericVmFunction<JN> = gj.into();
            if let Some(why) = structural(gi, source) {
                self.fail(cx, "structure", stage, format!("budget {JN} (JitFunction::simplify): {why}"), trace, domain);
            }
            self.check_jit(cx, stage, gj, trace, domain, inps, &want_jit);
            for (inp, want) in inps.iter().zip(&want_vm) {
                let got = outs_vm(gi, inp);
                if !same_outs(&got, want) {
                    self.value_diff(cx, "value-vm", stage, inp, format!("budget {JN}: at inputs {:?} simplified gives {} but original gives {} (VM point evaluator on the JIT function's tape)", inp.iter().map(|v| fmt_f(*v)).collect::<Vec<_>>(), fmt_outs(&got), fmt_outs(want)), trace, domain);
                    break;
                }
            }
        }
        let r255 = catch(|| inner.simplify_with::<255>(trace, Default::default(), &mut Default::default()));
        self.check_result::<255, _>(cx, stage, r255, source, trace, domain, inps, &want_vm);
        let r3 = catch(|| inner.simplify_with::<3>(trace, Default::default(), &mut Default::default()));
        self.check_result::<3, _>(cx, stage, r3, source, trace, domain, inps, &want_vm);
        gj
    }
}

fn box_json(b: &[Interval]) -> serde_json::Value {
    json!(b.iter().map(|i| format!("{i:?}")).collect::<Vec<_>>())
}

fn sample_points(rng: &mut Rng, b: &[Interval]) -> Vec<Vec<f32>> {
    let sides: Vec<Vec<f32>> = b.iter().map(|i| points_of(*i, &BOX_VALS)).collect();
    if sides.iter().any(|s| s.is_empty()) {
        return vec![];
    }
    let total: usize = sides.iter().map(|s| s.len()).product();
    let mut pts = vec![];
    if total <= 80 {
        let mut idx = vec![0usize; sides.len()];
        'o: loop {
            pts.push((0..sides.len()).map(|k| sides[k][idx[k]]).collect());
            let mut k = 0;
            loop {
                if k == sides.len() {
                    break 'o;
                }
                idx[k] += 1;
                if idx[k] < sides[k].len() {
                    break;
                }
                idx[k] = 0;
                k += 1;
            }
        }
    } else {
        // all corners, then random picks
        for c in 0..(1usize << sides.len()) {
            pts.push((0..sides.len()).map(|k| if c >> k & 1 == 0 { sides[k][0] } else { sides[k][(sides[k].len() > 1) as usize] }).collect());
        }
        for _ in 0..56 {
            pts.push((0..sides.len()).map(|k| sides[k][rng.below(sides[k].len())]).collect());
        }
    }
    pts
}

fn random_box(rng: &mut Rng, n: usize) -> Vec<Interval> {
    let mut sorted = BOX_VALS.to_vec();
    sorted.sort_by(|a, b| a.partial_cmp(b).unwrap());
    (0..n)
        .map(|_| {
            // mostly finite boxes; an infinite bound now and then
            let m = if rng.below(5) == 0 { sorted.len() } else { sorted.len() - 2 };
            let off = if m == sorted.len() { 0 } else { 1 };
            let (i, j) = (off + rng.below(m), off + rng.below(m));
            let (lo, hi) = (sorted[i.min(j)], sorted[i.max(j)]);
            if rng.below(4) == 0 { Interval::new(lo, lo) } else { Interval::new(lo, hi) }
        })
        .collect()
}

fn sub_box(rng: &mut Rng, b: &[Interval]) -> Vec<Interval> {
    b.iter()
        .map(|i| {
            let (lo, hi) = (i.lower(), i.upper());
            let mid = lo / 2.0 + hi / 2.0;
            match rng.below(4) {
                0 if mid.is_finite() && mid >= lo && mid <= hi => Interval::new(lo, mid),
                1 if mid.is_finite() && mid >= lo && mid <= hi => Interval::new(mid, hi),
                2 => {
                    let p = points_of(*i, &BOX_VALS);
                    let v = p[rng.below(p.len())];
                    Interval::new(v, v)
                }
                _ => *i,
            }
        })
        .collect()
}

fn build(seed: u64, i: usize) -> Option<Fx> {
    let mut rng = Rng::new(seed.wrapping_mul(0x51AB).wrapping_add(i as u64).wrapping_add(0xC04));
    let e = gen_expr(&mut rng, CFG);
    let vm = VmFunction::new(&e.ctx, &e.roots).ok()?;
    let jit = JitFunction::new(&e.ctx, &e.roots).ok()?;
    let pos = var_positions(&vm, e.n_vars);
    let n_inputs = vm.vars().len();
    Some(Fx { sig: format!("seed={seed}:expr#{i}"), rep: json!({"contract":"simplify_sem","seed":seed,"index":i}), e, vm, jit, pos, n_inputs })
}

fn run_one(seed: u64, i: usize, n_points: usize, n_boxes: usize, cx: &mut Cx) {
    let Some(fx) = build(seed, i) else {
        cx.r.fail(format!("seed={seed}:expr#{i}"), "function construction failed".into(), json!({"contract":"simplify_sem","seed":seed,"index":i}));
        return;
    };
    let mut rng = Rng::new(seed.wrapping_mul(0x77F1).wrapping_add(i as u64).wrapping_add(0xD0));
    if var_positions(&fx.jit, fx.e.n_vars) != fx.pos {
        cx.r.fail(fx.sig.clone(), "JIT and VM functions number the variables differently".into(), fx.rep.clone());
        return;
    }
    let vm_pt = fx.vm.point_tape(Default::default());
    let jit_pt = fx.jit.point_tape(Default::default());
    // points
    for _ in 0..n_points {
        cx.r.cases += 1;
        let vals: Vec<f32> = (0..fx.e.n_vars).map(|_| PT_VALS[rng.below(PT_VALS.len())]).collect();
        let inp = place_inputs(&fx.pos, fx.n_inputs, &vals, 0.0);
        let domain = json!({"point": vals.iter().map(|v| v.to_bits()).collect::<Vec<_>>(), "text": format!("{vals:?}")});
        let t = VmFunction::new_point_eval().eval(&vm_pt, &inp).ok().and_then(|(_, t)| t.cloned());
        if let Some(t) = t {
            fx.after_trace_vm(cx, "vm-point", &fx.vm, &t, &domain, &[inp.clone()]);
        }
        let t = JitFunction::new_point_eval().eval(&jit_pt, &inp).ok().and_then(|(_, t)| t.cloned());
        if let Some(t) = t {
            fx.after_trace_jit(cx, "jit-point", &fx.jit, &t, &domain, &[inp.clone()]);
        }
    }
    // boxes, with nested chains
    for _ in 0..n_boxes {
        cx.r.cases += 1;
        let b0 = random_box(&mut rng, fx.e.n_vars);
        run_box(&fx, &b0, &mut rng, cx, 3);
    }
}

fn run_box(fx: &Fx, b0: &[Interval], rng: &mut Rng, cx: &mut Cx, max_depth: usize) {
    // VM chain
    let mut cur: Option<VmFunction> = Some(fx.vm.clone());
    let mut b = b0.to_vec();
    for depth in 0..max_depth {
        let Some(src) = cur.take() else { break };
        let binp = place_inputs(&fx.pos, fx.n_inputs, &b, Interval::from(0.0));
        let tape = src.interval_tape(Default::default());
        let t = catch(|| VmFunction::new_interval_eval().eval(&tape, &binp).ok().and_then(|(_, t)| t.cloned()));
        let t = match t {
            Err(p) => {
                cx.classes.fail(cx.r, "interval-eval-panic".into(), format!("{}:vm-interval:depth={depth}:box={b:?}", fx.sig), format!("VM interval evaluator panicked: {p}; program: {}", fx.e.text.join("; ")), fx.rep.clone());
                break;
            }
            Ok(t) => t,
        };
        let Some(t) = t else { break };
        let pts: Vec<Vec<f32>> = sample_points(rng, &b).into_iter().map(|p| place_inputs(&fx.pos, fx.n_inputs, &p, 0.0)).collect();
        let domain = json!({"box": box_json(&b), "bits": b.iter().map(|i| iv_bits(*i)).collect::<Vec<_>>(), "depth": depth});
        cur = fx.after_trace_vm(cx, &format!("vm-interval/depth{depth}"), &src, &t, &domain, &pts);
        // once inside the box, also a point trace of the simplified function at a sample point
        if let (Some(g), Some(p)) = (&cur, pts.first()) {
            let pt = VmFunction::new_point_eval().eval(&g.point_tape(Default::default()), p).ok().and_then(|(_, t)| t.cloned());
            if let Some(pt) = pt {
                let d2 = json!({"box": box_json(&b), "then_point": p.iter().map(|v| v.to_bits()).collect::<Vec<_>>(), "depth": depth});
                fx.after_trace_vm(cx, &format!("vm-interval/depth{depth}+point"), g, &pt, &d2, &[p.clone()]);
            }
        }
        b = sub_box(rng, &b);
    }
    // JIT chain
    let mut cur: Option<JitFunction> = Some(fx.jit.clone());
    let mut b = b0.to_vec();
    for depth in 0..max_depth {
        let Some(src) = cur.take() else { break };
        let binp = place_inputs(&fx.pos, fx.n_inputs, &b, Interval::from(0.0));
        let tape = src.interval_tape(Default::default());
        let t = JitFunction::new_interval_eval().eval(&tape, &binp).ok().and_then(|(_, t)| t.cloned());
        let Some(t) = t else { break };
        let pts: Vec<Vec<f32>> = sample_points(rng, &b).into_iter().map(|p| place_inputs(&fx.pos, fx.n_inputs, &p, 0.0)).collect();
        let domain = json!({"box": box_json(&b), "bits": b.iter().map(|i| iv_bits(*i)).collect::<Vec<_>>(), "depth": depth});
        cur = fx.after_trace_jit(cx, &format!("jit-interval/depth{depth}"), &src, &t, &domain, &pts);
        b = sub_box(rng, &b);
    }
}

/// fixed expressions that pin down the two defect families the random search found (kept so that the
/// finding does not depend on the seed): (name, expression, box)
fn witnesses() -> Vec<(&'static str, Expr, Vec<Interval>)> {
    use fidget_core::Context;
    let mut v = vec![];
    {
        // min(mix(abs(x), 3.0), 0.5) on x = [-0,-0]: Interval::abs keeps [-0,-0], the point gives +0, and Mix hashes the bits
        let mut ctx = Context::new();
        let x = ctx.var(var_n(0));
        let a = ctx.abs(x).unwrap();
        let m = ctx.mix(a, 3.0).unwrap();
        let r = ctx.min(m, 0.5).unwrap();
        v.push(("W1 min(mix(abs(x),3),0.5) on x=[-0,-0]", Expr { ctx, roots: vec![r], n_vars: 1, text: vec!["t0 = Abs(v0); t1 = Mix(t0, 3.0); t2 = Min(t1, 0.5); outputs = [t2]".into()] }, vec![Interval::new(-0.0, -0.0)]));
    }
    {
        // max(mix(and(x,1),3), 0.5) on x = [-0,-0]: Interval::and_choice returns [+0,+0] for a zero lhs, the point gives -0
        let mut ctx = Context::new();
        let x = ctx.var(var_n(0));
        let a = ctx.and(x, 1.0).unwrap();
        let m = ctx.mix(a, 3.0).unwrap();
        let r = ctx.max(m, 0.5).unwrap();
        v.push(("W2 max(mix(and(x,1),3),0.5) on x=[-0,-0]", Expr { ctx, roots: vec![r], n_vars: 1, text: vec!["t0 = And(v0, 1.0); t1 = Mix(t0, 3.0); t2 = Max(t1, 0.5); outputs = [t2]".into()] }, vec![Interval::new(-0.0, -0.0)]));
    }
    {
        // and(x*exp(y), 2) on x=[0,0], y=[0,1e20]: exp overflows to inf at y=1e20, 0*inf = NaN at the point, the interval product drops the NaN corner
        let mut ctx = Context::new();
        let x = ctx.var(var_n(0));
        let y = ctx.var(var_n(1));
        let e = ctx.exp(y).unwrap();
        let m = ctx.mul(x, e).unwrap();
        let r = ctx.and(m, 2.0).unwrap();
        v.push(("W3 and(x*exp(y),2) on x=[0,0], y=[0,1e20]", Expr { ctx, roots: vec![r], n_vars: 2, text: vec!["t0 = Exp(v1); t1 = Mul(v0, t0); t2 = And(t1, 2.0); outputs = [t2]".into()] }, vec![Interval::new(0.0, 0.0), Interval::new(0.0, 1.0e20)]));
    }
    {
        // W4 (after seeded change C04-m5): the same node feeds two outputs with more outputs in between than the smallest register
        // budget, so re-allocation into 3 registers must spill and restore an output's argument: [f, min(x,y), x-y, x+y, f]
        let mut ctx = Context::new();
        let x = ctx.var(var_n(0));
        let y = ctx.var(var_n(1));
        let xy = ctx.mul(x, y).unwrap();
        let f = ctx.add(xy, 1.0).unwrap();
        let a = ctx.min(x, y).unwrap();
        let b = ctx.sub(x, y).unwrap();
        let c = ctx.add(x, y).unwrap();
        v.push(("W4 [f, min(x,y), x-y, x+y, f], f = x*y+1, on x=[0,1], y=[2,3]", Expr { ctx, roots: vec![f, a, b, c, f], n_vars: 2, text: vec!["t0 = Mul(v0, v1); t1 = Add(t0, 1.0); t2 = Min(v0, v1); t3 = Sub(v0, v1); t4 = Add(v0, v1); outputs = [t1, t2, t3, t4, t1]".into()] }, vec![Interval::new(0.0, 1.0), Interval::new(2.0, 3.0)]));
    }
    {
        // W5: seven outputs, two repeated nodes, choices shared between outputs
        let mut ctx = Context::new();
        let x = ctx.var(var_n(0));
        let y = ctx.var(var_n(1));
        let z = ctx.var(var_n(2));
        let m = ctx.min(x, y).unwrap();
        let g = ctx.add(m, z).unwrap();
        let a = ctx.max(x, z).unwrap();
        let b = ctx.mul(y, z).unwrap();
        let c = ctx.sub(m, a).unwrap();
        let d = ctx.neg(b).unwrap();
        v.push(("W5 [g, a, b, c, d, g, a] with g = min(x,y)+z, a = max(x,z), on x=[0,1], y=[2,3], z=[-2,-1]", Expr { ctx, roots: vec![g, a, b, c, d, g, a], n_vars: 3, text: vec!["t0 = Min(v0, v1); t1 = Add(t0, v2); t2 = Max(v0, v2); t3 = Mul(v1, v2); t4 = Sub(t0, t2); t5 = Neg(t3); outputs = [t1, t2, t3, t4, t5, t1, t2]".into()] }, vec![Interval::new(0.0, 1.0), Interval::new(2.0, 3.0), Interval::new(-2.0, -1.0)]));
    }
    v
}

fn run_witnesses(cx: &mut Cx) {
    for (k, (name, e, b)) in witnesses().into_iter().enumerate() {
        let (Ok(vm), Ok(jit)) = (VmFunction::new(&e.ctx, &e.roots), JitFunction::new(&e.ctx, &e.roots)) else { continue };
        let pos = var_positions(&vm, e.n_vars);
        let n_inputs = vm.vars().len();
        let fx = Fx { sig: format!("witness:{name}"), rep: json!({"contract":"simplify_sem","witness":k}), e, vm, jit, pos, n_inputs };
        let mut rng = Rng::new(k as u64 + 1);
        cx.r.cases += 1;
        run_box(&fx, &b, &mut rng, cx, 1);
    }
}

pub fn simplify_sem(thorough: bool, seed: u64) -> Report {
    let rounds: usize = if thorough { 6000 } else { 600 };
    let (n_points, n_boxes) = if thorough { (8, 8) } else { (6, 6) };
    let idx: Vec<usize> = (0..rounds).collect();
    let classes = Classes::default();
    let outside = Classes::default();
    let simplifications = std::sync::atomic::AtomicU64::new(0);
    let mut r = par_map(&idx, "simplify_sem", |&i, r| {
        let mut cx = Cx { r, classes: &classes, outside: &outside, simplifications: &simplifications };
        run_one(seed, i, n_points, n_boxes, &mut cx);
    });
    {
        let mut cx = Cx { r: &mut r, classes: &classes, outside: &outside, simplifications: &simplifications };
        run_witnesses(&mut cx);
    }
    r.space = format!(
        "{rounds} seeded random expressions built through Context (seed {seed}): 1..=3 variables, 1..=12 steps of which about half are min/max/and/or (operands: earlier values incl. shared subexpressions, or immediates from {{0,-0,1,-1,0.5,2,-2.5,3,1e20,0.25}}, constant on either side) and the rest any of the other 18 unary / 8 binary opcodes, 1..=3 outputs.  For each: {n_points} random points over {{0,-0,+-1,0.5,-2.5,3,NaN,inf,1e20,0.25,-0.75}} with VmPointEval and JitPointEval, and {n_boxes} random boxes (bounds from {{-2.5,-1,-0,0,0.25,0.5,1,3,1e20}}, one in five sides may have an infinite bound, one in four is degenerate) with VmIntervalEval and JitIntervalEval, then chains of up to 3 simplifications over nested sub-boxes (half boxes / degenerate sides), plus a point trace inside the box.  Every returned trace is fed to simplify into budgets 255, {JN} and 3 (Function::simplify and simplify_with): (a) no panic / Err, (b) at the traced point, or at every sample point of the box with finite coordinates (differences at points with an infinite/NaN coordinate are only counted in the notes; likewise finite points where a NaN reaches a Rand/Mix op (NaN payload bits are outside the property's equality) or where an atan2 sees two zeros (C03's exclusion); failure classes: `value-*` (no special circumstance), `*-zero-into-rand-mix` (a zero reaches a Rand/Mix op in the original run), `*-nan-intermediate` (the original run has a NaN intermediate at a finite point)) (all corner/midpoint/interior-grid combinations if <= 80, else the corners + 56 random combinations), the simplified function's outputs are bit-identical (NaN=NaN) to the ORIGINAL function's under the VM point evaluator (all budgets) and, for the budget-{JN} result, under the JIT point evaluator, (c) output_count and vars preserved, choice_count == number of choice ops in the simplified SSA tape, simplified SSA tape well-formed (strict); {} simplify calls checked.  Plus 5 fixed witness expressions (box traces only): W1-W3 pin the defect families found by the search, W4-W5 are functions with 5 and 7 outputs in which the same node feeds two outputs (more outputs in between than the smallest budget has registers)",
        simplifications.load(std::sync::atomic::Ordering::Relaxed));
    r.distinct = r.cases;
    r.exhaustive = false;
    classes.notes(&mut r);
    // the seed-independent witnesses first
    r.failures.sort_by_key(|f| !f["signature"].as_str().unwrap_or("").contains("witness"));
    for (k, (n, first)) in outside.0.lock().unwrap().iter() {
        r.notes.push(format!("difference OUTSIDE the stated domain [{k}]: {n} cases; first: {first}"));
    }
    r.sample(json!({"program":"t0 = Min(v0, v1); t1 = And(t0, 1.0); t2 = Add(t1, t0); outputs = [t2, t0]","box":"[(-2.5, 0.5), (1.0, 3.0)]"}));
    r
}

pub fn replay(v: &serde_json::Value) -> bool {
    if v["witness"].is_u64() {
        let classes = Classes::default();
        let outside = Classes::default();
        let n = std::sync::atomic::AtomicU64::new(0);
        let mut r = Report::new("simplify_sem");
        let mut cx = Cx { r: &mut r, classes: &classes, outside: &outside, simplifications: &n };
        run_witnesses(&mut cx);
        let k = v["witness"].as_u64();
        let mine: Vec<_> = r.failures.iter().filter(|f| f["replay"]["witness"].as_u64() == k).collect();
        for f in &mine {
            println!("{f}");
        }
        return mine.is_empty();
    }
    let seed = v["seed"].as_u64().unwrap_or(0);
    let i = v["index"].as_u64().unwrap_or(0) as usize;
    let Some(fx) = build(seed, i) else { return false };
    println!("program: {}", fx.e.text.join("; "));
    println!("ssa tape (root first): {:?}", fx.vm.data().verif_ssa().tape);
    // deterministic in (seed, index): re-run this expression with the thorough budget of points and boxes
    let classes = Classes::default();
    let outside = Classes::default();
    let n = std::sync::atomic::AtomicU64::new(0);
    let mut r = Report::new("simplify_sem");
    let mut cx = Cx { r: &mut r, classes: &classes, outside: &outside, simplifications: &n };
    run_one(seed, i, 8, 8, &mut cx);
    let mut r2 = Report::new("simplify_sem");
    let mut cx2 = Cx { r: &mut r2, classes: &classes, outside: &outside, simplifications: &n };
    run_one(seed, i, 6, 6, &mut cx2);
    for f in r.failures.iter().chain(r2.failures.iter()) {
        println!("{f}");
    }
    r.failures.is_empty() && r2.failures.is_empty()
}
