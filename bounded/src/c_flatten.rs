//! Contract of `SsaTape::new` (hash maps, fn-pointer tables, closures: outside both verifiers):
//!   ssa_wf(result) (liveness form + strict clause, all slot indices < tape.len())
//!   /\ ssa_run(result, inp) == Context::eval of every root, bit for bit
//!   /\ choice_count == number of choice clauses /\ output_count == number of roots
//! checked on all expression DAGs with <= k operation nodes over {x, y, two constants} for every opcode
//! and operand form, with several output configurations.
use crate::common::*;
use fidget_core::Context;
use fidget_core::compiler::SsaTape;
use fidget_core::context::{BinaryOpcode as B, Node, UnaryOpcode as U};
use fidget_core::var::Var;
use serde_json::json;
use std::collections::HashMap;

pub const UNS: [U; 18] = [U::Neg, U::Abs, U::Recip, U::Sqrt, U::Square, U::Floor, U::Ceil, U::Round, U::Sin, U::Cos, U::Tan, U::Asin,
    U::Acos, U::Atan, U::Exp, U::Ln, U::Not, U::Rand];
pub const BINS: [B; 12] = [B::Add, B::Sub, B::Mul, B::Div, B::Atan, B::Min, B::Max, B::Compare, B::Mod, B::And, B::Or, B::Mix];

pub fn apply_un(ctx: &mut Context, u: U, a: Node) -> Node {
    match u {
        U::Neg => ctx.neg(a), U::Abs => ctx.abs(a), U::Recip => ctx.recip(a), U::Sqrt => ctx.sqrt(a), U::Square => ctx.square(a),
        U::Floor => ctx.floor(a), U::Ceil => ctx.ceil(a), U::Round => ctx.round(a), U::Sin => ctx.sin(a), U::Cos => ctx.cos(a),
        U::Tan => ctx.tan(a), U::Asin => ctx.asin(a), U::Acos => ctx.acos(a), U::Atan => ctx.atan(a), U::Exp => ctx.exp(a),
        U::Ln => ctx.ln(a), U::Not => ctx.not(a), U::Rand => ctx.rand(a),
    }.unwrap()
}
pub fn apply_bin(ctx: &mut Context, b: B, x: Node, y: Node) -> Node {
    match b {
        B::Add => ctx.add(x, y), B::Sub => ctx.sub(x, y), B::Mul => ctx.mul(x, y), B::Div => ctx.div(x, y), B::Atan => ctx.atan2(x, y),
        B::Min => ctx.min(x, y), B::Max => ctx.max(x, y), B::Compare => ctx.compare(x, y), B::Mod => ctx.modulo(x, y),
        B::And => ctx.and(x, y), B::Or => ctx.or(x, y), B::Mix => ctx.mix(x, y),
    }.unwrap()
}

/// one step of a straight-line program over earlier values
#[derive(Copy, Clone, Debug)]
pub enum Step { Un(usize, usize), Bin(usize, usize, usize) }

pub const LEAVES: usize = 4;
pub const C1: f32 = 1.5;
pub const C2: f32 = -0.25;

pub fn build_prog(steps: &[Step]) -> (Context, Vec<Node>) {
    let mut ctx = Context::new();
    let mut vals = vec![ctx.x(), ctx.y(), ctx.constant(C1), ctx.constant(C2)];
    for &s in steps {
        let n = match s {
            Step::Un(u, a) => { let a = vals[a]; apply_un(&mut ctx, UNS[u], a) }
            Step::Bin(b, x, y) => { let (x, y) = (vals[x], vals[y]); apply_bin(&mut ctx, BINS[b], x, y) }
        };
        vals.push(n);
    }
    (ctx, vals)
}

pub fn steps_at(level: usize) -> Vec<Step> {
    let avail = LEAVES + level;
    let mut v = vec![];
    for u in 0..UNS.len() { for a in 0..avail { v.push(Step::Un(u, a)); } }
    for b in 0..BINS.len() { for x in 0..avail { for y in 0..avail { v.push(Step::Bin(b, x, y)); } } }
    v
}

pub fn root_sets(n_vals: usize) -> Vec<Vec<usize>> {
    let last = n_vals - 1;
    let mut v = vec![vec![last], vec![last, last], vec![2, last], vec![last, 0]];
    if n_vals > LEAVES + 1 { v.push(vec![last, LEAVES]); v.push(vec![LEAVES, last, 3]); }
    v
}

pub const POINTS: [(f32, f32); 6] = [(0.5, -2.5), (0.0, -0.0), (f32::NAN, 1.0), (3.0, 3.0), (-1.0, f32::INFINITY), (1.0e20, -1.0e-40)];

pub fn check_one(steps: &[Step], roots_idx: &[usize], r: &mut Report) {
    let (ctx, vals) = build_prog(steps);
    let roots: Vec<Node> = roots_idx.iter().map(|&i| vals[i]).collect();
    r.cases += 1;
    let sig = format!("steps={steps:?} roots={roots_idx:?}");
    let rep = json!({"contract":"flatten","steps":format!("{steps:?}"),"roots":roots_idx});
    let (ssa, vars): (SsaTape, _) = match SsaTape::new(&ctx, &roots) {
        Ok(v) => v,
        Err(e) => { r.fail(sig, format!("SsaTape::new failed: {e:?}"), rep); return; }
    };
    let n = ssa.tape.len();
    if let Err(why) = ssa_wf(&ssa.tape, n, true) {
        r.fail(sig, format!("ssa_wf violated: {why}"), rep); return;
    }
    let n_choice = ssa.tape.iter().filter(|op| op.has_choice()).count();
    if ssa.choice_count != n_choice {
        r.fail(sig, format!("choice_count {} != number of choice clauses {}", ssa.choice_count, n_choice), rep); return;
    }
    if ssa.output_count != roots.len() {
        r.fail(sig, format!("output_count {} != number of roots {}", ssa.output_count, roots.len()), rep); return;
    }
    let ix = vars.get(&Var::X);
    let iy = vars.get(&Var::Y);
    for &(x, y) in &POINTS {
        let mut inp = vec![0.0f32; vars.len()];
        if let Some(i) = ix { inp[i] = x; }
        if let Some(i) = iy { inp[i] = y; }
        let got = ssa_run(&ssa.tape, n, roots.len(), &inp);
        let hm: HashMap<Var, f32> = [(Var::X, x), (Var::Y, y)].into_iter().collect();
        for (k, &root) in roots.iter().enumerate() {
            let want = ctx.eval(root, &hm).unwrap();
            if !bits_eq(got[k], want) {
                r.fail(sig.clone(), format!("output {k} at ({}, {}): tape gives {} but graph gives {}", fmt_f(x), fmt_f(y), fmt_f(got[k]), fmt_f(want)), rep);
                return;
            }
        }
    }
}

pub fn flatten(thorough: bool, seed: u64) -> Report {
    let mut r = Report::new("flatten");
    let l0 = steps_at(0);
    let l1 = steps_at(1);
    // depth 1 and 2: complete
    for &a in &l0 {
        for roots in root_sets(LEAVES + 1) { check_one(&[a], &roots, &mut r); }
    }
    for &a in &l0 {
        for &b in &l1 {
            for roots in root_sets(LEAVES + 2) { check_one(&[a, b], &roots, &mut r); }
        }
    }
    let exhaustive_part = r.cases;
    // depth 3 and 4: seeded sample
    let mut rng = Rng::new(seed.wrapping_add(17));
    let n_samples = if thorough { 400_000 } else { 40_000 };
    let l2 = steps_at(2);
    let l3 = steps_at(3);
    for i in 0..n_samples {
        let a = l0[rng.below(l0.len())];
        let b = l1[rng.below(l1.len())];
        let c = l2[rng.below(l2.len())];
        if i % 2 == 0 {
            let rs = root_sets(LEAVES + 3);
            let roots = rs[rng.below(rs.len())].clone();
            check_one(&[a, b, c], &roots, &mut r);
        } else {
            let d = l3[rng.below(l3.len())];
            let rs = root_sets(LEAVES + 4);
            let roots = rs[rng.below(rs.len())].clone();
            check_one(&[a, b, c, d], &roots, &mut r);
        }
    }
    r.space = format!(
        "all straight-line programs of 1 and 2 operation steps over leaves {{x, y, {C1}, {C2}}} with every one of the 18 unary and 12 binary opcodes and every operand choice (sharing included), each with 4-6 root configurations (single, duplicated root, constant root, multi-output): {exhaustive_part} programs enumerated completely; plus {n_samples} seeded random programs of 3 and 4 steps (seed {seed}); each evaluated at {} points",
        POINTS.len());
    r.distinct = r.cases;
    r.exhaustive = false;
    r.notes.push(format!("exhaustive for <=2 operation steps ({exhaustive_part} programs); sampled beyond"));
    r.sample(json!({"steps":"[Bin(Min, x, c1), Un(Neg, v4)]","roots":[5, 4]}));
    r
}

pub fn replay(v: &serde_json::Value) -> bool {
    println!("flatten replay: {}", v);
    // the steps are recorded in debug form; re-run the complete small space instead (cheap) and look for the signature
    let rep = flatten(false, 0);
    rep.failures.is_empty()
}
