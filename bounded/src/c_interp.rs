//! Contract of the VM interpreter loops, per RegOp variant (bounded stand-in: Kani runs out of memory
//! on the interpreter, DESIGN.md section 1):
//!
//!   running the loop on a tape `[inputs.., op, Output]` yields, bit for bit (NaN = NaN),
//!   `UnaryOpcode::eval` / `BinaryOpcode::eval` of the operands in the variant's operand order,
//!   whatever registers / memory slots the operands sit in.
//!
//! For the interval evaluator the contract is enclosure: every point of the operand boxes evaluates
//! (by the reference meaning) into the returned interval, unless that is the NaN interval or the
//! point result is NaN.
use crate::common::*;
use fidget_core::compiler::{RegOp, RegTape, SsaTape};
use fidget_core::eval::{BulkEvaluator, Function, TracingEvaluator};
use fidget_core::types::{FloatExt, Interval};
use fidget_core::var::{Var, VarMap};
use fidget_core::vm::{Choice, VmData, VmFunction};
use serde_json::json;

const N: usize = 255;

#[derive(Copy, Clone, Debug)]
pub enum Place {
    /// operands and result directly in registers (out, a, b)
    Direct(u8, u8, u8),
    /// operands come from memory slots via Load, result goes through Store/Load
    Spilled(u8, u8, u8),
}

pub fn placements(thorough: bool) -> Vec<Place> {
    let mut v = vec![
        Place::Direct(0, 1, 2),
        Place::Direct(0, 0, 1),
        Place::Direct(1, 0, 1),
        Place::Direct(0, 0, 0),
        Place::Direct(254, 253, 252),
        Place::Spilled(3, 1, 2),
        Place::Spilled(0, 0, 1),
    ];
    if thorough {
        v.extend([Place::Direct(2, 254, 0), Place::Direct(7, 7, 9), Place::Spilled(254, 253, 254), Place::Spilled(1, 1, 1)]);
    }
    v
}

/// returns (data, uses_two_inputs)
pub fn build(case: &OpCase, place: Place, imm: f32) -> (VmData<N>, bool) {
    let two = case.kind == Kind::RegReg;
    let mut ev: Vec<RegOp> = vec![]; // evaluation order
    let slot_count;
    let two_inputs;
    match place {
        Place::Direct(o, a, b) => {
            two_inputs = two && a != b;
            ev.push(RegOp::Input(a, 0));
            if two_inputs {
                ev.push(RegOp::Input(b, 1));
            }
            ev.push((case.mk_reg)(o, a, if two { b } else { 0 }, imm));
            ev.push(RegOp::Output(o, 0));
            slot_count = 255;
        }
        Place::Spilled(o, a, b) => {
            two_inputs = two && a != b;
            let m0 = N as u32;
            ev.push(RegOp::Input(0, 0));
            ev.push(RegOp::Store(0, m0));
            if two_inputs {
                ev.push(RegOp::Input(0, 1));
                ev.push(RegOp::Store(0, m0 + 1));
            }
            ev.push(RegOp::Load(a, m0));
            if two_inputs {
                ev.push(RegOp::Load(b, m0 + 1));
            }
            ev.push((case.mk_reg)(o, a, if two { b } else { 0 }, imm));
            ev.push(RegOp::Store(o, m0 + 2));
            ev.push(RegOp::Load(5, m0 + 2));
            ev.push(RegOp::Output(5, 0));
            slot_count = 258;
        }
    }
    ev.reverse();
    let asm = RegTape::verif_from_ops(ev, slot_count);
    let ssa = SsaTape { tape: vec![], choice_count: if case.choice { 1 } else { 0 }, output_count: 1 };
    let mut vars = VarMap::new();
    vars.insert(Var::X);
    if two_inputs {
        vars.insert(Var::Y);
    }
    (VmData::<N>::verif_from_parts(ssa, asm, vars), two_inputs)
}

fn expected_choice(case: &OpCase, a: f32, b: f32) -> Option<Choice> {
    if !case.choice {
        return None;
    }
    let c = match case.reference {
        Ref::Bin(fidget_core::context::BinaryOpcode::Min) => a.min_choice(b).1,
        Ref::Bin(fidget_core::context::BinaryOpcode::Max) => a.max_choice(b).1,
        Ref::Bin(fidget_core::context::BinaryOpcode::And) => a.and_choice(b).1,
        Ref::Bin(fidget_core::context::BinaryOpcode::Or) => a.or_choice(b).1,
        _ => unreachable!(),
    };
    Some(c)
}

fn operands(case: &OpCase, two_inputs: bool, x: f32, y: f32, imm: f32) -> (f32, f32) {
    match case.kind {
        Kind::Reg => (x, 0.0),
        Kind::RegImm | Kind::ImmReg => (x, imm),
        Kind::RegReg => (x, if two_inputs { y } else { x }),
    }
}

pub fn interp_point(thorough: bool) -> Report {
    let mut r = Report::new("interp_point");
    let g = grid(thorough);
    r.space = format!(
        "every RegOp variant except Load/Store/Input/Output/CopyImm as the op under test ({} variants; those five are exercised by every tape) x {} placements (direct registers incl. aliasing out==arg, and operands/result routed through memory slots with Load/Store) x operand grid of {} special values per operand (NaN, +-0, +-inf, denormals, +-1, +-pi, +-MAX, ...) x VmPointEval::eval; oracle = UnaryOpcode::eval / BinaryOpcode::eval, bitwise (NaN=NaN); for choice ops also the reported trace entry vs f32::*_choice",
        op_table().len(), placements(thorough).len(), g.len());
    let mut eval = VmFunction::new_point_eval();
    for case in op_table() {
        for place in placements(thorough) {
            let imms: Vec<f32> = if matches!(case.kind, Kind::RegImm | Kind::ImmReg) { g.clone() } else { vec![0.0] };
            for &imm in &imms {
                let (data, two_inputs) = build(&case, place, imm);
                let f = VmFunction::from(data);
                let tape = f.point_tape(Default::default());
                let ys: Vec<f32> = if two_inputs { g.clone() } else { vec![0.0] };
                let mut xs = g.clone();
                if case.kind == Kind::Reg {
                    xs.extend(boundary_values());
                }
                for &x in &xs {
                    for &y in &ys {
                        r.cases += 1;
                        let (a, b) = operands(&case, two_inputs, x, y, imm);
                        let want = ref_eval(case.reference, case.kind, a, b);
                        let res = eval.eval(&tape, &[x, y]);
                        let (out, trace) = match res {
                            Ok(v) => v,
                            Err(e) => {
                                r.fail(format!("{}:{place:?}", case.name), format!("eval error {e:?}"), json!({"contract":"interp_point","op":case.name}));
                                continue;
                            }
                        };
                        let mut bad = None;
                        if out.len() != 1 || !bits_eq(out[0], want) {
                            bad = Some(format!("value {} != reference {}", out.first().map(|v| fmt_f(*v)).unwrap_or_default(), fmt_f(want)));
                        } else if let Some(c) = expected_choice(&case, a, b) {
                            // ImmReg forms never have a choice; for reg/imm and reg/reg the clause is (lhs=a, rhs=b)
                            match trace {
                                None => {
                                    if c != Choice::Both {
                                        bad = Some(format!("no trace reported but clause choice is {c:?}"));
                                    }
                                }
                                Some(t) => {
                                    let t = t.as_slice();
                                    if t.len() != 1 || t[0] != c {
                                        bad = Some(format!("trace {t:?} != expected [{c:?}]"));
                                    } else if c == Choice::Both {
                                        bad = Some("trace reported although every clause is Both".into());
                                    }
                                }
                            }
                        } else if trace.is_some() {
                            bad = Some("trace reported for a tape without choice clauses".into());
                        }
                        if let Some(what) = bad {
                            r.fail(format!("{}:{place:?}:x={},y={},imm={}", case.name, fmt_f(x), fmt_f(y), fmt_f(imm)), what,
                                   json!({"contract":"interp_point","op":case.name,"place":format!("{place:?}"),"x":x.to_bits(),"y":y.to_bits(),"imm":imm.to_bits()}));
                        }
                    }
                }
            }
        }
    }
    r.distinct = r.cases;
    r.exhaustive = true;
    r.sample(json!({"op":"SubImmReg","place":"Spilled(3,1,2)","x":"1.0","imm":"-2.5","expected":"BinaryOpcode::Sub.eval(-2.5, 1.0)"}));
    r
}

pub fn interp_bulk(thorough: bool) -> Report {
    let mut r = Report::new("interp_bulk");
    let g = grid(thorough);
    let max_len = if thorough { 19 } else { 5 };
    r.space = format!(
        "every RegOp variant ({}) x {} placements x slice lengths 0..={} x rotating windows of the {}-value operand grid (every ordered operand pair appears at some lane) x VmFloatSliceEval::eval; plus 6 multi-output root lists (a node on several outputs, a root that is an operand of another root listed before / after it, constant roots, more outputs than registers) x budgets 3 and 255 x 4 slice lengths with one reused evaluator against Context::eval; oracle = reference opcode meaning per lane, bitwise; also out.len()==1 and exactly n samples",
        op_table().len(), placements(thorough).len(), max_len, g.len());
    let mut eval = VmFunction::new_float_slice_eval();
    // all ordered pairs, flattened, so that windows cover every pair
    let mut px = vec![];
    let mut py = vec![];
    for &x in &g {
        for &y in &g {
            px.push(x);
            py.push(y);
        }
    }
    for b in boundary_values() {
        px.push(b);
        py.push(b);
    }
    for case in op_table() {
        for place in placements(thorough) {
            let imms: Vec<f32> = if matches!(case.kind, Kind::RegImm | Kind::ImmReg) { g.clone() } else { vec![0.0] };
            for &imm in &imms {
                let (data, two_inputs) = build(&case, place, imm);
                let f = VmFunction::from(data);
                let tape = f.float_slice_tape(Default::default());
                for len in 0..=max_len {
                    let mut start = 0;
                    loop {
                        let end = (start + len).min(px.len());
                        let xs = &px[start..end];
                        let ys = &py[start..end];
                        let xs_v = xs.to_vec();
                        let ys_v = ys.to_vec();
                        r.cases += 1;
                        let res = eval.eval(&tape, &[xs_v.as_slice(), ys_v.as_slice()]);
                        match res {
                            Err(e) => r.fail(format!("{}:{place:?}:len={len}", case.name), format!("eval error {e:?}"), json!({"contract":"interp_bulk","op":case.name})),
                            Ok(out) => {
                                if out.len() != 1 || out[0].len() != xs.len() {
                                    r.fail(format!("{}:{place:?}:len={len}", case.name), format!("shape: {} outputs, {} samples for n={}", out.len(), if out.len() > 0 { out[0].len() } else { 0 }, xs.len()),
                                           json!({"contract":"interp_bulk","op":case.name,"len":len}));
                                } else {
                                    for k in 0..xs.len() {
                                        let (a, b) = operands(&case, two_inputs, xs[k], ys[k], imm);
                                        let want = ref_eval(case.reference, case.kind, a, b);
                                        if !bits_eq(out[0][k], want) {
                                            r.fail(format!("{}:{place:?}:len={len}:lane={k}:x={},y={},imm={}", case.name, fmt_f(xs[k]), fmt_f(ys[k]), fmt_f(imm)),
                                                   format!("lane value {} != reference {}", fmt_f(out[0][k]), fmt_f(want)),
                                                   json!({"contract":"interp_bulk","op":case.name,"place":format!("{place:?}"),"x":xs[k].to_bits(),"y":ys[k].to_bits(),"imm":imm.to_bits(),"len":len,"lane":k}));
                                            break;
                                        }
                                    }
                                }
                            }
                        }
                        if len == 0 || end >= px.len() {
                            break;
                        }
                        start += len;
                    }
                }
            }
        }
    }
    multi_output_bulk(&mut r);
    r.distinct = r.cases;
    r.exhaustive = true;
    r.sample(json!({"op":"MinRegReg","place":"Direct(0,0,1)","len":3,"xs":"[NaN,NaN,NaN]","ys":"[NaN,0.0,-0.0]"}));
    r
}

/// "for any number of outputs": root lists with a node bound to several outputs, a root that is an operand of another root (listed before
/// and after it), a constant root, more outputs than registers; every output lane of the float-slice interpreter against Context::eval,
/// register budgets 3 (spills) and 255, one evaluator object per budget reused across all functions
fn multi_output_bulk(r: &mut Report) {
    use fidget_core::context::{Context, Node};
    use fidget_core::eval::MathFunction;
    use fidget_core::vm::GenericVmFunction;
    let mut c = Context::new();
    let (x, y) = (c.x(), c.y());
    let a = c.sub(x, y).unwrap();
    let s = c.sin(a).unwrap();
    let m = c.mul(x, y).unwrap();
    let d = c.div(s, m).unwrap();
    let k = c.constant(1.5);
    let mn = c.min(x, y).unwrap();
    let sq = c.square(x).unwrap();
    let lists: Vec<(&str, Vec<Node>)> = vec![
        ("[a, a]", vec![a, a]),
        ("[m, a, d, m]", vec![m, a, d, m]),
        ("[sin(a)/m, a]", vec![d, a]),
        ("[a, sin(a)/m]", vec![a, d]),
        ("[1.5, a, 1.5]", vec![k, a, k]),
        ("[a, s, m, d, mn, sq, x, a, s]", vec![a, s, m, d, mn, sq, x, a, s]),
    ];
    let xs: Vec<f32> = vec![0.5, -2.5, 3.0, 0.0, -0.0, 1.0e20, f32::NAN, 0.25, f32::INFINITY, -1.0, 7.5];
    let ys: Vec<f32> = vec![1.5, 0.5, -3.0, 2.0, 0.0, 1.0e-20, 1.0, f32::NAN, 2.0, -1.0, 0.125];
    fn run<F: MathFunction + Function>(r: &mut Report, budget: &str, c: &Context, lists: &[(&str, Vec<Node>)], xs: &[f32], ys: &[f32]) {
        let mut eval = F::new_float_slice_eval();
        for (name, roots) in lists {
            let f = F::new(c, roots).expect("function");
            let tape = f.float_slice_tape(Default::default());
            for len in [xs.len(), 3, 0, 1] {
                r.cases += 1;
                let (xv, yv) = (xs[..len].to_vec(), ys[..len].to_vec());
                let sig = format!("multi-output:{budget}:{name}:len={len}");
                // arguments are bound through the function's variable map (first-encounter order), not positionally
                let vm = f.vars();
                let zero = vec![0.0f32; len];
                let mut args: Vec<&[f32]> = vec![zero.as_slice(); vm.len()];
                if let Some(i) = vm.get(&Var::X) { args[i] = xv.as_slice(); }
                if let Some(i) = vm.get(&Var::Y) { args[i] = yv.as_slice(); }
                match eval.eval(&tape, &args) {
                    Err(e) => r.fail(sig, format!("eval error {e:?}"), json!({"contract":"interp_bulk"})),
                    Ok(out) => {
                        if out.len() != roots.len() {
                            r.fail(sig, format!("[multi-output-shape] {} output rows for {} roots", out.len(), roots.len()), json!({"contract":"interp_bulk"}));
                            continue;
                        }
                        'o: for (oi, root) in roots.iter().enumerate() {
                            if out[oi].len() != len {
                                r.fail(sig.clone(), format!("[multi-output-shape] output {oi} has {} samples for {len}", out[oi].len()), json!({"contract":"interp_bulk"}));
                                break;
                            }
                            for q in 0..len {
                                let want = c.eval_xyz(*root, xv[q], yv[q], 0.0).unwrap();
                                if !bits_eq(out[oi][q], want) {
                                    r.fail(format!("{sig}:output={oi}:lane={q}"), format!("[multi-output-value] output {oi} lane {q} = {} but the graph evaluates to {}", fmt_f(out[oi][q]), fmt_f(want)), json!({"contract":"interp_bulk"}));
                                    break 'o;
                                }
                            }
                        }
                    }
                }
            }
        }
    }
    run::<GenericVmFunction<3>>(r, "N=3", &c, &lists, &xs, &ys);
    run::<VmFunction>(r, "N=255", &c, &lists, &xs, &ys);
}

fn ulp_slack(v: f32) -> f32 {
    // "up to a few ulps": 4 ulps of the magnitude, at least 4 denormal steps
    let m = v.abs().max(f32::MIN_POSITIVE);
    (m * f32::EPSILON * 4.0).max(1.0e-44)
}

fn encloses(i: Interval, v: f32) -> bool {
    if i.has_nan() || v.is_nan() {
        return true;
    }
    let lo = i.lower();
    let hi = i.upper();
    // slack only on finite bounds (inf - inf would be NaN)
    let sl = if lo.is_finite() { ulp_slack(lo) } else { 0.0 };
    let sh = if hi.is_finite() { ulp_slack(hi) } else { 0.0 };
    v >= lo - sl && v <= hi + sh
}

fn interval_grid(vals: &[f32]) -> Vec<Interval> {
    let mut out = vec![Interval::from(f32::NAN)];
    let mut fin: Vec<f32> = vals.iter().cloned().filter(|v| !v.is_nan()).collect();
    fin.sort_by(|a, b| a.partial_cmp(b).unwrap());
    for i in 0..fin.len() {
        for j in i..fin.len() {
            if fin[i] <= fin[j] {
                out.push(Interval::new(fin[i], fin[j]));
            }
        }
    }
    out
}

fn points_of(i: Interval, vals: &[f32]) -> Vec<f32> {
    if i.has_nan() {
        return vec![];
    }
    let (lo, hi) = (i.lower(), i.upper());
    let mut p = vec![lo, hi];
    let mid = lo / 2.0 + hi / 2.0;
    if mid.is_finite() && mid >= lo && mid <= hi {
        p.push(mid);
    }
    for &v in vals {
        if v > lo && v < hi {
            p.push(v);
        }
    }
    p
}

/// atan2(0,0) is excluded by the property statement
fn excluded(case: &OpCase, a: f32, b: f32) -> bool {
    matches!(case.reference, Ref::Bin(fidget_core::context::BinaryOpcode::Atan)) && a == 0.0 && b == 0.0
}

pub fn interp_interval(thorough: bool) -> Report {
    let mut r = Report::new("interp_interval");
    let small: Vec<f32> = if thorough {
        vec![0.0, -0.0, 1.0, -1.0, 0.5, -2.5, 3.0, std::f32::consts::PI, -std::f32::consts::PI, 1.0e20, -1.0e20, f32::INFINITY, f32::NEG_INFINITY, 1.0e-40, f32::MAX, f32::MIN]
    } else {
        vec![0.0, -0.0, 1.0, -1.0, 0.5, -2.5, 3.0, std::f32::consts::PI, 1.0e20, f32::INFINITY, f32::NEG_INFINITY, f32::MAX]
    };
    let ig = interval_grid(&small);
    r.space = format!(
        "every RegOp variant ({}) x 2 placements (registers / through memory) x operand intervals = all [lo,hi] over {} values incl. +-inf, +-0, MAX, plus the NaN interval ({} intervals per operand) x immediates from the same values x points = lo, hi, midpoint and every grid value strictly inside; VmIntervalEval::eval result must enclose the reference point result (4 ulp slack) unless NaN interval / NaN point; atan2(0,0) excluded",
        op_table().len(), small.len(), ig.len());
    let mut eval = VmFunction::new_interval_eval();
    let places = [Place::Direct(0, 1, 2), Place::Spilled(3, 1, 2)];
    for case in op_table() {
        for place in places {
            let imms: Vec<f32> = if matches!(case.kind, Kind::RegImm | Kind::ImmReg) { small.clone() } else { vec![0.0] };
            for &imm in &imms {
                let (data, two_inputs) = build(&case, place, imm);
                let f = VmFunction::from(data);
                let tape = f.interval_tape(Default::default());
                let bs: Vec<Interval> = if two_inputs { ig.clone() } else { vec![Interval::from(0.0)] };
                for &ia in &ig {
                    for &ib in &bs {
                        r.cases += 1;
                        let res = std::panic::catch_unwind(std::panic::AssertUnwindSafe(|| {
                            eval.eval(&tape, &[ia, ib]).map(|(o, _t)| o.to_vec())
                        }));
                        let out = match res {
                            Err(_) => {
                                r.fail(format!("panic:{}:{place:?}:A={ia:?},B={ib:?},imm={}", case.name, fmt_f(imm)), "interval evaluator panicked".into(),
                                       json!({"contract":"interp_interval","op":case.name,"place":format!("{place:?}"),"a":[ia.lower().to_bits(),ia.upper().to_bits()],"b":[ib.lower().to_bits(),ib.upper().to_bits()],"imm":imm.to_bits()}));
                                eval = VmFunction::new_interval_eval();
                                continue;
                            }
                            Ok(Err(e)) => {
                                r.fail(format!("{}:{place:?}", case.name), format!("eval error {e:?}"), json!({"contract":"interp_interval","op":case.name}));
                                continue;
                            }
                            Ok(Ok(o)) => o,
                        };
                        if out.len() != 1 {
                            r.fail(format!("{}:{place:?}", case.name), "wrong output count".into(), json!({"contract":"interp_interval","op":case.name}));
                            continue;
                        }
                        let pa = points_of(ia, &small);
                        let pb = if two_inputs { points_of(ib, &small) } else { vec![0.0] };
                        'pts: for &x in &pa {
                            for &y in &pb {
                                let (a, b) = operands(&case, two_inputs, x, y, imm);
                                if excluded(&case, if case.kind == Kind::ImmReg { b } else { a }, if case.kind == Kind::ImmReg { a } else { b }) {
                                    continue;
                                }
                                let v = ref_eval(case.reference, case.kind, a, b);
                                if !encloses(out[0], v) {
                                    r.fail(format!("{}:{place:?}:A={ia:?},B={ib:?},imm={}", case.name, fmt_f(imm)),
                                           format!("point ({}, {}) evaluates to {} outside returned interval {:?}", fmt_f(x), fmt_f(y), fmt_f(v), out[0]),
                                           json!({"contract":"interp_interval","op":case.name,"place":format!("{place:?}"),"a":[ia.lower().to_bits(),ia.upper().to_bits()],"b":[ib.lower().to_bits(),ib.upper().to_bits()],"imm":imm.to_bits(),"x":x.to_bits(),"y":y.to_bits()}));
                                    break 'pts;
                                }
                            }
                        }
                    }
                }
            }
        }
    }
    r.distinct = r.cases;
    r.exhaustive = true;
    r.sample(json!({"op":"MulRegReg","A":"[-2.5, 3]","B":"[-inf, 0.5]","points":"lo/hi/mid/inside grid values"}));
    r
}

pub fn replay(v: &serde_json::Value) -> bool {
    // re-run the single op case recorded in the replay value; returns true if the contract holds now
    let name = v["op"].as_str().unwrap_or("");
    let Some(case) = op_table().into_iter().find(|c| c.name == name) else { return false };
    let f = |k: &str| f32::from_bits(v[k].as_u64().unwrap_or(0) as u32);
    let place = match v["place"].as_str() {
        Some(s) if s.starts_with("Spilled") => Place::Spilled(3, 1, 2),
        _ => Place::Direct(0, 1, 2),
    };
    let (x, y, imm) = (f("x"), f("y"), f("imm"));
    let (data, two_inputs) = build(&case, place, imm);
    let func = VmFunction::from(data);
    let tape = func.point_tape(Default::default());
    let mut eval = VmFunction::new_point_eval();
    let (a, b) = operands(&case, two_inputs, x, y, imm);
    let want = ref_eval(case.reference, case.kind, a, b);
    let got = eval.eval(&tape, &[x, y]).unwrap().0[0];
    println!("replay {name} x={} y={} imm={}: interpreter {} reference {}", fmt_f(x), fmt_f(y), fmt_f(imm), fmt_f(got), fmt_f(want));
    bits_eq(got, want)
}

// =====================================================================================================
// interval_sweep (C03): dense narrow boxes over 16 orders of magnitude for the one-operand opcodes and
// for `mod`/`atan2` with an immediate, through the VM and the JIT interval evaluators.  The operand
// grid of interp_interval has 12 values; periodic and piecewise functions (sin, cos, tan, floor, round,
// mod) need boxes around EVERY kind of period boundary, far from the origin as well (added for seeded
// change C03-m4: a quadrant computation that is wrong only below -6434 rad).
// =====================================================================================================
fn sweep_centres(thorough: bool) -> Vec<f32> {
    let mut c: Vec<f32> = vec![0.0];
    let hp = std::f64::consts::FRAC_PI_2;
    // multiples of pi/2 at k = +-(2^j + d): period boundaries of the trigonometric functions, near and far
    for j in 0..=(if thorough { 22 } else { 20 }) {
        for d in -2i64..=2 {
            let k = (1i64 << j) + d;
            c.push((k as f64 * hp) as f32);
            c.push((-k as f64 * hp) as f32);
        }
    }
    for k in [3i64, 5, 6, 7, 9, 10, 11, 13, 100, 1000, 4097, 4100, 5000, 10_000, 100_000] {
        c.push((k as f64 * hp) as f32);
        c.push((-k as f64 * hp) as f32);
    }
    // geometric ladder, both signs: integers +- 1/2 (rounding boundaries) included
    let ms: &[f32] = if thorough { &[1.0, 1.0625, 1.17, 1.25, 1.37, 1.5, 1.61, 1.75, 1.83, 1.9375] } else { &[1.0, 1.17, 1.5, 1.83] };
    for e in -10..=24 {
        for &m in ms {
            let v = m * (2.0f32).powi(e);
            c.push(v);
            c.push(-v);
        }
    }
    for k in -6..=6 {
        c.push(k as f32 + 0.5);
        c.push(k as f32);
    }
    c
}

fn sweep_points(lo: f32, hi: f32) -> Vec<f32> {
    let mut p = vec![lo, hi];
    let n = 24;
    for i in 1..n {
        let t = i as f64 / n as f64;
        let v = (lo as f64 * (1.0 - t) + hi as f64 * t) as f32;
        if v >= lo && v <= hi {
            p.push(v);
        }
    }
    // every multiple of pi/2 and every half-integer inside (and their f32 neighbours)
    for (step, limit) in [(std::f64::consts::FRAC_PI_2, 64usize), (0.5f64, 64usize)] {
        let k0 = (lo as f64 / step).ceil();
        for q in 0..limit {
            let v = ((k0 + q as f64) * step) as f32;
            if v > hi {
                break;
            }
            for w in [v, f32::from_bits(v.to_bits().wrapping_sub(1)), f32::from_bits(v.to_bits().wrapping_add(1))] {
                if w >= lo && w <= hi {
                    p.push(w);
                }
            }
        }
    }
    p
}

pub fn interval_sweep(thorough: bool) -> Report {
    use crate::helpers::one_op_pair;
    use fidget_core::context::BinaryOpcode as B;
    let centres = sweep_centres(thorough);
    let widths: &[f32] = if thorough { &[0.0, 1.0e-6, 0.01, 0.3, 0.8, 1.0, 1.6, 2.5, 4.0] } else { &[0.0, 0.01, 0.3, 1.0, 2.5] };
    let table: Vec<OpCase> = op_table().into_iter().filter(|c| c.kind == Kind::Reg || (matches!(c.kind, Kind::RegImm | Kind::ImmReg) && matches!(c.reference, Ref::Bin(B::Mod) | Ref::Bin(B::Atan)))).collect();
    let n_ops = table.len();
    let mut r = crate::helpers::par_map(&table, "interval_sweep", |case, r| {
        let imms: &[f32] = if case.kind == Kind::Reg { &[0.0] } else { &[1.0, 2.5, -3.0, 0.37] };
        for &imm in imms {
            let (vm, jit, _two) = one_op_pair(case, crate::helpers::Place::Direct(0, 1, 2), imm, 1);
            let vt = vm.interval_tape(Default::default());
            let jt = jit.interval_tape(Default::default());
            let mut vev = crate::helpers::JVm::new_interval_eval();
            let mut jev = fidget_jit::JitFunction::new_interval_eval();
            for &c in &centres {
                for &w in widths {
                    // relative width far from the origin (an absolute 0.3 is below one ulp at 1e7)
                    for wv in [w, w * c.abs().max(1.0) * 1.0e-3] {
                        let (lo, hi) = (c - wv, c + wv);
                        if !(lo <= hi) || !lo.is_finite() || !hi.is_finite() {
                            continue;
                        }
                        let ia = Interval::new(lo, hi);
                        let pts = sweep_points(lo, hi);
                        // the VM first: a panic there is a reportable failure; the same box would abort the process in the JIT (panic inside an extern "sysv64" call-out), so it is skipped there
                        let vm_out = std::panic::catch_unwind(std::panic::AssertUnwindSafe(|| vev.eval(&vt, &[ia, ia]).map(|(o, _)| o.to_vec())));
                        let vm_out = match vm_out {
                            Ok(o) => o,
                            Err(_) => {
                                r.cases += 1;
                                r.fail(format!("vm:{}:A={ia:?}:imm={}", case.name, fmt_f(imm)), format!("[vm-panic:{}] the VM interval evaluator panicked on a finite box", case.name),
                                       json!({"contract":"interval_sweep","evaluator":"vm","op":case.name,"a":[lo.to_bits(),hi.to_bits()],"imm":imm.to_bits(),"x":lo.to_bits()}));
                                vev = crate::helpers::JVm::new_interval_eval();
                                continue;
                            }
                        };
                        for (which, out) in [("vm", vm_out), ("jit", jev.eval(&jt, &[ia, ia]).map(|(o, _)| o.to_vec()))] {
                            r.cases += 1;
                            let Ok(out) = out else {
                                r.fail(format!("{which}:{}:A={ia:?}", case.name), "eval error".into(), json!({"contract":"interval_sweep","op":case.name}));
                                continue;
                            };
                            for &x in &pts {
                                let (a, b) = operands(case, false, x, 0.0, imm);
                                if excluded(case, if case.kind == Kind::ImmReg { b } else { a }, if case.kind == Kind::ImmReg { a } else { b }) {
                                    continue;
                                }
                                let v = ref_eval(case.reference, case.kind, a, b);
                                if !encloses(out[0], v) {
                                    let class = if which == "jit" { "jit-not-enclosing" } else { "vm-not-enclosing" };
                                    r.fail(format!("{which}:{}:A={ia:?}:imm={}", case.name, fmt_f(imm)),
                                           format!("[{class}:{}] point {} evaluates to {} outside the returned interval {:?}", case.name, fmt_f(x), fmt_f(v), out[0]),
                                           json!({"contract":"interval_sweep","evaluator":which,"op":case.name,"a":[lo.to_bits(),hi.to_bits()],"imm":imm.to_bits(),"x":x.to_bits()}));
                                    break;
                                }
                            }
                        }
                    }
                }
            }
        }
    });
    r.distinct = r.cases;
    r.exhaustive = false;
    r.space = format!("{n_ops} opcodes (every one-operand opcode; mod and atan2 with an immediate on either side x 4 immediates) x {} box centres (0, +-k*pi/2 for k = 2^j + d up to j = 20 and a ladder of other k, +-m*2^e for e in -10..=24, integers and half-integers) x {} widths, absolute and relative to the centre x VM and JIT interval evaluators; points: both ends, 23 evenly spaced, every multiple of pi/2 and every half-integer inside with their f32 neighbours; the returned interval must contain the reference f32 value (4 ulp slack) unless it is the NaN interval or the point value is NaN", centres.len(), widths.len());
    r
}

pub fn sweep_replay(v: &serde_json::Value) -> bool {
    use crate::helpers::one_op_pair;
    let name = v["op"].as_str().unwrap_or("");
    let Some(case) = op_table().into_iter().find(|c| c.name == name) else { return false };
    let f = |k: &serde_json::Value| f32::from_bits(k.as_u64().unwrap_or(0) as u32);
    let (lo, hi, imm, x) = (f(&v["a"][0]), f(&v["a"][1]), f(&v["imm"]), f(&v["x"]));
    let (vm, jit, _) = one_op_pair(&case, crate::helpers::Place::Direct(0, 1, 2), imm, 1);
    let ia = Interval::new(lo, hi);
    let out = if v["evaluator"].as_str() == Some("jit") {
        fidget_jit::JitFunction::new_interval_eval().eval(&jit.interval_tape(Default::default()), &[ia, ia]).map(|(o, _)| o.to_vec())
    } else {
        crate::helpers::JVm::new_interval_eval().eval(&vm.interval_tape(Default::default()), &[ia, ia]).map(|(o, _)| o.to_vec())
    };
    let Ok(out) = out else { return false };
    let (a, b) = operands(&case, false, x, 0.0, imm);
    let val = ref_eval(case.reference, case.kind, a, b);
    println!("{} on {:?} (imm {}) -> {:?}; at the point {} the operation gives {}: {}", name, ia, fmt_f(imm), out[0], fmt_f(x), fmt_f(val), if encloses(out[0], val) { "enclosed" } else { "NOT ENCLOSED" });
    encloses(out[0], val)
}
