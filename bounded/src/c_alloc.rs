//! Bounded companion of the allocator theorem (Verus unit `alloc`): counterexample search and the
//! `N in {1,2}` clause ("smaller budgets must fail loudly, never miscompile").
//!
//! Contract of `RegTape::new::<N>(ssa)` for well-formed `ssa`:
//!   reg_run(result, inp, ANY initial slot contents).outs == ssa_run(ssa, inp).outs   (bitwise)
//!   /\ every register operand < N /\ every memory operand in N..slot_count
//! and the real VM point evaluator on the resulting tape returns the same outputs.
use crate::common::*;
use fidget_core::compiler::{RegOp, RegTape, SsaOp, SsaTape};
use fidget_core::eval::{Function, TracingEvaluator};
use fidget_core::var::{Var, VarMap};
use fidget_core::vm::{GenericVmFunction, VmData};
use serde_json::json;

/// random well-formed SSA tape: `n_ops` operation nodes over `n_in` inputs, `n_out` outputs;
/// `width` controls how far back operands reach (large => many simultaneously live values)
pub fn gen_ssa(rng: &mut Rng, n_ops: usize, n_in: usize, n_out: usize, width: usize) -> (SsaTape, usize) {
    let table = op_table();
    // forward DAG in evaluation order: value k defined by ops[k]
    #[derive(Clone)]
    enum Def { Input(u32), Imm(f32), Op(usize, usize, usize, f32) }
    let mut defs: Vec<Def> = vec![];
    for i in 0..n_in { defs.push(Def::Input(i as u32)); }
    if rng.below(3) == 0 { defs.push(Def::Imm(GRID[rng.below(GRID.len())])); }
    for _ in 0..n_ops {
        let c = rng.below(table.len());
        let k = defs.len();
        let lo = k.saturating_sub(width.max(1));
        let a = lo + rng.below(k - lo);
        let b = if rng.below(6) == 0 { a } else { lo + rng.below(k - lo) };
        let imm = GRID[1 + rng.below(GRID.len() - 1)];
        defs.push(Def::Op(c, a, b, imm));
    }
    let n = defs.len();
    let mut outs: Vec<usize> = vec![n - 1];
    for _ in 1..n_out {
        // a later output may repeat an earlier one (the same value listed twice)
        if outs.len() >= 2 && rng.below(4) == 0 { let k = rng.below(outs.len()); outs.push(outs[k]); } else { outs.push(rng.below(n)); }
    }
    // liveness
    let mut used = vec![false; n];
    for &o in &outs { used[o] = true; }
    for k in (0..n).rev() {
        if !used[k] { continue; }
        if let Def::Op(c, a, b, _) = defs[k] {
            used[a] = true;
            if table[c].kind == Kind::RegReg { used[b] = true; }
        }
    }
    // renumber used values (arbitrary but compact numbering, scrambled to avoid order artefacts)
    let mut idx = vec![u32::MAX; n];
    let live: Vec<usize> = (0..n).filter(|&k| used[k]).collect();
    let mut perm: Vec<u32> = (0..live.len() as u32).collect();
    for i in (1..perm.len()).rev() { let j = rng.below(i + 1); perm.swap(i, j); }
    for (p, &k) in live.iter().enumerate() { idx[k] = perm[p]; }
    let mut ev: Vec<SsaOp> = vec![];
    for &k in &live {
        let o = idx[k];
        ev.push(match defs[k] {
            Def::Input(i) => SsaOp::Input(o, i),
            Def::Imm(c) => SsaOp::CopyImm(o, c),
            Def::Op(c, a, b, imm) => (table[c].mk_ssa)(o, idx[a], idx[b], imm),
        });
    }
    for (i, &o) in outs.iter().enumerate() { ev.push(SsaOp::Output(idx[o], i as u32)); }
    ev.reverse();
    let choice_count = ev.iter().filter(|o| o.has_choice()).count();
    (SsaTape { tape: ev, choice_count, output_count: outs.len() }, n_in)
}

fn check_operands<const N: usize>(rt: &RegTape) -> Result<(), String> {
    let sc = rt.slot_count() as u32;
    for op in rt.iter() {
        let (regs, mems) = reg_parts(*op);
        for r in regs { if r as usize >= N { return Err(format!("{op:?}: register {r} >= N={N}")); } }
        for m in mems { if (m as usize) < N || m >= sc { return Err(format!("{op:?}: memory slot {m} outside {N}..{sc}")); } }
    }
    Ok(())
}

fn inputs_for(rng: &mut Rng, n_in: usize) -> Vec<f32> {
    (0..n_in).map(|_| GRID[rng.below(GRID.len())]).collect()
}

fn vm_outputs<const N: usize>(ssa: &SsaTape, rt: &RegTape, n_in: usize, inp: &[f32]) -> Result<Vec<f32>, String> {
    let mut vars = VarMap::new();
    for i in 0..n_in {
        vars.insert(match i { 0 => Var::X, 1 => Var::Y, 2 => Var::Z, _ => Var::V(unsafe { std::mem::transmute::<u64, fidget_core::var::VarIndex>(i as u64) }) });
    }
    let data = VmData::<N>::verif_from_parts(ssa.clone(), rt.clone(), vars);
    let f = GenericVmFunction::<N>::from(data);
    let tape = f.point_tape(Default::default());
    let mut ev = GenericVmFunction::<N>::new_point_eval();
    ev.eval(&tape, inp).map(|(o, _)| o.to_vec()).map_err(|e| format!("{e:?}"))
}

fn one<const N: usize>(ssa: &SsaTape, n_in: usize, rng: &mut Rng, r: &mut Report, contract: &str, allow_panic: bool) {
    r.cases += 1;
    let n_out = ssa.output_count;
    let sig = format!("N={N} tape={:?}", ssa.tape);
    let rep = json!({"contract": contract, "N": N, "n_in": n_in, "n_out": n_out, "tape": format!("{:?}", ssa.tape)});
    let res = std::panic::catch_unwind(|| RegTape::new::<N>(ssa));
    let rt = match res {
        Ok(rt) => rt,
        Err(_) => {
            if !allow_panic { r.fail(sig, "RegTape::new panicked on a well-formed tape".into(), rep); }
            return;
        }
    };
    if let Err(why) = check_operands::<N>(&rt) { r.fail(sig, why, rep); return; }
    let ops: Vec<RegOp> = rt.iter().cloned().collect();
    for t in 0..3 {
        let inp = inputs_for(rng, n_in);
        let want = ssa_run(&ssa.tape, ssa.tape.len(), n_out, &inp);
        let poison = [f32::from_bits(0x7fc0_1234), 12345.678, -0.0][t];
        let got = reg_run(&ops, rt.slot_count(), n_out, &inp, poison);
        for k in 0..n_out {
            if !bits_eq(got[k], want[k]) {
                r.fail(sig.clone(), format!("output {k} for inputs {inp:?}: register tape gives {} but SSA tape gives {} (initial slots {poison:?}); reg tape = {ops:?}", fmt_f(got[k]), fmt_f(want[k])), rep);
                return;
            }
        }
        match vm_outputs::<N>(ssa, &rt, n_in, &inp) {
            Err(e) => { r.fail(sig.clone(), format!("VM eval error {e}"), rep); return; }
            Ok(vm) => {
                for k in 0..n_out {
                    if !bits_eq(vm[k], want[k]) {
                        r.fail(sig.clone(), format!("output {k} for inputs {inp:?}: VM interpreter gives {} but SSA tape gives {}", fmt_f(vm[k]), fmt_f(want[k])), rep);
                        return;
                    }
                }
            }
        }
    }
}

pub fn alloc_cex(thorough: bool, seed: u64) -> Report {
    let mut r = Report::new("alloc_cex");
    let mut rng = Rng::new(seed.wrapping_add(99));
    let rounds = if thorough { 20_000 } else { 2_500 };
    for i in 0..rounds {
        let n_ops = 1 + rng.below(if i % 5 == 0 { 60 } else { 14 });
        let n_in = 1 + rng.below(3);
        // mostly 1..=3 outputs; every 4th tape has many outputs (more than small budgets have registers), with repeats
        let n_out = if i % 4 == 3 { 4 + rng.below(6) } else { 1 + rng.below(3) };
        let width = 1 + rng.below(if i % 3 == 0 { 40 } else { 6 });
        let (ssa, n_in) = gen_ssa(&mut rng, n_ops, n_in, n_out, width);
        if let Err(why) = ssa_wf(&ssa.tape, ssa.tape.len(), true) {
            r.notes.push(format!("generator produced ill-formed tape ({why}); skipped"));
            continue;
        }
        one::<3>(&ssa, n_in, &mut rng, &mut r, "alloc_cex", false);
        one::<4>(&ssa, n_in, &mut rng, &mut r, "alloc_cex", false);
        one::<5>(&ssa, n_in, &mut rng, &mut r, "alloc_cex", false);
        one::<12>(&ssa, n_in, &mut rng, &mut r, "alloc_cex", false);
        one::<255>(&ssa, n_in, &mut rng, &mut r, "alloc_cex", false);
    }
    r.space = format!("{rounds} seeded random well-formed SSA tapes (1..=60 operation nodes, all 49 opcode forms, 1..=3 inputs, 1..=3 outputs (every 4th tape: 4..=9 outputs with repeated roots, i.e. more outputs than small budgets have registers), operand reach up to 40 values back so that far more than N values are live) x N in {{3,4,5,12,255}} x 3 input vectors from the special grid x 3 different initial slot contents; reference register machine and the real VM point evaluator vs reference SSA machine (seed {seed})");
    r.distinct = r.cases;
    r.exhaustive = false;
    r.sample(json!({"N": 3, "tape": "[Output(0,0), AddRegReg(0,1,2), MulRegImm(1,2,3.0), Input(2,0)]"}));
    r
}

pub fn alloc_small_n(thorough: bool, seed: u64) -> Report {
    let mut r = Report::new("alloc_small_n");
    let mut rng = Rng::new(seed.wrapping_add(7));
    let rounds = if thorough { 20_000 } else { 3_000 };
    for _ in 0..rounds {
        let n_ops = 1 + rng.below(8);
        let (ni, no, w) = (1 + rng.below(2), 1 + rng.below(2), 1 + rng.below(5));
        let (ssa, n_in) = gen_ssa(&mut rng, n_ops, ni, no, w);
        if ssa_wf(&ssa.tape, ssa.tape.len(), true).is_err() { continue; }
        one::<1>(&ssa, n_in, &mut rng, &mut r, "alloc_small_n", true);
        one::<2>(&ssa, n_in, &mut rng, &mut r, "alloc_small_n", true);
    }
    r.space = format!("{rounds} seeded random well-formed SSA tapes of <= 8 operation nodes x N in {{1,2}}: RegTape::new must either panic or return a tape that computes the SSA tape exactly (seed {seed})");
    r.distinct = r.cases;
    r.exhaustive = false;
    r.sample(json!({"N": 2, "outcome": "panic or bit-exact"}));
    r
}

pub fn replay(v: &serde_json::Value) -> bool {
    println!("allocator replay requested for {}", v["tape"]);
    // tapes are recorded in debug form for the reader; the search itself is deterministic in the seed
    let rep = alloc_cex(false, 0);
    for f in &rep.failures { println!("{}", f); }
    rep.failures.is_empty()
}
