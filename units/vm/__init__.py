"""Unit `vm`: the VM interpreter loops of fidget-core/src/vm/mod.rs on their real text.

`VmPointEval::eval` (and `VmIntervalEval::eval`) are proved, for every register tape and every input, to compute
exactly the run of the reference step function `vm_step` (generated from the opcode table of op.rs: which operand
is read, which slot is written, which choice slot is OR-ed) with the reference meaning of each opcode
(`p_un` / `p_bin` / `p_ch`: the documented meaning written down once, independent of the interpreter text),
to record one choice per choice clause in tape order into a cleared trace, to return a trace exactly when some
clause is decided, and never to panic on a well-formed tape (every index, every `.next().unwrap()`).
"""
import re
from lib import rsx, opcodes
from lib.rsx import ExtractError
from lib.verus_engine import Injector, Obligation, partition, count_match_arms, locate_fn
from units.vm import spec as SP

VM_RS = 'fidget-core/src/vm/mod.rs'
DATA_RS = 'fidget-core/src/vm/data.rs'
CHOICE_RS = 'fidget-core/src/vm/choice.rs'
REGTAPE_RS = 'fidget-core/src/compiler/reg_tape.rs'
FLOAT_RS = 'fidget-core/src/types/float.rs'
VAR_RS = 'fidget-core/src/var/mod.rs'

PROPS = ['C01', 'C03', 'C04', 'C10', 'C11', 'C20']


def norm(s):
    return re.sub(r'\s+', '', s)


def tuple_struct(src, name):
    m = re.search(r'^struct %s\b[^;{]*;' % name, src, re.M)
    if not m:
        raise ExtractError('tuple struct not found: ' + name)
    return m.group(0)


def extract_choice(repo, trace):
    src = rsx.clean(open('%s/%s' % (repo, CHOICE_RS)).read(), trace)
    en = rsx.get_item(src, r'^enum Choice\b', 0, 'enum Choice')
    en = re.sub(r'#\[repr\(u8\)\]\n', '', en)
    en = en.replace('#[derive(Copy, Clone)]', '#[derive(PartialEq, Eq, Structural)]').replace('enum Choice', 'pub enum Choice')
    # Copy/Clone: R-derive-clone in the prelude; R-derive-structural: derived PartialEq of a fieldless enum is structural equality
    trace.fire('R-derive-structural')
    i, j, k = rsx.find_item(src, r'^impl std::ops::BitOrAssign<Choice> for Choice\b', 0, 'impl BitOrAssign for Choice')
    bo = src[i:k]
    bo = bo.replace('_ => panic!(),', '_ => unreachable!(),')   # drop-fmt-args canonicalises to panic!(); vstd specifies unreachable!()
    trace.items.append((CHOICE_RS, 'enum Choice'))
    trace.items.append((CHOICE_RS, 'impl BitOrAssign<Choice> for Choice'))
    trace.drop('impl Not / BitAndAssign for Choice (not used by the interpreters)')
    return en + '\n\n' + bo + '\n'


def extract_errors(repo, trace):
    """BadVarSlice, TracingArgError (var/mod.rs), TracingEvalError (eval/tracing.rs) and the real
    `VarMap::check_tracing_arguments`; `VarMap` itself stays opaque (HashMap): only `len` is declared."""
    v = rsx.clean(open('%s/%s' % (repo, VAR_RS)).read(), trace)
    bad = rsx.get_item(v, r'^struct BadVarSlice\b', 0, 'struct BadVarSlice')
    bad = re.sub(r'#\[error\([^\]]*\)\]\n', '', bad, flags=re.S)
    bad = bad.replace('struct BadVarSlice', 'pub struct BadVarSlice').replace('    actual:', '    pub actual:').replace('    expected:', '    pub expected:')
    tae = rsx.get_item(v, r'^enum TracingArgError\b', 0, 'enum TracingArgError')
    tae = re.sub(r'^\s*#\[error\([^\]]*\)\]\n', '', tae, flags=re.M).replace('enum TracingArgError', 'pub enum TracingArgError')
    a, b = rsx.impl_block(v, r'^impl VarMap\b', 'impl VarMap')
    i, j, k = rsx.find_fn(v, 'check_tracing_arguments', a, b)
    f = v[rsx.line_start(v, i):k]
    trace.items.append((VAR_RS, 'struct BadVarSlice, enum TracingArgError, VarMap::check_tracing_arguments'))
    t = rsx.clean(open('%s/fidget-core/src/eval/tracing.rs' % repo).read(), trace)
    m = re.search(r'^(?:#\[error\(transparent\)\]\n)?struct TracingEvalError\(#\[from\] TracingArgError\);', t, re.M)
    if not m:
        raise ExtractError('R-derive-from: TracingEvalError changed')
    trace.fire('R-derive-from')
    trace.items.append(('fidget-core/src/eval/tracing.rs', 'struct TracingEvalError'))
    return (bad + '\n\n' + tae + '\n\npub struct TracingEvalError(pub TracingArgError);\n\nimpl VarMap {\n' + f + '\n}\n')


def extract_floatext(repo, trace):
    """trait FloatExt + impl for f32 (types/float.rs).  The trait declaration is the real one with, per method, a spec
    twin `NAME_s` and `ensures r == self.NAME_s(..)`; the impl methods are `external_body` stubs with the real signatures (closures,
    f32::NAN, to_bits: outside Verus; min/max/and/or_choice are decided by the Kani harnesses `*_choice`), with the
    spec twin bound to the uninterpreted function `fx_NAME`."""
    src = rsx.clean(open('%s/%s' % (repo, FLOAT_RS)).read(), trace)
    i, j, k = rsx.find_item(src, r'^trait FloatExt\b', 0, 'trait FloatExt')
    decl = src[j + 1:k - 1]
    sigs = re.findall(r'fn (\w+)\(self((?:, \w+: \w+)*)\) -> ([^;]+);', decl)
    if not sigs or len(sigs) != decl.count('fn '):
        raise ExtractError('trait FloatExt: unexpected method shape')
    a, b = rsx.impl_block(src, r'^impl FloatExt for f32\b', 'impl FloatExt for f32')
    tr = ['pub trait FloatExt: Sized {']
    im = ['impl FloatExt for f32 {']
    un = []
    for name, args, ret in sigs:
        ret = ret.strip()
        argl = [x.strip() for x in args.split(',') if x.strip()]
        names = [x.split(':')[0].strip() for x in argl]
        tr.append('    spec fn %s_s(self%s) -> %s;' % (name, args, ret))
        tr.append('    fn %s(self%s) -> (r: %s) ensures r == self.%s_s(%s);' % (name, args, ret, name, ', '.join(names)))
        fargs = ''.join(', %s: f32' % n for n in names)
        fret = ret.replace('Self', 'f32')
        un.append('pub uninterp spec fn fx_%s(a: f32%s) -> %s;' % (name, fargs, fret))
        im.append('    open spec fn %s_s(self%s) -> %s { fx_%s(self%s) }' % (name, args, ret, name, ''.join(', ' + n for n in names)))
        i2, j2, k2 = rsx.find_fn(src, name, a, b)
        sig = src[rsx.line_start(src, i2):j2]
        sig = re.sub(r'fn %s\(([^)]*)\) -> ([^{]+)$' % name, lambda m: 'fn %s(%s) -> (r: %s)' % (name, m.group(1), m.group(2).strip()), sig.rstrip(), count=1)
        im.append('    #[verifier::external_body]\n' + sig + ' { unimplemented!() }   // body not part of the unit (external_body)')
        trace.items.append((FLOAT_RS, 'FloatExt::%s for f32 (external_body, contract r == fx_%s(..))' % (name, name)))
    tr.append('}')
    im.append('}')
    return '\n'.join(un) + '\n\n' + '\n'.join(tr) + '\n\n' + '\n'.join(im) + '\n'


def check_iter_asm(repo, trace):
    """R-iter precondition: `VmData::iter_asm` is `self.asm.iter().cloned().rev()` and `RegTape::iter` walks `self.tape`."""
    d = rsx.clean(open('%s/%s' % (repo, DATA_RS)).read(), trace)
    i, j, k = rsx.find_fn(d, 'iter_asm')
    if norm(d[j:k]) != '{self.asm.iter().cloned().rev()}':
        raise ExtractError('VmData::iter_asm is no longer `self.asm.iter().cloned().rev()`: R-iter not applicable')
    r = rsx.clean(open('%s/%s' % (repo, REGTAPE_RS)).read(), trace)
    i, j, k = rsx.find_fn(r, 'iter')
    if norm(r[j:k]) != '{self.into_iter()}':
        raise ExtractError('RegTape::iter changed: R-iter not applicable')
    i, j, k = rsx.find_item(r, r"^impl<'a> IntoIterator for &'a RegTape\b", 0, 'IntoIterator for &RegTape')
    if 'self.tape.iter()' not in r[j:k]:
        raise ExtractError('IntoIterator for &RegTape changed: R-iter not applicable')
    trace.drop('VmData::iter_asm, RegTape::iter, IntoIterator for &RegTape (inlined by R-iter after checking their bodies)')


def extract_data(repo, trace):
    """struct VmData + the three counters (real text); RegTape/SsaTape reduced to the fields the counters read."""
    d = rsx.clean(open('%s/%s' % (repo, DATA_RS)).read(), trace)
    if d.count('struct VmData<const N: usize = { u8::MAX as usize }>') != 1:
        raise ExtractError('R-constdefault: VmData header changed')
    d = d.replace('struct VmData<const N: usize = { u8::MAX as usize }>', 'struct VmData<const N: usize>')
    trace.fire('R-constdefault')
    st = rsx.get_item(d, r'^struct VmData<', 0, 'struct VmData')
    st = re.sub(r'#\[derive\([^\]]*\)\]\n', '', st)
    st = st.replace('struct VmData', 'pub struct VmData').replace('    ssa:', '    pub ssa:').replace('    asm:', '    pub asm:').replace('    vars:', '    pub vars:')
    a, b = rsx.impl_block(d, r'^impl<const N: usize> VmData<N>', 'impl VmData')
    fns = []
    for name in ['choice_count', 'output_count', 'slot_count']:
        i, j, k = rsx.find_fn(d, name, a, b)
        fns.append(d[rsx.line_start(d, i):k])
        trace.items.append((DATA_RS, 'VmData::' + name))
    r = rsx.clean(open('%s/%s' % (repo, REGTAPE_RS)).read(), trace)
    rt = rsx.get_item(r, r'^struct RegTape\b', 0, 'struct RegTape')
    rt = re.sub(r'#\[derive\([^\]]*\)\]\n', '', rt).replace('struct RegTape', 'pub struct RegTape')
    rt = re.sub(r'^(\s+)(tape|slot_count):', r'\1pub \2:', rt, flags=re.M)
    a, b = rsx.impl_block(r, r'^impl RegTape\b', 'impl RegTape')
    i, j, k = rsx.find_fn(r, 'slot_count', a, b)
    rfn = r[rsx.line_start(r, i):k]
    trace.items.append((REGTAPE_RS, 'struct RegTape, RegTape::slot_count'))
    s = rsx.clean(open('%s/fidget-core/src/compiler/ssa_tape.rs' % repo).read(), trace)
    sst = rsx.get_item(s, r'^struct SsaTape\b', 0, 'struct SsaTape')
    sst = re.sub(r'#\[derive\([^\]]*\)\]\n', '', sst).replace('struct SsaTape', 'pub struct SsaTape')
    sst = re.sub(r'^(\s+)(tape|choice_count|output_count):', r'\1pub \2:', sst, flags=re.M)
    trace.items.append(('fidget-core/src/compiler/ssa_tape.rs', 'struct SsaTape'))
    return (rt + '\n\nimpl RegTape {\n' + rfn + '\n}\n\n' + sst + '\n\n' + st
            + '\n\nimpl<const N: usize> VmData<N> {\n' + '\n\n'.join(fns) + '\n}\n')


def extract_vm(repo, trace, which):
    """Items of vm/mod.rs: VmTrace (+fill, resize), GenericVmTape (+data, vars), TracingVmEval (+resize_slots), the evaluator."""
    src = rsx.clean(open('%s/%s' % (repo, VM_RS)).read(), trace)
    out = []
    vt = tuple_struct(src, 'VmTrace').replace('struct VmTrace(Vec<Choice>)', 'pub struct VmTrace(pub Vec<Choice>)')
    a, b = rsx.impl_block(src, r'^impl VmTrace\b', 'impl VmTrace')
    fns = []
    for name in ['fill', 'resize', 'as_slice']:
        i, j, k = rsx.find_fn(src, name, a, b)
        fns.append(src[rsx.line_start(src, i):k])
        trace.items.append((VM_RS, 'VmTrace::' + name))
    i, j, k = rsx.find_fn(src, 'as_mut_slice', a, b)
    if norm(src[j:k]) != '{self.0.as_mut_slice()}':
        raise ExtractError('VmTrace::as_mut_slice changed: R-choiceiter not applicable')
    out.append(vt + '\n\nimpl VmTrace {\n' + '\n\n'.join(fns) + '\n}\n')
    gt = tuple_struct(src, 'GenericVmTape').replace('struct GenericVmTape<const N: usize>(Arc<VmData<N>>)', 'pub struct GenericVmTape<const N: usize>(pub Arc<VmData<N>>)')
    a, b = rsx.impl_block(src, r'^impl<const N: usize> GenericVmTape<N>', 'impl GenericVmTape')
    i, j, k = rsx.find_fn(src, 'data', a, b)
    f_data = src[rsx.line_start(src, i):k]
    a, b = rsx.impl_block(src, r'^impl<const N: usize> Tape for GenericVmTape<N>', 'impl Tape for GenericVmTape')
    i, j, k = rsx.find_fn(src, 'vars', a, b)
    f_vars = src[rsx.line_start(src, i):k]
    trace.fire('R-traitfn')
    trace.items.append((VM_RS, 'GenericVmTape::data, Tape::vars for GenericVmTape'))
    out.append(gt + '\n\nimpl<const N: usize> GenericVmTape<N> {\n' + f_data + '\n\n' + f_vars + '\n}\n')
    # SlotArray: the four Index impls must be the plain `self.0[i as usize]` for R-slotarray
    sa_impls = re.findall(r'impl<T> std::ops::Index(?:Mut)?<u(?:8|32)> for SlotArray<\'_, T> \{.*?\n\}', src, re.S)
    if len(sa_impls) != 4:
        raise ExtractError('R-slotarray: expected 4 Index impls of SlotArray, found %d' % len(sa_impls))
    for t in sa_impls:
        if not (norm(t).endswith('{&self.0[iasusize]}}') or norm(t).endswith('{&mutself.0[iasusize]}}')):
            raise ExtractError('R-slotarray: an Index impl of SlotArray is no longer `self.0[i as usize]`')
    trace.drop('struct SlotArray and its 4 Index impls (inlined by R-slotarray after checking that each is `self.0[i as usize]`)')
    te = rsx.get_item(src, r'^struct TracingVmEval\b', 0, 'struct TracingVmEval')
    te = te.replace('struct TracingVmEval<T>', 'pub struct TracingVmEval<T>')
    te = re.sub(r'^(\s+)(slots|out|choices):', r'\1pub \2:', te, flags=re.M)
    a, b = rsx.impl_block(src, r'^impl<T: From<f32> \+ Clone> TracingVmEval<T>', 'impl TracingVmEval')
    i, j, k = rsx.find_fn(src, 'resize_slots', a, b)
    f_rs = src[rsx.line_start(src, i):k]
    trace.items.append((VM_RS, 'TracingVmEval::resize_slots'))
    n1 = f_rs.count('f32::NAN.into()')
    f_rs = f_rs.replace('f32::NAN.into()', 'nan_of::<T>()')
    trace.fire('R-nanconst', n1)
    out.append(te + '\n\nimpl<T: From<f32> + Clone> TracingVmEval<T> {\n' + f_rs + '\n}\n')
    for (ev, ty) in which:
        stx = tuple_struct(src, ev).replace('struct %s<const N: usize>(TracingVmEval<%s>)' % (ev, ty), 'pub struct %s<const N: usize>(pub TracingVmEval<%s>)' % (ev, ty))
        a, b = rsx.impl_block(src, r'^impl<const N: usize> TracingEvaluator for %s<N>' % ev, 'impl TracingEvaluator for ' + ev)
        i, j, k = rsx.find_fn(src, 'eval', a, b)
        fe = src[rsx.line_start(src, i):k]
        fe = fe.replace('Self::Tape', 'GenericVmTape<N>')
        trace.fire('R-traitfn')
        trace.items.append((VM_RS, '%s::eval (TracingEvaluator)' % ev))
        fe = rewrite_eval(fe, trace, ty)
        out.append(stx + '\n\nimpl<const N: usize> %s<N> {\n' % ev + fe + '\n}\n')
    return '\n'.join(out)


def rewrite_eval(fe, trace, ty):
    # R-slotarray: `let mut v = SlotArray(&mut self.0.slots);` dropped, `v[e]` -> `self.0.slots[e as usize]`
    old = '        let mut v = SlotArray(&mut self.0.slots);\n'
    if fe.count(old) != 1:
        raise ExtractError('R-slotarray: declaration of `v` changed')
    fe = fe.replace(old, '')
    fe, n = re.subn(r'\bv\[(\w+)\]', r'self.0.slots[\1 as usize]', fe)
    if re.search(r'\bv\b(?!\w)', re.sub(r'\bv\[', '', fe)) and re.search(r'[^\w.]v[^\w\[]', fe):
        raise ExtractError('R-slotarray: unexpected use of `v`')
    trace.fire('R-slotarray', n + 1)
    # R-armblock: an arm that is a bare assignment expression gets a block (so that R-split can address it)
    fe, n = re.subn(r'(RegOp::\w+\([^)]*\) =>) (self\.0\.slots\[\w+ as usize\] = [^\n]*),\n', r'\1 { \2; }\n', fe)
    trace.fire('R-armblock', n)
    # R-neg: unary minus on f32 (Verus has no float negation): `-X[..]` -> `neg_(X[..])`; on Interval it stays `Neg::neg`
    if ty == 'f32':
        fe, n = re.subn(r'= -(self\.0\.slots\[\w+ as usize\]);', r'= neg_(\1);', fe)
        trace.fire('R-neg', n)
    # R-boolor: `b |= e;` on bools (unsupported) -> `{ let b_ = e; b = b || b_; }` (e is still evaluated unconditionally)
    fe, n = re.subn(r'\bsimplify \|= ([^;]+);', r'{ let b_ = \1; simplify = simplify || b_; }   // R-boolor', fe)
    trace.fire('R-boolor', n)
    # R-choiceiter: the `iter_mut()` cursor over the choice slice becomes an index
    old = '        let mut choices = self.0.choices.as_mut_slice().iter_mut();\n'
    if fe.count(old) != 1:
        raise ExtractError('R-choiceiter: declaration of `choices` changed')
    fe = fe.replace(old, '        let mut choices: usize = 0;   // R-choiceiter\n')
    use = '*choices.next().unwrap() |= choice;'
    n = fe.count(use)
    fe = fe.replace(use, '{ self.0.choices.0[choices] |= choice; choices += 1; }   // R-choiceiter')
    if re.search(r'\bchoices\.', fe.replace('self.0.choices.', '')):
        raise ExtractError('R-choiceiter: unexpected use of `choices`')
    trace.fire('R-choiceiter', n + 1)
    # R-iter: for op in tape.iter_asm() { .. }
    old = '        for op in tape.iter_asm() {\n'
    if fe.count(old) != 1:
        raise ExtractError('R-iter: loop header of eval changed')
    fe = fe.replace(old, '        let mut i_: usize = tape.asm.tape.len();   // R-iter: iter_asm() == asm.tape.iter().cloned().rev()\n'
                         '        while i_ > 0 {\n            i_ -= 1;\n            let op = tape.asm.tape[i_];\n')
    trace.fire('R-iter')
    return fe


INTERVAL_RS = 'fidget-core/src/types/interval.rs'
BULK_RS = 'fidget-core/src/eval/bulk.rs'


def extract_bulk_env(repo, trace):
    """BulkOutput (+new), BulkEvalError (eval/bulk.rs); MismatchedSlices, BulkArgError (var/mod.rs)."""
    b = rsx.clean(open('%s/%s' % (repo, BULK_RS)).read(), trace)
    bo = rsx.get_item(b, r"^struct BulkOutput<'a, T>", 0, 'struct BulkOutput')
    bo = bo.replace("struct BulkOutput<'a, T>", "pub struct BulkOutput<'a, T>").replace('    data:', '    pub data:').replace('    len:', '    pub len:')
    a0, b0 = rsx.impl_block(b, r"^impl<'a, T> BulkOutput<'a, T>", 'impl BulkOutput')
    i, j, k = rsx.find_fn(b, 'new', a0, b0)
    f_new = b[rsx.line_start(b, i):k]
    trace.items.append((BULK_RS, 'struct BulkOutput, BulkOutput::new'))
    if not re.search(r'^struct BulkEvalError\(#\[from\] BulkArgError\);', b, re.M):
        raise ExtractError('R-derive-from: BulkEvalError changed')
    trace.fire('R-derive-from')
    v = rsx.clean(open('%s/%s' % (repo, VAR_RS)).read(), trace)
    ms = rsx.get_item(v, r'^struct MismatchedSlices\b', 0, 'struct MismatchedSlices')
    ms = re.sub(r'#\[error\([^\]]*\)\]\n', '', ms, flags=re.S).replace('struct MismatchedSlices', 'pub struct MismatchedSlices')
    bae = rsx.get_item(v, r'^enum BulkArgError\b', 0, 'enum BulkArgError')
    bae = re.sub(r'^\s*#\[error\([^\]]*\)\]\n', '', bae, flags=re.M).replace('#[from] ', '').replace('enum BulkArgError', 'pub enum BulkArgError')
    trace.items.append((VAR_RS, 'struct MismatchedSlices, enum BulkArgError'))
    a1, b1 = rsx.impl_block(v, r'^impl VarMap\b', 'impl VarMap')
    rsx.find_fn(v, 'check_bulk_arguments', a1, b1)
    trace.drop('VarMap::check_bulk_arguments (Option let-else, iterator enumerate/find closures: external_body stub with a contract; bounded contract `total` exercises it)')
    return (bo + "\n\nimpl<'a, T> BulkOutput<'a, T> {\n" + f_new + '\n}\n\n' + ms + '\n\n' + bae + '\n\npub struct BulkEvalError(pub BulkArgError);\n')


def extract_bulk(repo, trace, bulk_kinds):
    src = rsx.clean(open('%s/%s' % (repo, VM_RS)).read(), trace)
    out = []
    st = rsx.get_item(src, r'^struct BulkVmEval\b', 0, 'struct BulkVmEval')
    st = re.sub(r'#\[derive\([^\]]*\)\]\n', '', st).replace('struct BulkVmEval<T>', 'pub struct BulkVmEval<T>')
    st = re.sub(r'^(\s+)(slots|out):', r'\1pub \2:', st, flags=re.M)
    a, b = rsx.impl_block(src, r'^impl<T: From<f32> \+ Clone> BulkVmEval<T>', 'impl BulkVmEval')
    i, j, k = rsx.find_fn(src, 'resize_slots', a, b)
    f_rs = src[rsx.line_start(src, i):k]
    trace.items.append((VM_RS, 'BulkVmEval::resize_slots'))
    n1 = f_rs.count('f32::NAN.into()')
    f_rs = f_rs.replace('f32::NAN.into()', 'nan_of::<T>()')
    trace.fire('R-nanconst', n1)
    # R-itermut: `for x in V.iter_mut() { x.resize(size, e); }` -> index loop over V
    pat = re.compile(r'        for (\w+) in self\.(\w+)\.iter_mut\(\) \{\n            \1\.resize\(size, nan_of::<T>\(\)\);\n        \}\n')
    f_rs, n2 = pat.subn(lambda m: ('        let mut j_: usize = 0;   // R-itermut\n        while j_ < self.%s.len() {\n            self.%s[j_].resize(size, nan_of::<T>());\n            j_ += 1;\n        }\n' % (m.group(2), m.group(2))), f_rs)
    if n2 != 2:
        raise ExtractError('R-itermut: BulkVmEval::resize_slots loops changed')
    trace.fire('R-itermut', n2)
    out.append(st + '\n\nimpl<T: From<f32> + Clone> BulkVmEval<T> {\n' + f_rs + '\n}\n')
    for cfg in bulk_kinds:
        ev, ty = cfg['ev'], cfg['T']
        stx = tuple_struct(src, ev).replace('struct %s<const N: usize>(BulkVmEval<%s>)' % (ev, ty), 'pub struct %s<const N: usize>(pub BulkVmEval<%s>)' % (ev, ty))
        a, b = rsx.impl_block(src, r'^impl<const N: usize> BulkEvaluator for %s<N>' % ev, 'impl BulkEvaluator for ' + ev)
        i, j, k = rsx.find_fn(src, 'eval', a, b)
        fe = src[rsx.line_start(src, i):k]
        trace.fire('R-traitfn')
        trace.items.append((VM_RS, '%s::eval (BulkEvaluator)' % ev))
        fe = rewrite_bulk_eval(fe, trace, ty)
        out.append(stx + '\n\nimpl<const N: usize> %s<N> {\n' % ev + fe + '\n}\n')
    return '\n'.join(out)


def rewrite_bulk_eval(fe, trace, ty):
    fe = fe.replace('Self::Tape', 'GenericVmTape<N>')
    # R-deref: the generic parameter `V: Deref<Target = [T]>` is instantiated with `Vec<T>`
    old = 'fn eval<V: std::ops::Deref<Target = [Self::Data]>>('
    if fe.count(old) != 1 or fe.count('vars: &[V],') != 1:
        raise ExtractError('R-deref: signature of bulk eval changed')
    fe = fe.replace(old, 'fn eval(').replace('vars: &[V],', 'vars: &[Vec<%s>],' % ty)
    trace.fire('R-deref')
    # R-let: the closure of `vars.first().map(|v| v.len())` gets its postcondition
    old = 'let size = vars.first().map(|v| v.len()).unwrap_or(0);'
    if fe.count(old) != 1:
        raise ExtractError('R-let: computation of `size` changed')
    fe = fe.replace(old, 'let size = vars.first().map(|v: &Vec<%s>| -> (n: usize) ensures n == v@.len() { v.len() }).unwrap_or(0);   // R-let' % ty)
    trace.fire('R-let')
    # R-slotarray
    old = '        let mut v = SlotArray(&mut self.0.slots);\n'
    if fe.count(old) != 1:
        raise ExtractError('R-slotarray: declaration of `v` changed')
    fe = fe.replace(old, '')
    fe, n = re.subn(r'\bv\[(\w+)\]', r'self.0.slots[\1 as usize]', fe)
    trace.fire('R-slotarray', n + 1)
    # R-copyprefix: `D[0..size].copy_from_slice(S)` -> `copy_prefix(&mut D, S, size)`
    fe, n = re.subn(r'(self\.0\.(?:out|slots)\[\w+ as usize\])\[0\.\.size\]\s*\.copy_from_slice\(([^;]*)\);', r'copy_prefix(&mut \1, \2, size);   // R-copyprefix', fe)
    trace.fire('R-copyprefix', n)   # zero or more sites: an edit that copies differently is verified as edited (or leaves the subset: that function alone is undecided)
    if ty == 'f32':
        fe, n = re.subn(r'= -(self\.0\.slots\[\w+ as usize\]\[i\]);', r'= neg_(\1);', fe)
        trace.fire('R-neg', n)
    # R-tail: name the tail expression so that a proof block can follow it
    old = '        Ok(BulkOutput::new(&self.0.out, size))\n    }'
    if fe.count(old) != 1:
        raise ExtractError('R-tail: tail of bulk eval changed')
    fe = fe.replace(old, "        let ret_: Result<BulkOutput<'_, %s>, BulkEvalError> = Ok(BulkOutput::new(&self.0.out, size));   // R-tail\n        /*@tail*/\n        ret_\n    }" % ty)
    trace.fire('R-tail')
    # R-iter
    old = '        for op in tape.iter_asm() {\n'
    if fe.count(old) != 1:
        raise ExtractError('R-iter: loop header of bulk eval changed')
    fe = fe.replace(old, '        let mut i_: usize = tape.asm.tape.len();   // R-iter: iter_asm() == asm.tape.iter().cloned().rev()\n'
                         '        while i_ > 0 {\n            i_ -= 1;\n            let op = tape.asm.tape[i_];\n')
    trace.fire('R-iter')
    return fe




def interval_sigs(repo, trace):
    """real signatures (receiver, argument names) of the Interval methods the interval interpreter calls; the operator and
    From impls it uses must still exist"""
    src = rsx.clean(open('%s/%s' % (repo, INTERVAL_RS)).read(), trace)
    a, b = rsx.impl_block(src, r'^impl Interval\b', 'impl Interval')
    sigs = {}
    names = list(SP.IV_UN_METHODS) + list(SP.IV_BIN_METHODS) + list(SP.IV_CH_METHODS) + ['compare']
    for name in names:
        i, j, k = rsx.find_fn(src, name, a, b)
        sig = re.sub(r'\s+', ' ', src[i:j]).strip()
        m = re.match(r'^(fn %s(?:<.*>)?\([^)]*\)) -> [^{]+$' % name, sig)
        if not m:
            raise ExtractError('Interval::%s: unexpected signature %r' % (name, sig))
        sigs[name] = m.group(1).replace('Self', 'Interval').replace('self: Interval', 'self')
        trace.items.append((INTERVAL_RS, 'Interval::%s (external_body stub with the real signature)' % name))
    for hdr in ['impl std::ops::Add<Interval> for Interval', 'impl std::ops::Sub<Interval> for Interval', 'impl std::ops::Mul<Interval> for Interval',
                'impl std::ops::Div<Interval> for Interval', 'impl std::ops::Mul<f32> for Interval', 'impl std::ops::Neg for Interval', 'impl From<f32> for Interval']:
        if src.count(hdr) != 1:
            raise ExtractError('interval.rs: `%s` lost' % hdr)
        trace.items.append((INTERVAL_RS, hdr + ' (external_body stub)'))
    return sigs


def annotate_bulk(text, cfg, trace):
    """inject the per-arm ghost state, inner-loop invariants and arm-end lemma calls into `<ev>::eval` (bulk)"""
    qual = cfg['ev'] + '::eval'
    sub = lambda t: t.replace('@P@', cfg['p']).replace('@T@', cfg['T']).replace('@ENVPROOF@', cfg['envproof']).replace('@ENVINV@', cfg['envinv'])
    i, j, k = locate_fn(text, qual)
    seg = text[i:k]
    out = []
    pos = 0
    n_arms = 0
    for m in re.finditer(r'RegOp::(\w+)\(([^)]*)\) => \{', seg):
        ob = m.end() - 1
        cb = rsx.match_brace(seg, ob)
        body = seg[ob + 1:cb]
        nloops = body.count('for i in 0..size {')
        if nloops > 1:
            raise ExtractError('bulk arm %s has %d inner loops' % (m.group(1), nloops))
        body = body.replace('for i in 0..size {', 'for i in 0..size\n' + sub(SP.BULK_INNER_INV) + '\n                    {')
        out.append(seg[pos:ob + 1] + body.rstrip() + '\n' + sub(SP.BULK_ARM_END) + '\n                ')
        pos = cb
        n_arms += 1
    out.append(seg[pos:])
    seg = ''.join(out)
    text = text[:i] + seg + text[k:]
    trace.fire('inject-bulk-arm', n_arms)
    return text


GRAD_RS = 'fidget-core/src/types/grad.rs'


def grad_sigs(repo, trace):
    """real signatures of the Grad methods the gradient interpreter calls; the operator and From impls it uses must exist"""
    src = rsx.clean(open('%s/%s' % (repo, GRAD_RS)).read(), trace)
    a, b = rsx.impl_block(src, r'^impl Grad\b', 'impl Grad')
    sigs = {}
    for name in list(SP.G_UN_METHODS) + list(SP.G_BIN_METHODS):
        i, j, k = rsx.find_fn(src, name, a, b)
        sig = re.sub(r'\s+', ' ', src[i:j]).strip()
        m = re.match(r'^(fn %s\([^)]*\)) -> [^{]+$' % name, sig)
        if not m:
            raise ExtractError('Grad::%s: unexpected signature %r' % (name, sig))
        sigs[name] = m.group(1).replace('Self', 'Grad')
        trace.items.append((GRAD_RS, 'Grad::%s (external_body stub with the real signature)' % name))
    for hdr in ['impl std::ops::Add<Grad> for Grad', 'impl std::ops::Sub<Grad> for Grad', 'impl std::ops::Mul<Grad> for Grad',
                'impl std::ops::Div<Grad> for Grad', 'impl std::ops::Mul<f32> for Grad', 'impl std::ops::Neg for Grad', 'impl From<f32> for Grad']:
        if src.count(hdr) != 1:
            raise ExtractError('grad.rs: `%s` lost' % hdr)
        trace.items.append((GRAD_RS, hdr + ' (external_body stub)'))
    return sigs


def build(repo, trace, kinds=None, bulk_kinds=None):
    kinds = kinds or [SP.POINT, SP.make_interval(interval_sigs(repo, trace))]
    bulk_kinds = [SP.BULK_POINT, SP.make_bulk_grad(grad_sigs(repo, trace))] if bulk_kinds is None else bulk_kinds
    which = [(c['ev'], c['T']) for c in kinds]
    enums = opcodes.parse(repo, trace)
    check_iter_asm(repo, trace)
    text = ('#![feature(allocator_api)]\nuse vstd::prelude::*;\nuse vstd::std_specs::ops::*;\nuse vstd::std_specs::cmp::*;\nuse vstd::std_specs::convert::*;\nuse core::cmp::Ordering;\nuse std::sync::Arc;\nverus! {\n'
            + opcodes.render(enums).replace('\nenum ', '\npub enum ') + '\n' + extract_choice(repo, trace) + '\n' + extract_data(repo, trace) + '\n' + extract_errors(repo, trace) + '\n' + extract_floatext(repo, trace) + '\n'
            + extract_vm(repo, trace, which) + '\n' + (extract_bulk_env(repo, trace) + '\n' + extract_bulk(repo, trace, bulk_kinds) if bulk_kinds else '')
            + '\n} // verus!\nfn main() {}\n')
    for cfg in bulk_kinds:
        text = annotate_bulk(text, cfg, trace)
    inj = Injector(text, trace)
    gen = SP.generate(enums, kinds, bulk_kinds)
    for qual, (ret, stext) in gen['specs'].items():
        inj.spec(qual, ret, stext)
    for (qual, anchor, occ, before, proof) in gen['proofs']:
        inj.proof(qual, anchor, proof, occ=occ, before=before)
    for (qual, anchor, inv) in gen['loops']:
        inj.loop_inv(qual, anchor, inv)
    for (qual, attr) in gen.get('attrs', []):
        inj.attr(qual, attr)
    inj.append_items(gen['prelude'])
    obls = []
    texts = {'base': inj.s}
    # which properties an obligation supports: point evaluator C01 C04 C10 C11 C20; interval evaluator C03 C04 C10 C11 C20;
    # float-slice evaluator C01 C10 C11 C20; shared helpers: all
    fn_props = {}
    group_size = {}
    for c in kinds:
        fn_props[c['ev'] + '::eval'] = ['C03', 'C04', 'C10', 'C11', 'C20'] if c['T'] == 'Interval' else ['C01', 'C04', 'C10', 'C11', 'C20']
        group_size[c['ev'] + '::eval'] = 6
    for c in bulk_kinds:
        fn_props[c['ev'] + '::eval'] = ['C01', 'C10', 'C11', 'C20'] if c['T'] == 'f32' else ['C05', 'C10', 'C11', 'C20']
        group_size[c['ev'] + '::eval'] = 3
    for f in ('BulkVmEval::resize_slots', 'BulkOutput::new', 'copy_prefix'):
        fn_props[f] = ['C01', 'C05', 'C10', 'C11', 'C20']
    split_fns = list(group_size)
    for f in gen['exec_fns']:
        if f in split_fns:
            continue
        obls.append(Obligation('vm::' + f, 'vm', f, props=fn_props.get(f, PROPS)))
    # R-split: the 54-arm loop body of each interpreter is verified in path partitions; every RegOp variant
    # must own exactly one block arm
    variants = [v for v, _ in enums['RegOp']]
    for f in split_fns:
        i, j, k = locate_fn(inj.s, f)
        seg = inj.s[i:k]
        hdrs = {m.group(1): m.group(0) for m in re.finditer(r'RegOp::(\w+)\([^)]*\) => \{', seg)}
        if sorted(hdrs) != sorted(variants) or count_match_arms(inj.s, f, 'match op {') != len(variants):
            raise ExtractError('R-split: arms of %s do not match the RegOp variant list' % f)
        gs = group_size[f]
        groups = [variants[x:x + gs] for x in range(0, len(variants), gs)]
        for gi, grp in enumerate(groups):
            key = '%s_g%d' % (f.split('::')[0], gi)
            texts[key] = partition(inj.s, f, hdrs, grp, trace)
            obls.append(Obligation('vm::%s[%s]' % (f, ','.join(grp)), 'vm', f, text_key=key, props=fn_props[f]))
        trace.fire('R-split', len(groups))
    for f in gen['lemmas']:
        obls.append(Obligation('vm::' + f, 'vm', f, props=PROPS + ['C05'], kind='lemma'))
    return {'texts': texts, 'obligations': obls, 'canary_fns': gen['canaries']}
